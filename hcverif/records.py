"""Scalar replacement of NEW record types (normalisation step between helper inlining and canonicalisation).

A refactor that gathers a few locals into a `typing.NamedTuple` / `@dataclass` introduced for the purpose changes no behaviour, but
hides the values behind `record.field`.  For a record class that the reference tree does not know, this pass
  * projects a field out of a constructor call:          `C(a, b).y`                       ->  `b`
  * replaces a local that only ever holds such a record and is only used through its fields by one local per field:
        `v = C(a, b)` ... `v.x` ... `v.y = e`                                              ->  `v__x = a; v__y = b` ... `v__x` ... `v__y = e`
        `v = [await] f(...)` with `f` annotated `-> C`, C a NamedTuple                     ->  `(v__x, v__y) = [await] f(...)`
  * turns the constructor call of a NamedTuple in any other position into the plain tuple it is: `C(a, b)` -> `(a, b)`.
Field defaults: a literal default is copied; `field(default_factory=F)` becomes `F()` (the body of a parameterless lambda);
any other default expression is evaluated ONCE, when the class is created, and shared by every instance - it is referred to as
the class attribute `C.field`, which is exactly that shared object (so a mutable / stateful default stays visible as shared).
The pass refuses (leaves the code alone) whenever the record escapes: passed on, returned from a non-annotated routine, stored,
iterated, indexed, or accessed through a name that is not a declared field."""
from __future__ import annotations

import ast
import typing as T

FUNC_KINDS = (ast.FunctionDef, ast.AsyncFunctionDef)


class Record:
    def __init__(self, name: str, kind: str, fields: list[tuple[str, ast.expr | None]], node: ast.ClassDef):
        self.name, self.kind, self.fields, self.node = name, kind, fields, node

    @property
    def names(self) -> list[str]:
        return [f for f, _ in self.fields]


def _clone(node: T.Any) -> T.Any:
    if isinstance(node, ast.AST):
        new = node.__class__()
        for f in node._fields:
            if hasattr(node, f):
                setattr(new, f, _clone(getattr(node, f)))
        for a in ("lineno", "col_offset", "end_lineno", "end_col_offset"):
            if hasattr(node, a):
                setattr(new, a, getattr(node, a))
        return new
    if isinstance(node, list):
        return [_clone(x) for x in node]
    return node


def _literal(e: ast.AST) -> bool:
    if isinstance(e, ast.Constant):
        return True
    if isinstance(e, ast.Tuple):
        return all(_literal(x) for x in e.elts)
    if isinstance(e, ast.UnaryOp) and isinstance(e.op, ast.USub):
        return _literal(e.operand)
    return False


def record_of(c: ast.ClassDef) -> Record | None:
    bases = [ast.unparse(b) for b in c.bases]
    decos = [ast.unparse(d).split("(")[0] for d in c.decorator_list]
    kind = "namedtuple" if any(b in ("typing.NamedTuple", "NamedTuple") for b in bases) else \
        "dataclass" if any(d in ("dataclass", "dataclasses.dataclass") for d in decos) else None
    if kind is None or (kind == "dataclass" and bases) or (kind == "namedtuple" and len(bases) != 1):
        return None
    fields: list[tuple[str, ast.expr | None]] = []
    for st in c.body:
        if isinstance(st, ast.AnnAssign) and isinstance(st.target, ast.Name):
            if "ClassVar" in ast.unparse(st.annotation):
                continue
            fields.append((st.target.id, st.value))
        elif isinstance(st, FUNC_KINDS):
            if st.name in ("__init__", "__new__", "__post_init__", "__getattr__", "__getattribute__", "__setattr__", "__iter__", "__getitem__"):
                return None
            if any(ast.unparse(d) in ("property", "functools.cached_property", "cached_property") for d in st.decorator_list):
                return None
        elif isinstance(st, ast.Expr) and isinstance(st.value, ast.Constant):
            continue
        elif isinstance(st, ast.Pass):
            continue
        else:
            return None
    return Record(c.name, kind, fields, c) if fields else None


def _default(rec: Record, fld: str, dflt: ast.expr, at: ast.AST) -> ast.expr:
    if _literal(dflt):
        return ast.copy_location(_clone(dflt), at)
    if isinstance(dflt, ast.Call) and ast.unparse(dflt.func) in ("dataclasses.field", "field"):
        kws = {k.arg: k.value for k in dflt.keywords}
        if "default_factory" in kws and len(kws) == 1:
            f = kws["default_factory"]
            if isinstance(f, ast.Lambda) and not (f.args.args or f.args.kwonlyargs or f.args.vararg or f.args.kwarg):
                return ast.copy_location(_clone(f.body), at)
            return ast.copy_location(ast.Call(func=_clone(f), args=[], keywords=[]), at)
        if "default" in kws and len(kws) == 1 and _literal(kws["default"]):
            return ast.copy_location(_clone(kws["default"]), at)
    # evaluated once at class creation and shared: the class attribute is that object
    return ast.copy_location(ast.Attribute(value=ast.Name(id=rec.name, ctx=ast.Load()), attr=fld, ctx=ast.Load()), at)


def bind_ctor(rec: Record, call: ast.Call) -> list[ast.expr] | None:
    """The field values of `C(...)` in field order."""
    if any(isinstance(a, ast.Starred) for a in call.args) or any(k.arg is None for k in call.keywords) or len(call.args) > len(rec.fields):
        return None
    vals: dict[str, ast.expr] = {}
    for (f, _), a in zip(rec.fields, call.args):
        vals[f] = a
    for k in call.keywords:
        if k.arg not in rec.names or k.arg in vals:
            return None
        vals[k.arg] = k.value
    out = []
    for f, d in rec.fields:
        if f in vals:
            out.append(vals[f])
        elif d is not None:
            out.append(_default(rec, f, d, call))
        else:
            return None
    return out


def _is_ctor(e: ast.AST, recs: dict[str, Record]) -> Record | None:
    if isinstance(e, ast.Call) and isinstance(e.func, ast.Name) and e.func.id in recs:
        return recs[e.func.id]
    return None


def _own_nodes(fn: T.Any) -> T.Iterator[ast.AST]:
    todo = list(ast.iter_child_nodes(fn))
    while todo:
        n = todo.pop()
        yield n
        if isinstance(n, FUNC_KINDS + (ast.Lambda, ast.ClassDef)):
            continue
        todo.extend(ast.iter_child_nodes(n))


def _blocks(node: ast.AST) -> T.Iterator[list[ast.stmt]]:
    for n in ast.walk(node):
        for field in ("body", "orelse", "finalbody"):
            b = getattr(n, field, None)
            if isinstance(b, list) and b and all(isinstance(x, ast.stmt) for x in b):
                yield b


def scalarise(trees: dict[str, ast.Module], known_classes: dict[str, set[str] | None], abs_module: T.Callable[[str, int, str | None], str] | None = None) -> dict[str, list[str]]:
    notes: dict[str, list[str]] = {rel: [] for rel in trees}
    own_recs: dict[str, dict[str, Record]] = {}
    every_known = {n for known in known_classes.values() for n in (known or ())}
    for rel, tree in trees.items():
        known = known_classes.get(rel)
        own_recs[rel] = {}
        if known is None:
            continue
        for c in tree.body:
            if isinstance(c, ast.ClassDef) and c.name not in known and c.name not in every_known:
                r = record_of(c)
                if r is not None:
                    own_recs[rel][c.name] = r
    if not any(own_recs.values()):
        return notes
    mod_of = {rel: (rel[:-3].replace("/", ".")[: -len(".__init__")] if rel.endswith("__init__.py") else rel[:-3].replace("/", ".")) for rel in trees}
    rel_of = {m: r for r, m in mod_of.items()}
    for rel, tree in trees.items():
        _scalarise_module(rel, tree, trees, own_recs, rel_of, abs_module, notes)
    return notes


def _scalarise_module(rel: str, tree: ast.Module, trees: dict[str, ast.Module], own_recs: dict[str, dict[str, Record]], rel_of: dict[str, str],
                      abs_module: T.Callable[[str, int, str | None], str] | None, notes: dict[str, list[str]]) -> None:
    recs: dict[str, Record] = dict(own_recs.get(rel, {}))
    if abs_module is not None:
        for st in tree.body:
            if isinstance(st, ast.ImportFrom):
                src = rel_of.get(abs_module(rel, st.level, st.module))
                for a in st.names:
                    if src is not None and a.name in own_recs.get(src, {}) and a.asname is None:
                        recs[a.name] = own_recs[src][a.name]
    if not recs:
        return
    # routines OF THIS UNIT whose declared result is a record
    returns: dict[str, Record] = {}
    ambiguous: set[str] = set()
    for fn in [n for n in ast.walk(tree) if isinstance(n, FUNC_KINDS)]:
        txt = ast.unparse(fn.returns).strip("'\"") if fn.returns is not None else None
        if txt in recs:
            if fn.name in returns and returns[fn.name] is not recs[txt]:
                ambiguous.add(fn.name)
            returns[fn.name] = recs[txt]
    for fn in [n for n in ast.walk(tree) if isinstance(n, FUNC_KINDS)]:
        txt = ast.unparse(fn.returns).strip("'\"") if fn.returns is not None else None
        if fn.name in returns and (txt is None or txt not in recs or recs[txt] is not returns[fn.name]):
            ambiguous.add(fn.name)
    for n in ambiguous:
        returns.pop(n, None)

    def producer(e: ast.AST) -> tuple[Record, str] | None:
        r = _is_ctor(e, recs)
        if r is not None:
            return r, "ctor"
        c = e.value if isinstance(e, ast.Await) else e
        if isinstance(c, ast.Call):
            name = c.func.id if isinstance(c.func, ast.Name) else c.func.attr if isinstance(c.func, ast.Attribute) else None
            if name in returns and returns[name].kind == "namedtuple":
                return returns[name], "call"
        return None

    if True:
        done: list[str] = []
        # 1. projection out of a constructor call
        class Proj(ast.NodeTransformer):
            def visit_Attribute(self, n: ast.Attribute) -> ast.AST:
                self.generic_visit(n)
                r = _is_ctor(n.value, recs)
                if r is not None and isinstance(n.ctx, ast.Load) and n.attr in r.names:
                    vals = bind_ctor(r, n.value)  # type: ignore[arg-type]
                    if vals is not None:
                        others = [v for f, v in zip(r.names, vals) if f != n.attr]
                        if not any(isinstance(x, (ast.Call, ast.Await, ast.NamedExpr, ast.Yield)) for o in others for x in ast.walk(o)):
                            done.append(f"{r.name}(...).{n.attr} projected")
                            return vals[r.names.index(n.attr)]
                return n
        Proj().visit(tree)
        # 2. locals that only hold a record
        for fn in [n for n in ast.walk(tree) if isinstance(n, FUNC_KINDS)]:
            own = list(_own_nodes(fn))
            params = {a.arg for a in fn.args.args + fn.args.kwonlyargs}
            stores: dict[str, list[ast.AST]] = {}
            for n in own:
                if isinstance(n, ast.Name) and isinstance(n.ctx, (ast.Store, ast.Del)):
                    stores.setdefault(n.id, []).append(n)
            parent: dict[int, ast.AST] = {}
            for n in [fn] + own:
                for ch in ast.iter_child_nodes(n):
                    parent[id(ch)] = n
            used = {n.id for n in own if isinstance(n, ast.Name)} | params
            for v, sts in sorted(stores.items()):
                if v in params:
                    continue
                assigns = []
                rec: Record | None = None
                ok = True
                for s_ in sts:
                    p_ = parent.get(id(s_))
                    val = getattr(p_, "value", None)
                    single = (isinstance(p_, ast.Assign) and len(p_.targets) == 1 and p_.targets[0] is s_) or (isinstance(p_, ast.AnnAssign) and p_.target is s_ and val is not None)
                    pr = producer(val) if single and val is not None else None
                    if pr is None or (rec is not None and pr[0] is not rec):
                        ok = False
                        break
                    rec = pr[0]
                    assigns.append((p_, pr[1]))
                if not ok or rec is None:
                    continue
                loads = [n for n in own if isinstance(n, ast.Name) and n.id == v and isinstance(n.ctx, ast.Load)]
                if not all(isinstance(parent.get(id(n)), ast.Attribute) and parent[id(n)].value is n and parent[id(n)].attr in rec.names  # type: ignore[union-attr]
                           and (rec.kind == "dataclass" or isinstance(parent[id(n)].ctx, ast.Load)) for n in loads):  # type: ignore[union-attr]
                    continue
                # the attribute must not be a method call target (methods were inlined before; what is left is unknown)
                names = {f: (f"{v}__{f}") for f in rec.names}
                if any(nm in used for nm in names.values()):
                    continue
                plan = []
                for a_, how in assigns:
                    if how == "ctor":
                        vals = bind_ctor(rec, a_.value)
                        if vals is None:
                            ok = False
                            break
                        plan.append((a_, [ast.copy_location(ast.Assign(targets=[ast.Name(id=names[f], ctx=ast.Store())], value=val), a_) for f, val in zip(rec.names, vals)]))
                    else:
                        tgt = ast.Tuple(elts=[ast.Name(id=names[f], ctx=ast.Store()) for f in rec.names], ctx=ast.Store())
                        plan.append((a_, [ast.copy_location(ast.Assign(targets=[tgt], value=a_.value), a_)]))
                if not ok:
                    continue
                for a_, new in plan:
                    for b in _blocks(fn):
                        if any(x is a_ for x in b):
                            i = next(k for k, x in enumerate(b) if x is a_)
                            for s2 in new:
                                ast.fix_missing_locations(s2)
                            b[i:i + 1] = new
                            break
                for n in loads:
                    at = parent[id(n)]
                    pp = parent.get(id(at))
                    repl = ast.copy_location(ast.Name(id=names[at.attr], ctx=at.ctx), at)  # type: ignore[union-attr]
                    for fld, val in ast.iter_fields(pp):  # type: ignore[arg-type]
                        if val is at:
                            setattr(pp, fld, repl)
                        elif isinstance(val, list):
                            for k, x in enumerate(val):
                                if x is at:
                                    val[k] = repl
                done.append(f"{fn.name}: record local `{v}` ({rec.name}) replaced by one local per field")
                own = list(_own_nodes(fn))
                parent = {}
                for n in [fn] + own:
                    for ch in ast.iter_child_nodes(n):
                        parent[id(ch)] = n
                used |= set(names.values())
        # 3. a NamedTuple constructor anywhere else is the tuple of its fields
        class Tup(ast.NodeTransformer):
            def visit_Call(self, n: ast.Call) -> ast.AST:
                self.generic_visit(n)
                r = _is_ctor(n, recs)
                if r is not None and r.kind == "namedtuple":
                    vals = bind_ctor(r, n)
                    if vals is not None:
                        done.append(f"{r.name}(...) constructor -> tuple")
                        return ast.copy_location(ast.Tuple(elts=vals, ctx=ast.Load()), n)
                return n
        for fn in [n for n in ast.walk(tree) if isinstance(n, FUNC_KINDS)]:
            if any(fn in c.body for c in [r.node for r in recs.values()]):
                continue        # the record's own methods keep their constructor calls
            Tup().visit(fn)
        # 4. generated field locals that are never read and whose value is side-effect free disappear
        for fn in [n for n in ast.walk(tree) if isinstance(n, FUNC_KINDS)]:
            own = list(_own_nodes(fn))
            loaded = {n.id for n in own if isinstance(n, ast.Name) and isinstance(n.ctx, ast.Load)}
            for b in list(_blocks(fn)):
                for st in list(b):
                    if isinstance(st, ast.Assign) and len(st.targets) == 1 and isinstance(st.targets[0], ast.Name) and "__" in st.targets[0].id and st.targets[0].id not in loaded \
                            and any(st.targets[0].id.endswith("__" + f) for r in recs.values() for f in r.names) and _quiet(st.value):
                        b.remove(st)
                        if not b:
                            b.append(ast.copy_location(ast.Pass(), st))
        ast.fix_missing_locations(tree)
        notes[rel] = [f"{rel}: {d}" for d in sorted(set(done))]


def _quiet(e: ast.AST) -> bool:
    for n in ast.walk(e):
        if isinstance(n, (ast.Await, ast.Yield, ast.YieldFrom, ast.NamedExpr)):
            return False
        if isinstance(n, ast.Call):
            f = n.func
            if not (isinstance(f, ast.Attribute) and f.attr in ("get", "lower", "upper", "decode", "encode", "raw_items", "items", "keys", "values")):
                return False
    return True


# ---------------------------------------------------------------------------------------------------------------------------
# Objects of NEW plain helper classes that never escape their holder (a field of the owning object, or a local) are dissolved:
#     self._deadline = _Deadline(expiry)          ->   self._deadline__expiry = expiry; self._deadline__expire_at = None
#     self._deadline.expire_at = None             ->   self._deadline__expire_at = None
# (the helper's methods have been inlined at their call sites before - `self` became the holder expression -, so only field
# accesses are left).  The pass refuses when the object is used as a whole anywhere: passed on, returned, compared, stored twice.
def _simple_init(c: ast.ClassDef) -> T.Any:
    if c.decorator_list or any(ast.unparse(b) != "object" for b in c.bases):
        return None
    init = next((m for m in c.body if isinstance(m, FUNC_KINDS) and m.name == "__init__"), None)
    if init is None or isinstance(init, ast.AsyncFunctionDef) or init.args.vararg or init.args.kwarg or init.decorator_list:
        return None
    for st in init.body:
        if isinstance(st, ast.Expr) and isinstance(st.value, ast.Constant):
            continue
        tg = st.targets if isinstance(st, ast.Assign) else [st.target] if isinstance(st, ast.AnnAssign) and st.value is not None else None
        if tg is None or not all(isinstance(t, ast.Attribute) and isinstance(t.value, ast.Name) and t.value.id == "self" for t in tg):
            return None
        if any(isinstance(x, (ast.Await, ast.Yield, ast.Lambda)) for x in ast.walk(st)):
            return None
    if any(isinstance(m, FUNC_KINDS) and m.name.startswith("__") and m.name != "__init__" for m in c.body):
        return None
    return init


def dissolve_objects(trees: dict[str, ast.Module], known_classes: dict[str, set[str] | None],
                     abs_module: T.Callable[[str, int, str | None], str] | None = None) -> dict[str, list[str]]:
    from .inline import _expand

    notes: dict[str, list[str]] = {rel: [] for rel in trees}
    every_known = {n for known in known_classes.values() for n in (known or ())}
    serial = 0
    simple: dict[str, dict[str, ast.ClassDef]] = {}
    for rel, tree in trees.items():
        known = known_classes.get(rel)
        simple[rel] = {} if known is None else {c.name: c for c in tree.body if isinstance(c, ast.ClassDef) and c.name not in known and c.name not in every_known
                                                and _simple_init(c) is not None}
    rel_of = {(r[:-3].replace("/", ".")[: -len(".__init__")] if r.endswith("__init__.py") else r[:-3].replace("/", ".")): r for r in trees}
    for rel, tree in trees.items():
        known = known_classes.get(rel)
        if known is None:
            continue
        classes = dict(simple[rel])
        if abs_module is not None:
            for st in tree.body:
                if isinstance(st, ast.ImportFrom):
                    src = rel_of.get(abs_module(rel, st.level, st.module))
                    for a in st.names:
                        if src is not None and src != rel and a.asname is None and a.name in simple.get(src, {}):
                            classes[a.name] = simple[src][a.name]       # a new helper class defined in another unit
        if not classes:
            continue
        parent: dict[int, ast.AST] = {}
        for n in ast.walk(tree):
            for ch in ast.iter_child_nodes(n):
                parent[id(ch)] = n
        for cname, c in classes.items():
            init = _simple_init(c)
            init._in_class = True  # type: ignore[attr-defined]
            fields = {t.attr for st in init.body for t in (st.targets if isinstance(st, ast.Assign) else [st.target] if isinstance(st, ast.AnnAssign) else []) if isinstance(t, ast.Attribute)}
            ctor_calls = [n for n in ast.walk(tree) if isinstance(n, ast.Call) and isinstance(n.func, ast.Name) and n.func.id == cname]
            other_refs = [n for n in ast.walk(tree) if isinstance(n, ast.Name) and n.id == cname and not any(cc.func is n for cc in ctor_calls)]
            if not ctor_calls or any(not isinstance(parent.get(id(parent.get(id(n)))), ast.ClassDef) and isinstance(n.ctx, ast.Load) and not _in_annotation(n, parent) for n in other_refs):
                continue
            plans = []
            ok = True
            for call in ctor_calls:
                st = parent.get(id(call))
                tg = st.targets[0] if isinstance(st, ast.Assign) and len(st.targets) == 1 and st.value is call else st.target if isinstance(st, ast.AnnAssign) and st.value is call else None
                if isinstance(tg, ast.Attribute) and isinstance(tg.value, ast.Name) and tg.value.id == "self":
                    F = tg.attr
                    occ = [n for n in ast.walk(tree) if isinstance(n, ast.Attribute) and n.attr == F]
                    stores = [n for n in occ if isinstance(n.ctx, (ast.Store, ast.Del))]
                    uses = [n for n in occ if isinstance(n.ctx, ast.Load)]
                    # a local abbreviation `k = self.F` whose every use is `k.attr` is part of the holder: it is resolved first
                    for u in list(uses):
                        a_ = parent.get(id(u))
                        if isinstance(a_, ast.Assign) and a_.value is u and len(a_.targets) == 1 and isinstance(a_.targets[0], ast.Name):
                            fn_ = parent.get(id(a_))
                            while fn_ is not None and not isinstance(fn_, FUNC_KINDS):
                                fn_ = parent.get(id(fn_))
                            v_ = a_.targets[0].id
                            occ_v = [n for n in _own_nodes(fn_) if isinstance(n, ast.Name) and n.id == v_] if fn_ is not None else []
                            loads_v = [n for n in occ_v if isinstance(n.ctx, ast.Load)]
                            if fn_ is None or len(occ_v) - len(loads_v) != 1 or not all(isinstance(parent.get(id(n)), ast.Attribute) and parent[id(n)].value is n and parent[id(n)].attr in fields for n in loads_v):  # type: ignore[union-attr]
                                continue
                            for n in loads_v:
                                at_ = parent[id(n)]
                                at_.value = ast.copy_location(ast.Attribute(value=_clone(u.value), attr=F, ctx=ast.Load()), n)  # type: ignore[union-attr]
                            blk_ = parent.get(id(a_))
                            for fld_ in ("body", "orelse", "finalbody"):
                                lst_ = getattr(blk_, fld_, None)
                                if isinstance(lst_, list) and any(x is a_ for x in lst_):
                                    lst_[:] = [x for x in lst_ if x is not a_] or [ast.copy_location(ast.Pass(), a_)]
                    parent = {}
                    for n in ast.walk(tree):
                        for ch in ast.iter_child_nodes(n):
                            parent[id(ch)] = n
                    occ = [n for n in ast.walk(tree) if isinstance(n, ast.Attribute) and n.attr == F]
                    stores = [n for n in occ if isinstance(n.ctx, (ast.Store, ast.Del))]
                    uses = [n for n in occ if isinstance(n.ctx, ast.Load)]
                    if len(stores) != 1 or not all(isinstance(parent.get(id(u)), ast.Attribute) and parent[id(u)].value is u and parent[id(u)].attr in fields for u in uses):  # type: ignore[union-attr]
                        ok = False
                        break
                    plans.append(("field", st, tg, call, F, uses))
                elif isinstance(tg, ast.Name):
                    fn = parent.get(id(st))
                    while fn is not None and not isinstance(fn, FUNC_KINDS):
                        fn = parent.get(id(fn))
                    if fn is None:
                        ok = False
                        break
                    v = tg.id
                    occ = [n for n in _own_nodes(fn) if isinstance(n, ast.Name) and n.id == v]
                    stores = [n for n in occ if isinstance(n.ctx, (ast.Store, ast.Del))]
                    uses = [n for n in occ if isinstance(n.ctx, ast.Load)]
                    if len(stores) != 1 or v in {a.arg for a in fn.args.args + fn.args.kwonlyargs} or \
                            not all(isinstance(parent.get(id(u)), ast.Attribute) and parent[id(u)].value is u and parent[id(u)].attr in fields for u in uses):  # type: ignore[union-attr]
                        ok = False
                        break
                    plans.append(("local", st, tg, call, v, uses))
                else:
                    ok = False
                    break
            if not ok:
                continue
            for kind, st, tg, call, name, uses in plans:
                serial += 1
                recv = ast.copy_location(ast.Attribute(value=ast.Name(id="self", ctx=ast.Load()), attr=name, ctx=ast.Load()), tg) if kind == "field" else ast.copy_location(ast.Name(id=name, ctx=ast.Load()), tg)
                out = _expand(call, "expr", None, init, recv, 9000 + serial)
                if out is None:
                    continue
                blk = parent.get(id(st))
                for fld in ("body", "orelse", "finalbody"):
                    lst = getattr(blk, fld, None)
                    if isinstance(lst, list) and any(x is st for x in lst):
                        i = next(k for k, x in enumerate(lst) if x is st)
                        lst[i:i + 1] = out
                        break
                # flatten every access (those of the expanded constructor included)
                for n in ast.walk(tree):
                    for fname, val in ast.iter_fields(n):
                        items = val if isinstance(val, list) else [val]
                        for k, x in enumerate(items):
                            if isinstance(x, ast.Attribute) and isinstance(x.value, ast.Attribute) and kind == "field" and x.value.attr == name and x.attr in fields:
                                new = ast.copy_location(ast.Attribute(value=x.value.value, attr=f"{name}__{x.attr}", ctx=x.ctx), x)
                            elif isinstance(x, ast.Attribute) and isinstance(x.value, ast.Name) and kind == "local" and x.value.id == name and x.attr in fields:
                                new = ast.copy_location(ast.Name(id=f"{name}__{x.attr}", ctx=x.ctx), x)
                            else:
                                continue
                            if isinstance(val, list):
                                val[k] = new
                            else:
                                setattr(n, fname, new)
                notes[rel].append(f"{rel}: object of the new helper class {cname} held in {'self.' if kind == 'field' else ''}{name} dissolved into one {'field' if kind == 'field' else 'local'} per attribute")
            ast.fix_missing_locations(tree)
            parent = {}
            for n in ast.walk(tree):
                for ch in ast.iter_child_nodes(n):
                    parent[id(ch)] = n
    return notes


def _in_annotation(n: ast.AST, parent: dict[int, ast.AST]) -> bool:
    p, ch = parent.get(id(n)), n
    while p is not None:
        if isinstance(p, ast.AnnAssign) and p.annotation is ch:
            return True
        if isinstance(p, ast.arg) or (isinstance(p, FUNC_KINDS) and p.returns is ch):
            return True
        ch, p = p, parent.get(id(p))
    return False
