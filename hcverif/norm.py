"""E9: predicate normalisation by partial evaluation of pure expressions over finite
environments (truth tables for sibling-predicate agreement, interval tests, constant folding)."""
from __future__ import annotations

import ast
import itertools
import operator
import typing as T

from .load import norm


class Unknown:
    def __repr__(self) -> str:
        return "UNKNOWN"


UNKNOWN = Unknown()


class Sym:
    """An uninterpreted constant such as `HTTPConnectionState.IDLE` or `h11.DONE`."""
    __slots__ = ("text",)

    def __init__(self, text: str):
        self.text = text

    def __eq__(self, other: object) -> bool:
        return isinstance(other, Sym) and other.text == self.text

    def __hash__(self) -> int:
        return hash(self.text)

    def __repr__(self) -> str:
        return f"Sym({self.text})"


def _is_constant_like(text: str) -> bool:
    last = text.rsplit(".", 1)[-1]
    return last.isupper() or last[:1].isupper() and "." in text


BINOPS = {ast.Add: operator.add, ast.Sub: operator.sub, ast.Mult: operator.mul, ast.Pow: operator.pow,
          ast.Mod: operator.mod, ast.FloorDiv: operator.floordiv, ast.Div: operator.truediv,
          ast.LShift: operator.lshift, ast.RShift: operator.rshift, ast.BitOr: operator.or_, ast.BitAnd: operator.and_}


def peval(e: ast.AST, env: dict[str, T.Any]) -> T.Any:
    """Evaluate a pure expression.  `env` maps normalised expression text to values."""
    key = norm(e)
    if key in env:
        return env[key]
    if isinstance(e, ast.Constant):
        return e.value
    if isinstance(e, ast.Await):
        return peval(e.value, env)
    if isinstance(e, (ast.Name, ast.Attribute)):
        return Sym(key) if _is_constant_like(key) else UNKNOWN
    if isinstance(e, (ast.Tuple, ast.List, ast.Set)):
        vals = [peval(x, env) for x in e.elts]
        if any(v is UNKNOWN for v in vals):
            return UNKNOWN
        return tuple(vals) if not isinstance(e, ast.List) else list(vals)
    if isinstance(e, ast.UnaryOp):
        v = peval(e.operand, env)
        if v is UNKNOWN:
            return UNKNOWN
        if isinstance(e.op, ast.Not):
            return not v
        if isinstance(e.op, ast.USub) and isinstance(v, (int, float)):
            return -v
        return UNKNOWN
    if isinstance(e, ast.BoolOp):
        is_and = isinstance(e.op, ast.And)
        unknown = False
        last: T.Any = is_and
        for x in e.values:
            v = peval(x, env)
            if v is UNKNOWN:
                unknown = True
                continue
            if is_and and not v:
                return v
            if not is_and and v:
                return v
            last = v
        return UNKNOWN if unknown else last
    if isinstance(e, ast.IfExp):
        c = peval(e.test, env)
        if c is UNKNOWN:
            a, b = peval(e.body, env), peval(e.orelse, env)
            return a if (a is not UNKNOWN and _same(a, b)) else UNKNOWN
        return peval(e.body if c else e.orelse, env)
    if isinstance(e, ast.Compare):
        left = peval(e.left, env)
        for op, right_e in zip(e.ops, e.comparators):
            right = peval(right_e, env)
            r = _cmp(op, left, right)
            if r is UNKNOWN:
                return UNKNOWN
            if not r:
                return False
            left = right
        return True
    if isinstance(e, ast.BinOp):
        a, b = peval(e.left, env), peval(e.right, env)
        fn = BINOPS.get(type(e.op))
        if a is UNKNOWN or b is UNKNOWN or fn is None or isinstance(a, Sym) or isinstance(b, Sym):
            return UNKNOWN
        try:
            return fn(a, b)
        except Exception:  # noqa: BLE001
            return UNKNOWN
    if isinstance(e, ast.Call) and isinstance(e.func, ast.Name) and e.func.id in ("len", "min", "max", "bool", "int", "abs", "list", "tuple", "sorted", "float") and not e.keywords:
        args = [peval(a, env) for a in e.args]
        if any(a is UNKNOWN or isinstance(a, Sym) for a in args):
            return UNKNOWN
        try:
            return {"len": len, "min": min, "max": max, "bool": bool, "int": int, "abs": abs, "list": list, "tuple": tuple, "sorted": sorted, "float": float}[e.func.id](*args)
        except Exception:  # noqa: BLE001
            return UNKNOWN
    if isinstance(e, (ast.ListComp, ast.SetComp, ast.GeneratorExp)) and len(e.generators) == 1 and not e.generators[0].is_async:
        g = e.generators[0]
        it = peval(g.iter, env)
        if it is UNKNOWN or isinstance(it, Sym) or not isinstance(it, (list, tuple, set, frozenset)):
            return UNKNOWN
        out = []
        for item in (sorted(it, key=repr) if isinstance(it, (set, frozenset)) else it):
            sub = dict(env)
            if isinstance(g.target, ast.Name):
                sub[g.target.id] = item
            elif isinstance(g.target, (ast.Tuple, ast.List)) and all(isinstance(t, ast.Name) for t in g.target.elts) and isinstance(item, (tuple, list)) and len(item) == len(g.target.elts):
                for t, v in zip(g.target.elts, item):
                    sub[t.id] = v
            else:
                return UNKNOWN
            keep = True
            for c in g.ifs:
                r = peval(c, sub)
                if r is UNKNOWN:
                    return UNKNOWN
                if not r:
                    keep = False
                    break
            if keep:
                v = peval(e.elt, sub)
                if v is UNKNOWN:
                    return UNKNOWN
                out.append(v)
        try:
            return set(out) if isinstance(e, ast.SetComp) else out
        except TypeError:
            return UNKNOWN
    if isinstance(e, ast.Call) and isinstance(e.func, ast.Attribute) and e.func.attr in ("lower", "upper") and not e.args:
        v = peval(e.func.value, env)
        if isinstance(v, (bytes, str)):
            return getattr(v, e.func.attr)()
        return UNKNOWN
    return UNKNOWN


def _same(a: T.Any, b: T.Any) -> bool:
    try:
        return type(a) is type(b) and a == b
    except Exception:  # noqa: BLE001
        return False


def _cmp(op: ast.cmpop, a: T.Any, b: T.Any) -> T.Any:
    if a is UNKNOWN or b is UNKNOWN:
        return UNKNOWN
    if isinstance(op, (ast.Is, ast.IsNot)) and not any(x is None or isinstance(x, bool) for x in (a, b)) \
            and all(isinstance(x, (int, float, bytes, str, tuple)) for x in (a, b)):
        return UNKNOWN      # identity of two ordinary values is an interpreter accident (small-int cache, interning): not `==`
    if isinstance(op, (ast.Eq, ast.Is)):
        return _eq(a, b)
    if isinstance(op, (ast.NotEq, ast.IsNot)):
        r = _eq(a, b)
        return UNKNOWN if r is UNKNOWN else not r
    if isinstance(op, (ast.In, ast.NotIn)):
        if not isinstance(b, (tuple, list, set, frozenset, bytes, str, dict)):
            return UNKNOWN
        if isinstance(b, (tuple, list, set, frozenset)):
            rs = [_eq(a, x) for x in b]
            if any(r is True for r in rs):
                res: T.Any = True
            elif any(r is UNKNOWN for r in rs):
                return UNKNOWN
            else:
                res = False
        else:
            try:
                res = a in b
            except Exception:  # noqa: BLE001
                return UNKNOWN
        return res if isinstance(op, ast.In) else not res
    if isinstance(a, Sym) or isinstance(b, Sym) or a is None or b is None:
        return UNKNOWN
    try:
        if isinstance(op, ast.Lt):
            return a < b
        if isinstance(op, ast.LtE):
            return a <= b
        if isinstance(op, ast.Gt):
            return a > b
        if isinstance(op, ast.GtE):
            return a >= b
    except Exception:  # noqa: BLE001
        return UNKNOWN
    return UNKNOWN


def _eq(a: T.Any, b: T.Any) -> T.Any:
    if isinstance(a, Sym) or isinstance(b, Sym):
        if isinstance(a, Sym) and isinstance(b, Sym):
            return a.text == b.text
        return False if (a is None or b is None) else UNKNOWN
    if a is None or b is None:
        return a is b
    try:
        return a == b
    except Exception:  # noqa: BLE001
        return UNKNOWN


def truth_table(e: ast.AST, domains: dict[str, list[T.Any]], base: dict[str, T.Any] | None = None) -> dict[tuple, T.Any]:
    keys = sorted(domains)
    table = {}
    for combo in itertools.product(*(domains[k] for k in keys)):
        env = dict(base or {})
        env.update(dict(zip(keys, combo)))
        table[combo] = peval(e, env)
    return table


def int_boundaries(e: ast.AST) -> list[int]:
    """Representative integers around every integer constant of a predicate."""
    pts = {-1, 0, 1}
    for n in ast.walk(e):
        if isinstance(n, ast.Constant) and isinstance(n.value, int) and not isinstance(n.value, bool):
            pts |= {n.value - 1, n.value, n.value + 1}
    return sorted(pts)


def conj_atoms(test: ast.expr, polarity: bool = True) -> list[tuple[ast.expr, bool]]:
    """Atoms (with polarity) that necessarily hold when `test` evaluates to `polarity`."""
    if isinstance(test, ast.UnaryOp) and isinstance(test.op, ast.Not):
        return conj_atoms(test.operand, not polarity)
    if isinstance(test, ast.BoolOp):
        if isinstance(test.op, ast.And) and polarity:
            return [a for v in test.values for a in conj_atoms(v, True)]
        if isinstance(test.op, ast.Or) and not polarity:
            return [a for v in test.values for a in conj_atoms(v, False)]
        return []
    return [(test, polarity)]


_FLIP = {ast.Eq: ast.Eq, ast.NotEq: ast.NotEq, ast.Lt: ast.Gt, ast.Gt: ast.Lt, ast.LtE: ast.GtE, ast.GtE: ast.LtE,
         ast.Is: ast.Is, ast.IsNot: ast.IsNot}
_NEG = {ast.Eq: "!=", ast.NotEq: "==", ast.Is: "!=", ast.IsNot: "==", ast.Lt: ">=", ast.GtE: "<", ast.Gt: "<=", ast.LtE: ">",
        ast.In: "notin", ast.NotIn: "in"}
_POS = {ast.Eq: "==", ast.NotEq: "!=", ast.Is: "==", ast.IsNot: "!=", ast.Lt: "<", ast.GtE: ">=", ast.Gt: ">", ast.LtE: "<=",
        ast.In: "in", ast.NotIn: "notin"}
_MIRROR = {"==": "==", "!=": "!=", "<": ">", ">": "<", "<=": ">=", ">=": "<="}


def canon_atom(atom: ast.expr, polarity: bool) -> str:
    """Canonical text of an atom: `is`==`==`, negation folded into the operator, operands ordered."""
    if isinstance(atom, ast.Compare) and len(atom.ops) == 1:
        op = type(atom.ops[0])
        sym = (_POS if polarity else _NEG).get(op)
        if sym is not None:
            a, b = norm(atom.left), norm(atom.comparators[0])
            if sym in _MIRROR and a > b:
                a, b, sym = b, a, _MIRROR[sym]
            if sym in ("in", "notin") and isinstance(atom.comparators[0], (ast.Tuple, ast.List, ast.Set)):
                b = "{" + ",".join(sorted(norm(x) for x in atom.comparators[0].elts)) + "}"
            return f"{a}{sym}{b}"
    return ("" if polarity else "not:") + norm(atom)


def guard_atoms(guards: list[tuple[ast.expr, bool]]) -> set[str]:
    out = set()
    for test, pol in guards:
        for atom, p in conj_atoms(test, pol):
            out.add(canon_atom(atom, p))
    return out


def _dnf(test: ast.expr, polarity: bool) -> list[list[tuple[ast.expr, bool]]]:
    """Disjunctive normal form of `test == polarity`: a list of alternatives, each a list of (atom, polarity)."""
    if isinstance(test, ast.UnaryOp) and isinstance(test.op, ast.Not):
        return _dnf(test.operand, not polarity)
    if isinstance(test, ast.BoolOp):
        conj = (isinstance(test.op, ast.And) and polarity) or (isinstance(test.op, ast.Or) and not polarity)
        parts = [_dnf(v, polarity) for v in test.values]
        if conj:
            out: list[list[tuple[ast.expr, bool]]] = [[]]
            for p_ in parts:
                out = [a + b for a in out for b in p_]
                if len(out) > 64:
                    return [[(test, polarity)]]
            return out
        return [alt for p_ in parts for alt in p_]
    return [[(test, polarity)]]


def guard_alternatives(guards: list[tuple[ast.expr, bool]]) -> list[set[str]]:
    """All ways the guard stack can hold: the cross product of the DNFs of the individual guards, as canonical atom sets.
    (`guard_atoms` is the intersection of these - what holds on every alternative.)"""
    alts: list[set[str]] = [set()]
    for test, pol in guards:
        d = _dnf(test, pol)
        new = []
        for a in alts:
            for alt in d:
                new.append(a | {canon_atom(x, p_) for x, p_ in alt})
        alts = new[:256]
    return alts


def run_to(stmts: list[ast.stmt], target: ast.AST, env: dict[str, T.Any]) -> str:
    """A small interpreter: execute straight-line code with foldable branches up to the statement containing `target`,
    updating `env` (names -> values; lists support append / extend / +=).  A branch or loop that contains the target is
    entered (we ask for the state *given that the target is reached*); other branches with an unknown test invalidate what
    they may write.  Returns 'hit' (env is the state just before the target's statement), 'miss' or 'unknown'."""
    def contains(node: ast.AST) -> bool:
        return any(x is target for x in ast.walk(node))

    def forget(node: ast.AST) -> None:
        for x in ast.walk(node):
            if isinstance(x, ast.Name) and isinstance(x.ctx, ast.Store):
                env[x.id] = UNKNOWN
            elif isinstance(x, ast.Call) and isinstance(x.func, ast.Attribute) and isinstance(x.func.value, ast.Name) and x.func.attr in ("append", "extend", "insert", "pop", "remove", "clear", "update"):
                env[x.func.value.id] = UNKNOWN

    for st in stmts:
        compound = isinstance(st, (ast.If, ast.With, ast.AsyncWith, ast.Try, ast.For, ast.AsyncFor, ast.While))
        if contains(st) and not compound:
            return "hit"
        if isinstance(st, (ast.Assign, ast.AnnAssign)):
            tg = st.targets[0] if isinstance(st, ast.Assign) else st.target
            if isinstance(tg, ast.Name) and getattr(st, "value", None) is not None:
                v = peval(st.value, env)
                env[tg.id] = list(v) if isinstance(v, list) else v
            elif getattr(st, "value", None) is not None:
                forget(st)
        elif isinstance(st, ast.AugAssign) and isinstance(st.target, ast.Name):
            cur, add = env.get(st.target.id, UNKNOWN), peval(st.value, env)
            if isinstance(cur, list) and isinstance(add, (list, tuple)) and isinstance(st.op, ast.Add):
                env[st.target.id] = cur + list(add)
            elif isinstance(st.op, ast.Add) and type(cur) is type(add) and isinstance(cur, (bytes, str, int)) and not isinstance(cur, bool):
                env[st.target.id] = cur + add
            else:
                env[st.target.id] = UNKNOWN
        elif isinstance(st, ast.Expr) and isinstance(st.value, ast.Call) and isinstance(st.value.func, ast.Attribute) and isinstance(st.value.func.value, ast.Name) \
                and st.value.func.attr in ("append", "extend") and len(st.value.args) == 1:
            nm = st.value.func.value.id
            cur, arg = env.get(nm, UNKNOWN), peval(st.value.args[0], env)
            if isinstance(cur, list) and arg is not UNKNOWN:
                env[nm] = cur + ([arg] if st.value.func.attr == "append" else list(arg))
            else:
                env[nm] = UNKNOWN
        elif isinstance(st, ast.If):
            c = peval(st.test, env)
            if contains(st):
                if any(x is target for x in ast.walk(st.test)):
                    return "hit"
                branch = st.body if any(contains(x) for x in st.body) else st.orelse
                if c is not UNKNOWN and (st.body if c else st.orelse) is not branch:
                    return "miss"
                return run_to(branch, target, env)
            if c is UNKNOWN:
                forget(st)
            else:
                r = run_to(st.body if c else st.orelse, target, env)
                if r != "miss":
                    return r
        elif isinstance(st, (ast.With, ast.AsyncWith)):
            if any(x is target for it in st.items for x in ast.walk(it.context_expr)):
                return "hit"
            r = run_to(st.body, target, env)
            if r != "miss":
                return r
        elif isinstance(st, ast.Try):
            if contains(st):
                for blk in [st.body] + [h.body for h in st.handlers] + [st.orelse, st.finalbody]:
                    if any(contains(x) for x in blk):
                        if blk is not st.body:
                            forget(st)
                        return run_to(blk, target, env)
            r = run_to(st.body, target, env)
            if r != "miss":
                return r
            forget(st)
        elif isinstance(st, (ast.For, ast.AsyncFor, ast.While)):
            if contains(st):
                forget(st)       # values carried round the loop are not tracked
                return run_to(st.body if any(contains(x) for x in st.body) else st.orelse, target, env)
            forget(st)
        elif isinstance(st, (ast.Return, ast.Raise)):
            return "miss"
    return "miss"
