"""C06 - every network stream that is opened is eventually closed."""
from __future__ import annotations

import ast

from ..cfg import CFG, Edge, Node
from ..context import Context
from ..escape import CANCELLED
from ..faults import escapes_without, kinds, real_sources
from ..guards import guards_of
from ..load import AnalysisError, FuncInfo, Names, chain, norm, own_nodes, parent
from ..norm import guard_atoms
from .c05 import node_calls, try_context, witness
from .common import calls_named, fkey, net_sites, trees, where


def run(ctx: Context) -> None:
    rep = ctx.rep
    rep.explanation = (
        "R1 closing-list must-use: every connection removed from the pool while not known closed is appended to the closing list in the "
        "same block; the result of every assignment pass reaches _close_connections on every path with no fault point in between; pool "
        "close closes a snapshot of all connections; _close_connections awaits close on every element under a shield. R2 delegation "
        "chain: every class holding a closeable (stream or connection) closes it in its own close routine, modulo the enumerated guard "
        "forms. R3 stream ownership (resource-leak dataflow over the exceptional CFG): from each acquisition (connect_tcp / "
        "connect_unix_socket / result of an owning helper / start_tls of an owned stream) the local owner must on every path - normal, "
        "exceptional, cancelled - be transferred (stored into self.* through a connection constructor, or returned) or closed; the only "
        "excused edge is an Exception out of start_tls itself (backend contract R5). R4: CONNECT refusal closes before raising. "
        "R5 backend contract: each real backend's start_tls closes itself in a handler enclosing the handshake."
    )
    for r, t in (("C06.R1", "evicted connections reach _close_connections; pool close closes everything"),
                 ("C06.R2", "each holder of a closeable closes it in its own close"),
                 ("C06.R3", "an opened stream is transferred or closed on every path"),
                 ("C06.R4", "CONNECT refusal closes the proxy connection before raising"),
                 ("C06.R5", "backends close the socket when the TLS upgrade fails"),
                 ("C06.R6", "is_closed() is true only after the connection's own close ran (the pool drops closed connections without closing them)")):
        rep.rule(r, t)
    for tree, N in trees(ctx):
        _r1(ctx, tree, N)
        _r2(ctx, tree, N)
        _r3(ctx, tree, N)
        _r4(ctx, tree, N)
        _r6(ctx, tree, N)
        closed_store_paired(ctx, "C06.R6", tree, N)
    _r5(ctx)
    rep.assume("a backend's start_tls consumes its receiver and closes it on Exception (checked on the three real backends by R5); on cancellation it does not")


def _r1(ctx: Context, tree: str, N: Names) -> None:
    rep = ctx.rep
    t = N.t
    f = N.func("connection_pool", "AsyncConnectionPool._assign_requests_to_connections")
    removes = [c for c in calls_named(f, "remove") if norm(c.func.value) == "self._connections"]
    rep.floor("C06.R1", f"removals from the pool list ({tree})", len(removes), 1)
    for i, c in enumerate(removes):
        arg = norm(c.args[0]) if c.args else "?"
        at = guard_atoms(guards_of(c))
        if f"{arg}.is_closed()" in at:
            rep.ob("C06.R1", fkey(tree, f, f"remove-{i}"), True, where(f, c), "removed connection is already closed")
            continue
        st = parent(c)
        blk = parent(st) if isinstance(st, ast.Expr) else None
        sib = []
        for field in ("body", "orelse"):
            b = getattr(blk, field, None)
            if isinstance(b, list) and st in b:
                sib = b[b.index(st) + 1:]
        ok = False
        for s in sib:
            if isinstance(s, ast.Expr) and isinstance(s.value, ast.Call) and norm(s.value.func).endswith(".append") and [norm(a) for a in s.value.args] == [arg]:
                ok = True
                break
            if any(isinstance(x, ast.Name) and isinstance(x.ctx, ast.Store) and x.id == arg for x in ast.walk(s)):
                break  # rebound before being queued for closing
        rep.ob("C06.R1", fkey(tree, f, f"remove-{i}"), ok, where(f, c),
               f"`{arg}` removed from the pool is queued for closing" if ok else f"`{arg}` is removed from the pool without being queued for closing: its stream is never closed")
    rets = [r for r in own_nodes(f.node) if isinstance(r, ast.Return)]
    rep.ob("C06.R1", fkey(tree, f, "returns-closing-list"), bool(rets) and all(r.value is not None and norm(r.value) == "closing_connections" for r in rets), where(f),
           "the pass returns the closing list")
    # every call of the pass hands its result to _close_connections
    ncall = 0
    for g in N.functions():
        for c in calls_named(g, "_assign_requests_to_connections"):
            ncall += 1
            cfg = ctx.cfg(g)
            nodes = cfg.nodes_for(c)
            st = nodes[0].ast if nodes else None
            var = norm(st.targets[0]) if isinstance(st, ast.Assign) else None
            if var is None:
                rep.ob("C06.R1", fkey(tree, g, "closing-result-used"), False, where(g, c), "result of the assignment pass (connections to close) is discarded")
                continue
            is_close = lambda n: node_calls(n, lambda call: norm(call.func).endswith("_close_connections") and [norm(a) for a in call.args] == [var])
            reach = cfg.reachable([e.dst for e in nodes[0].succ if e.kind != "exc"], follow=lambda e: e.kind != "exc", stop=is_close)
            leak_normal = cfg.exit.id in reach
            between = [n for n in cfg.nodes if n.id in reach and not is_close(n) and real_sources(n) and escapes_without(cfg, n, is_close)]
            rep.ob("C06.R1", fkey(tree, g, "closing-result-used"), not leak_normal and not between, where(g, c),
                   f"`{var}` reaches _close_connections on every path with no fault point in between" if not leak_normal and not between else
                   f"evicted connections in `{var}` may never be closed (normal path skips: {leak_normal}; fault points before the close: {witness(between)})", witness(between))
    rep.floor("C06.R1", f"calls of the assignment pass ({tree})", ncall, 3)
    # _close_connections
    cc = N.func("connection_pool", "AsyncConnectionPool._close_connections")
    pp = cc.positional_params()
    list_param = pp[1] if cc.cls is not None and len(pp) > 1 else pp[0] if pp else "?"      # method (after self) or plain function
    loops = [n for n in own_nodes(cc.node) if isinstance(n, ast.For) and norm(n.iter) == list_param]
    ok = bool(loops) and any(isinstance(s, ast.Expr) and norm(s.value).replace("await", "") in (f"{norm(loops[0].target)}.aclose()", f"{norm(loops[0].target)}.close()")
                             and not guard_atoms(guards_of(s)) - guard_atoms(guards_of(loops[0])) for s in loops[0].body) if loops else False
    rep.ob("C06.R1", fkey(tree, cc, "closes-each"), ok, where(cc), "_close_connections closes every element unconditionally")
    if tree == "async":
        cfg = ctx.cfg(cc)
        unshielded = [n for n in cfg.nodes if n.may_cancel() and not n.shield]
        rep.ob("C06.R1", fkey(tree, cc, "shielded"), not unshielded, where(cc), "closing runs under a cancellation shield" if not unshielded else f"closing can be cancelled at {witness(unshielded)}")
    # pool close
    pc = N.func("connection_pool", "AsyncConnectionPool.aclose")
    calls = calls_named(pc, "_close_connections")
    ok = False
    if calls and calls[0].args:
        terms = [norm(a) for a in ctx.prov.expand(calls[0].args[0], pc, calls[0])]
        ok = terms in (["list(self._connections)"], ["self._connections"], ["self._connections[:]"])
    rep.ob("C06.R1", fkey(tree, pc, "pool-close-all"), ok, where(pc), "pool close closes a snapshot of all pooled connections")


CLOSE_GUARDS_OK = ("!=None", "None!=", "not:self._closed", "hasattr(")


def _r2(ctx: Context, tree: str, N: Names) -> None:
    rep = ctx.rep
    t = N.t
    nclose = 0
    types = ctx.types
    for m in N.modules():
        for c in m.classes.values():
            close = c.methods.get(t("aclose"))
            if close is None or c.name.endswith("Interface"):
                continue
            # closeable attributes: typed as a repo class with a close method, or as a network stream
            attrs = set()
            for fn in c.methods.values():
                for n in own_nodes(fn.node):
                    if isinstance(n, ast.Attribute) and isinstance(n.ctx, ast.Store) and isinstance(n.value, ast.Name) and n.value.id == "self":
                        attrs.add(n.attr)
            closeables = []
            for a in sorted(attrs):
                ty = types.attr_type(c, a)
                cands = ty[1] if ty[0] == "union" else [ty]
                if any(x[0] == "cls" and x[1].find_method(t("aclose")) is not None and not x[1].name.endswith("Pool") for x in cands):
                    closeables.append(a)
                elif a == "_stream" and ty[0] == "list":
                    closeables.append(a)  # PoolByteStream: any async iterable, closed when it has aclose
            if not closeables:
                continue
            nclose += 1
            for a in closeables:
                direct = [x for x in own_nodes(close.node) if isinstance(x, ast.Call) and norm(x.func) in (f"self.{a}.aclose", f"self.{a}.close")]
                via = [x for x in own_nodes(close.node) if isinstance(x, ast.Call) and norm(x.func) == f"self.{a}._response_closed"]
                calls = direct or via
                ok = bool(calls)
                detail = f"{c.name}.{close.name} never closes self.{a}"
                if calls:
                    extra = [g for g in guard_atoms(guards_of(calls[0])) if not any(p in g for p in CLOSE_GUARDS_OK)]
                    ok = not extra
                    detail = f"closes self.{a}" + (f" only under {extra}" if extra else (" via _response_closed" if via and not direct else ""))
                rep.ob("C06.R2", fkey(tree, close, f"closes:{a}"), ok, where(close), detail)
    rep.floor("C06.R2", f"classes holding a closeable ({tree})", nclose, 9)


class Own:
    """Ownership dataflow for one function."""

    def __init__(self, ctx: Context, tree: str, N: Names, f: FuncInfo, owning_helpers: set[str]):
        self.ctx, self.tree, self.N, self.f = ctx, tree, N, f
        self.cfg: CFG = ctx.cfg(f)
        self.helpers = owning_helpers
        self.acq: dict[int, tuple[str, str]] = {}  # node id -> (var, kind)
        self._find()

    def _find(self) -> None:
        cg = self.ctx.callgraph
        esc = self.ctx.escape
        for n in self.cfg.nodes:
            if n.kind != "stmt" or not isinstance(n.ast, ast.Assign) or not isinstance(n.ast.targets[0], ast.Name):
                continue
            var = n.ast.targets[0].id
            val = n.ast.value.value if isinstance(n.ast.value, ast.Await) else n.ast.value
            if not isinstance(val, ast.Call):
                continue
            for s in cg.sites_at(val):
                ops = {c.func.name for c in s.callees if c.func is not None and c.func.cls is not None and c.func.cls.qual in esc.net_classes}
                if ops & {"connect_tcp", "connect_unix_socket"}:
                    self.acq[n.id] = (var, "connect")
                elif "start_tls" in ops:
                    self.acq[n.id] = (var, "start_tls:" + norm(val.func.value))
                elif any(t.qual in self.helpers for t in s.repo_targets()):
                    self.acq[n.id] = (var, "helper")

    def _kills(self, n: Node, var: str) -> bool:
        """Does node n transfer or close the stream held in `var`?"""
        a = n.ast
        if a is None:
            return False
        if n.kind == "return" and isinstance(a, ast.Return) and a.value is not None and norm(a.value) == var:
            return True
        if n.kind == "stmt":
            for c in ast.walk(a):
                if isinstance(c, ast.Call):
                    if norm(c.func) in (f"{var}.aclose", f"{var}.close"):
                        return True
                    # stored into self.* through a connection constructor taking stream=var
                    if any(k.arg == "stream" and norm(k.value) == var for k in c.keywords) and isinstance(a, ast.Assign) and norm(a.targets[0]).startswith("self."):
                        return True
        return False

    def _feasible(self, e: Edge, var: str) -> bool:
        """While the resource held in `var` is live, `var is not None` holds."""
        from ..norm import canon_atom, conj_atoms

        n = e.src
        if n.kind == "if" and e.kind in ("t", "f"):
            atoms = {canon_atom(a, p) for a, p in conj_atoms(n.ast.test, e.kind == "t")}
            if f"None=={var}" in atoms or f"{var}==None" in atoms or f"not:{var}" in atoms:
                return False
        return True

    def analyse(self) -> list[tuple[Node, str, str, list[Node]]]:
        """-> (acquisition node, var, kind of leaking edge, leaking fault nodes)"""
        out = []
        for nid, (var, kind) in self.acq.items():
            an = self.cfg.nodes[nid]
            owned_before = None
            if kind.startswith("start_tls:"):
                recv = kind.split(":", 1)[1]
                # only a start_tls of an *owned* stream creates an owned stream here; borrowed receivers stay borrowed
                owned_before = [m for m, (v, k) in self.acq.items() if v == recv and m != nid
                                and an.id in self.cfg.reachable([self.cfg.nodes[m]], follow=lambda e: e.kind != "exc")]
                if not owned_before:
                    continue
            # forward from the acquisition along normal edges; the resource is live until a kill
            live = self.cfg.reachable([e.dst for e in an.succ if e.kind != "exc"], follow=lambda e: e.kind != "exc",
                                      stop=lambda n: self._kills(n, var) or (n.id in self.acq and self.acq[n.id][0] == var and n.id != nid))
            live_nodes = [n for n in self.cfg.nodes if n.id in live and not self._kills(n, var)]
            leaks: dict[str, list[Node]] = {}
            if self.cfg.exit.id in live:
                leaks.setdefault("normal", []).append(self.cfg.exit)
            for n in live_nodes:
                if n is self.cfg.exit or n is self.cfg.exc_exit:
                    continue
                re_acq = n.id in self.acq and self.acq[n.id][0] == var and n.id != nid
                for k in kinds(real_sources(n)):
                    if re_acq and k == "Exception" and self.acq[n.id][1].startswith("start_tls"):
                        continue  # Exception out of start_tls: the backend closed the consumed stream (R5)
                    if escapes_without(self.cfg, n, lambda m: self._kills(m, var), k, feasible=lambda e: self._feasible(e, var)):
                        leaks.setdefault(k, []).append(n)
            for k, nodes in leaks.items():
                out.append((an, var, k, nodes))
        return out


def _r3(ctx: Context, tree: str, N: Names) -> None:
    rep = ctx.rep
    esc = ctx.escape
    # helpers that return an owned stream: non-interface functions of the tree annotated to return a network stream
    helpers = set()
    for f in N.functions():
        if f.cls is not None and f.cls.qual in esc.net_classes:
            continue
        rt = ctx.types.ann(f.module, f.node.returns)
        if rt[0] == "cls" and rt[1].name in ("AsyncNetworkStream", "NetworkStream"):
            helpers.add(f.qual)
    nacq = 0
    for f in N.functions():
        if f.cls is not None and f.cls.qual in esc.net_classes:
            continue
        own = Own(ctx, tree, N, f, helpers)
        if not own.acq:
            continue
        nacq += len(own.acq)
        res = own.analyse()
        seen_keys = set()
        for an, var, kind, nodes in res:
            region = try_context(ctx, f, nodes[0]) if nodes and nodes[0].ast is not None else "exit"
            key = fkey(tree, f, f"own:{own.acq[an.id][1].split(':')[0]}:{region}:{kind}")
            if key in seen_keys:
                continue
            seen_keys.add(key)
            rep.ob("C06.R3", key, False, where(f, nodes[0].ast if nodes and nodes[0].ast is not None else an.ast),
                   f"stream `{var}` acquired at line {an.lineno} ({own.acq[an.id][1].split(':')[0]}) is neither transferred nor closed when {kind} leaves {f.short} at "
                   f"{witness(nodes)}: the socket stays open (also after pool close, the connection never owned it)", witness(nodes))
        for nid, (var, kind) in own.acq.items():
            if not any(an.id == nid for an, *_ in res):
                rep.ob("C06.R3", fkey(tree, f, f"own:{kind.split(':')[0]}:line{0}:ok:{var}"), True, where(f, own.cfg.nodes[nid].ast),
                       f"stream `{var}` ({kind.split(':')[0]}) is transferred or closed on every path")
    rep.floor("C06.R3", f"stream acquisitions ({tree})", nacq, 5)


def _r6(ctx: Context, tree: str, N: Names, rule: str = "C06.R6") -> None:
    """The pool drops a connection that reports is_closed() WITHOUT closing it: the predicate must be true only
    after the connection's own close ran (state CLOSED is stored only next to the stream close, C01.R1 + R2)."""
    from ..norm import Sym, UNKNOWN, peval
    from .c01 import expanded_return

    rep = ctx.rep
    for mod, cn in (("http11", "AsyncHTTP11Connection"), ("http2", "AsyncHTTP2Connection")):
        c = N.cls(mod, cn)
        f = c.methods["is_closed"]
        e = expanded_return(ctx, f)
        rows = {}
        for state in [k for k in c.module.classes["HTTPConnectionState"].class_assigns]:
            for err in (False, True):
                for exhausted in (False, True):
                    env = {"self._state": Sym("HTTPConnectionState." + state), "self._connection_error": err, "self._used_all_stream_ids": exhausted,
                           "self._expire_at": None, "self._read_exception": None, "self._write_exception": None, "self._connection_terminated": None}
                    got = peval(e, env)
                    if got is UNKNOWN or bool(got) != (state == "CLOSED"):
                        rows[f"{state},error={err},ids_exhausted={exhausted}"] = str(got)
        rep.ob(rule, fkey(tree, f, "is_closed-means-closed"), not rows, where(f),
               "is_closed() is true exactly in state CLOSED (which is stored only by the close routine, next to the stream close)" if not rows else
               f"is_closed() is true in {sorted(rows)[:4]} although the close routine has not run: the pool removes such a connection WITHOUT closing it - its stream stays open, owned by nobody")
    for mod, cn in (("connection", "AsyncHTTPConnection"), ("socks_proxy", "AsyncSocks5Connection"), ("http_proxy", "AsyncTunnelHTTPConnection"), ("http_proxy", "AsyncForwardHTTPConnection")):
        c = N.cls(mod, cn)
        f = c.methods["is_closed"]
        rets = sorted(norm(r.value) for r in own_nodes(f.node) if isinstance(r, ast.Return) and r.value is not None)
        ok = rets in (["self._connection.is_closed()"], ["self._connect_failed", "self._connection.is_closed()"])
        if ok and len(rets) == 2:
            flag = [r for r in own_nodes(f.node) if isinstance(r, ast.Return) and norm(r.value) == "self._connect_failed"]
            ok = "None==self._connection" in guard_atoms(guards_of(flag[0])) or "self._connection==None" in guard_atoms(guards_of(flag[0]))
        rep.ob(rule, fkey(tree, f, "is_closed-delegates"), ok, where(f), f"{cn}.is_closed returns {rets}" + ("" if ok else " - must delegate to the inner connection (failed flag only while none exists)"))


def closed_store_paired(ctx: Context, rule: str, tree: str, N: Names) -> None:
    """Every store of the CLOSED state is followed on every normal path by the close of the network stream
    (a connection that *reports* closed is dropped by the pool without being closed, and no longer counted)."""
    from .c01 import const_name, state_stores

    rep = ctx.rep
    n = 0
    for mod, cn in (("http11", "AsyncHTTP11Connection"), ("http2", "AsyncHTTP2Connection")):
        c = N.cls(mod, cn)
        for f in c.methods.values():
            for st in state_stores(f):
                if not (isinstance(st, ast.Assign) and const_name(st.value) == "CLOSED"):
                    continue
                n += 1
                cfg = ctx.cfg(f)
                sn = cfg.nodes_for(st)
                closes = lambda x: node_calls(x, lambda call: norm(call.func) in ("self._network_stream.aclose", "self._network_stream.close"))
                reach = cfg.reachable([e.dst for e in sn[0].succ if e.kind != "exc"], follow=lambda e: e.kind != "exc", stop=closes) if sn else set()
                ok = bool(sn) and cfg.exit.id not in reach
                if not ok and sn:
                    # the other sound order: the close of the stream dominates the store (closed first, then reported closed)
                    ok = any(closes(x) and cfg.dominates(x, sn[0]) for x in cfg.nodes)
                rep.ob(rule, fkey(tree, f, "closed-store-closes-stream"), ok, where(f, st),
                       "the CLOSED state is stored together with the close of the network stream" if ok else
                       f"{f.short} stores state CLOSED without closing the network stream: the pool forgets the connection (no longer counted against max_connections, never closed) "
                       "while its stream - possibly with other requests still in flight - stays open")
    rep.floor(rule, f"CLOSED state stores ({tree})", n, 2)


def _r4(ctx: Context, tree: str, N: Names) -> None:
    rep = ctx.rep
    f = N.func("http_proxy", "AsyncTunnelHTTPConnection.handle_async_request")
    raises = [r for r in own_nodes(f.node) if isinstance(r, ast.Raise) and r.exc is not None and "ProxyError" in norm(r.exc)]
    rep.floor("C06.R4", f"CONNECT refusal raise ({tree})", len(raises), 1)
    cfg = ctx.cfg(f)
    for r in raises:
        rn = cfg.nodes_for(r)[0]
        closers = [n for n in cfg.nodes if node_calls(n, lambda c: norm(c.func) in ("self._connection.aclose", "self._connection.close")) and cfg.dominates(n, rn)]
        rep.ob("C06.R4", fkey(tree, f, "refusal-closes"), bool(closers), where(f, r),
               "the refused proxy connection is closed before ProxyError is raised" if closers else "ProxyError is raised without closing the proxy connection")


def _r5(ctx: Context) -> None:
    rep = ctx.rep
    n = 0
    for modname in ("httpcore._backends.anyio", "httpcore._backends.trio", "httpcore._backends.sync"):
        for c in ctx.prog.module(modname).classes.values():
            f = c.methods.get("start_tls")
            if f is None or any(isinstance(s, ast.Raise) and "NotImplementedError" in ast.unparse(s) for s in f.node.body):
                continue
            n += 1
            trys = [t for t in own_nodes(f.node) if isinstance(t, ast.Try)]
            ok = False
            for t in trys:
                body_blocks = any(isinstance(x, ast.Await) or (isinstance(x, ast.Call) and (chain(x.func) or [""])[-1] in ("wrap_socket", "TLSinTLSStream", "do_handshake")) for s in t.body for x in ast.walk(s))
                for h in t.handlers:
                    types_ = ctx.escape.handler_types(f.module, h)
                    closes = any(isinstance(x, ast.Call) and norm(x.func) in ("self.aclose", "self.close") for x in ast.walk(h))
                    reraises = any(isinstance(x, ast.Raise) for x in h.body)
                    if body_blocks and closes and reraises and any(ty in ("Exception", "BaseException") for ty in types_):
                        ok = True
            rep.ob("C06.R5", fkey("backend", f, "closes-on-tls-failure"), ok, where(f),
                   "handshake is enclosed by a handler that closes the stream and re-raises" if ok else "a failed TLS handshake leaves the underlying socket open")
            # every construct of start_tls that can raise an Exception lies INSIDE the body of that closing try: in particular the
            # timeout scope, whose TimeoutError is raised when the scope EXITS (inside it the deadline is a cancellation, which
            # `except Exception` does not see) - a scope around the try turns a stalled handshake into an unclosed socket
            closing = []
            for t in trys:
                for h in t.handlers:
                    if any(isinstance(x, ast.Call) and norm(x.func) in ("self.aclose", "self.close") for x in ast.walk(h)):
                        closing.append(t)
            outside = []
            for x in own_nodes(f.node):
                raising = None
                if isinstance(x, (ast.With, ast.AsyncWith)) and any(isinstance(it.context_expr, ast.Call) and (chain(it.context_expr.func) or [""])[-1] in ("fail_after", "move_on_after") for it in x.items):
                    raising = x
                elif isinstance(x, ast.Await):
                    raising = x
                elif isinstance(x, ast.Call) and (chain(x.func) or [""])[-1] in ("wrap_socket", "TLSinTLSStream", "do_handshake", "settimeout", "wrap_bio"):
                    raising = x
                if raising is None:
                    continue
                anc = []
                q = parent(raising)
                prev = raising
                inside = False
                while q is not None and q is not f.node:
                    if isinstance(q, ast.Try) and q in closing and any(prev is s_ for s_ in q.body):
                        inside = True
                    if isinstance(q, ast.ExceptHandler) and parent(q) in closing:
                        inside = True   # the close call itself
                    prev = q
                    q = parent(q)
                if not inside:
                    outside.append(raising)
            rep.ob("C06.R5", fkey("backend", f, "all-failures-inside-closing-try"), bool(closing) and not outside, where(f, outside[0] if outside else None),
                   "every raising construct of start_tls (handshake, timeout scope) lies inside the try whose handler closes the stream" if closing and not outside else
                   f"`{ast.unparse(outside[0]).splitlines()[0][:70] if outside else 'start_tls'}` lies outside the try whose handler closes the stream: its failure (for a timeout scope: the TimeoutError raised at scope exit) "
                   "leaves start_tls as an Exception without the socket being closed - and the caller relies on the backend having closed it")
    rep.floor("C06.R5", "backend start_tls implementations", n, 3)

_core_run = run


def run(ctx: Context) -> None:  # noqa: F811
    _core_run(ctx)
    from . import backend

    ctx.rep.rule('C06.R7', "each real backend's close()/aclose() reaches the release of its socket on every path (nothing that can raise before it outside a finally, no condition)")
    backend.close_releases(ctx, 'C06.R7')
    ctx.rep.explanation = (ctx.rep.explanation or '') + ' R7 (transport layer): the backend close()/aclose() reaches the OS release unconditionally on every path.'
    from . import support

    ctx.rep.rule('C06.R8', 'leaving `with pool:` closes the pool unconditionally; httpcore.request()/stream() run inside such a scope')
    support.pool_scope_closes(ctx, 'C06.R8')



_core_run_r9 = run


def run(ctx: Context) -> None:  # noqa: F811
    _core_run_r9(ctx)
    if ctx.rep._borrow is not None:
        return          # already running as a lender: no chains
    from . import c04

    with ctx.rep.borrow({"C04.R4": ("C06.R9", "a connection is marked failed only when its establishment has finally failed: one that is flagged while it is still connecting / retrying looks "
                                              "closed, the pool forgets it without closing anything, and the stream it opens afterwards is owned by nobody and never closed:")}):
        c04.run(ctx)



_core_run_r10 = run


def run(ctx: Context) -> None:  # noqa: F811
    _core_run_r10(ctx)
    if ctx.rep._borrow is not None:
        return
    from . import support

    ctx.rep.rule("C06.R10", "the assignment pass cannot fail between taking connections off the pool list and returning them for closing: the one partial operation "
                            "it evaluates (URL.origin: scheme -> default port table) is defined for every scheme the pool's gate admits")
    support.scheme_gate_within_origin_table(ctx, "C06.R10", "connections already removed from the pool list are neither closed nor reachable from pool close - their streams stay open")
