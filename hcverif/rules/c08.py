"""C08 - the synchronous pool is thread-safe (lock discipline on the sync tree)."""
from __future__ import annotations

import ast

from .. import boundary as B
from ..context import Context
from ..guards import enclosing_withs
from ..load import AnalysisError, FuncInfo, Names, chain, norm, own_nodes, parent
from .c01 import const_name, state_stores
from .c07 import locks_for, no_blocking_under_pool_lock, pool_lock_regions, wait_for_cycles
from .common import calls_named, fkey, where

SNAPSHOT_READERS = {"connections": "atomic list() snapshot of the connection list (documented read-only view)"}


def run(ctx: Context) -> None:
    rep = ctx.rep
    rep.explanation = (
        "All-interleavings correctness is not decided; the lock discipline that it needs is. On the sync tree: R1 lockset - every read or "
        "write of the pool's connection list and request queue holds the pool lock, lexically or because every caller holds it (must-hold "
        "at entry = intersection over all call sites), with the named snapshot property as the only exception; R2 ACTIVE/IDLE writes of the "
        "connection state happen under the state lock (constructor and close() excepted, as the code documents); R3 no path from inside a "
        "pool-lock region re-acquires the non-reentrant pool lock; R4 no blocking operation under the pool lock; R5 the lock-order / "
        "wait-for graph is acyclic; R6 lockset of the shared HTTP/2 protocol object: all mutating calls on it must share one lock, in "
        "particular the check-then-act region from the flow-window read to send_data; R7 the per-request assignment is stored before the "
        "event is set."
    )
    for r, t in (("C08.R1", "pool fields accessed only under the pool lock"), ("C08.R2", "state transitions under the state lock"),
                 ("C08.R3", "no re-entry of the non-reentrant pool lock"), ("C08.R4", "no blocking under the pool lock"),
                 ("C08.R5", "lock-order / wait-for graph acyclic"), ("C08.R6", "mutating calls on the shared h2 state machine hold a common lock"),
                 ("C08.R7", "store-before-set on the assignment event"),
                 ("C08.R8", "h2 drain+write and read+feed are single critical sections (wire order = encoding order)")):
        rep.rule(r, t)
    tree = "sync"
    N = ctx.names(tree)
    L = locks_for(ctx, tree)
    pool = N.cls("connection_pool", "AsyncConnectionPool")
    lock_name = f"{pool.name}._optional_thread_lock"
    # R1
    n = 0
    for f in N.functions():
        if f.name == "__init__":
            continue
        for node in own_nodes(f.node):
            if isinstance(node, ast.Attribute) and node.attr in ("_connections", "_requests"):
                owner = ctx.types.expr_type(node.value, f)
                if not (owner[0] == "cls" and (owner[1] is pool or pool in owner[1].mro())):
                    continue
                n += 1
                held = L.must_hold(node, f)
                ok = lock_name in held
                why = f"`{ast.unparse(node)}` in {f.short} holds {sorted(held)}"
                if not ok and f.name in SNAPSHOT_READERS and isinstance(node.ctx, ast.Load) and norm(parent(node)) == f"list({norm(node)})":
                    ok = True
                    why += f" - accepted: {SNAPSHOT_READERS[f.name]}"
                rep.ob("C08.R1", fkey(tree, f, f"{'w' if not isinstance(node.ctx, ast.Load) else 'r'}:{norm(node)}:{_occ(node, f)}"), ok, where(f, node),
                       why if ok else why + f" - the pool lock `{lock_name}` is not held: another thread can mutate the list concurrently")
    rep.floor("C08.R1", "accesses to the pool's connection list / request queue (sync)", n, 12)
    # R2
    for mod, cn in (("http11", "AsyncHTTP11Connection"), ("http2", "AsyncHTTP2Connection")):
        c = N.cls(mod, cn)
        for f in c.methods.values():
            if f.name in ("__init__", N.t("aclose")):
                continue
            for st in state_stores(f):
                held = L.must_hold(st, f)
                rep.ob("C08.R2", fkey(tree, f, norm(st)), f"{c.name}._state_lock" in held, where(f, st), f"`{ast.unparse(st)}` holds {sorted(held)}")
    # R3 re-entry
    regions = pool_lock_regions(ctx, N)
    takers = {f.qual for f, w in regions}
    for i, (f, w) in enumerate(regions):
        inner = []
        for s in ctx.callgraph.sites_in(w, f):
            if any(s.node is it for it in w.items):
                continue
            reach = ctx.callgraph.reachable(s.repo_targets())
            hit = [q for q in reach if q in takers]
            if hit:
                inner.append(f"line {s.lineno}: {s.text()} -> {' -> '.join(x.split(':')[1] for x in reach[hit[0]])}")
        nested = [x for x in ast.walk(w) if x is not w and isinstance(x, ast.With) and any(L.lock_id(it.context_expr, f) and L.lock_id(it.context_expr, f)[1] == "threadlock" for it in x.items)]
        rep.ob("C08.R3", fkey(tree, f, f"region-{sum(1 for g, _ in regions[:i] if g is f)}"), not inner and not nested, where(f, w),
               "no path from inside the region re-acquires the pool lock" if not inner and not nested else f"re-entry of the non-reentrant pool lock (self-deadlock): {inner or 'nested with'}")
    no_blocking_under_pool_lock(ctx, "C08.R4", tree, N)
    wait_for_cycles(ctx, "C08.R5", tree, N)
    # R6 lockset of the shared protocol object
    h2c = N.cls("http2", "AsyncHTTP2Connection")
    locksets: dict[str, set[str]] = {}
    sites = 0
    for f in h2c.methods.values():
        if f.name == "__init__":
            continue
        for c in own_nodes(f.node):
            if isinstance(c, ast.Call) and isinstance(c.func, ast.Attribute) and norm(c.func.value) == "self._h2_state" and c.func.attr in B.H2_MUTATORS | {"local_flow_control_window"}:
                sites += 1
                held = {h for h in L.must_hold(c, f)}
                cur = locksets.get(c.func.attr)
                locksets[c.func.attr] = held if cur is None else (cur & held)
    rep.floor("C08.R6", "calls on the shared h2 state machine (sync)", sites, 10)
    common = set.intersection(*locksets.values()) if locksets else set()
    rep.ob("C08.R6", f"{tree}|{h2c.name}|_h2_state|{'empty lockset' if not common else 'common lock'}", bool(common), h2c.where,
           f"all calls on the shared h2 state machine hold {sorted(common)}" if common else
           "no lock is common to the calls on the shared h2 state machine: " + ", ".join(f"{k}:{{{','.join(sorted(x.split('.')[-1] for x in v))}}}" for k, v in sorted(locksets.items()))
           + " - two threads uploading on one connection race between local_flow_control_window() and send_data() on the shared connection window",
           {k: sorted(v) for k, v in locksets.items()})
    # R8 wire order = encoding order: draining h2's output buffer and writing it are one critical section; so are read + feed
    wo = h2c.methods["_write_outgoing_data"]
    drains = [c for c in own_nodes(wo.node) if isinstance(c, ast.Call) and norm(c.func) == "self._h2_state.data_to_send"]
    writes = [c for c in own_nodes(wo.node) if isinstance(c, ast.Call) and norm(c.func) == "self._network_stream.write"]
    ok = bool(drains) and bool(writes)
    detail = "drain and write located"
    if ok:
        regions_d = [id(w) for w, it in enclosing_withs(drains[0]) if norm(it.context_expr) == "self._write_lock"]
        regions_w = [id(w) for w, it in enclosing_withs(writes[0]) if norm(it.context_expr) == "self._write_lock"]
        ok = bool(regions_d) and regions_d == regions_w
        detail = ("h2's output buffer is drained and written inside one `_write_lock` section" if ok else
                  "`data_to_send()` and the socket write are not in the same `_write_lock` section: a thread pre-empted between draining and locking writes its (HPACK / stream-id ordered) "
                  "frames after a later thread's frames - the peer sees a corrupted header-compression state and kills the connection")
    rep.ob("C08.R8", fkey(tree, wo, "drain-and-write-atomic"), ok, where(wo, drains[0] if drains else None), detail)
    ri = h2c.methods["_read_incoming_data"]
    rd = [c for c in own_nodes(ri.node) if isinstance(c, ast.Call) and norm(c.func) == "self._network_stream.read"]
    fd = [c for c in own_nodes(ri.node) if isinstance(c, ast.Call) and norm(c.func) == "self._h2_state.receive_data"]
    lk = f"{h2c.name}._read_lock"
    ok = bool(rd) and bool(fd) and lk in L.must_hold(rd[0], ri) and lk in L.must_hold(fd[0], ri)
    rep.ob("C08.R8", fkey(tree, ri, "read-and-feed-atomic"), ok, where(ri), "socket read and receive_data happen under the read lock (bytes are fed in arrival order)" if ok else
           "socket read and receive_data are not both under the read lock: two threads can feed the parser out of order")
    # R7
    a = N.func("connection_pool", "AsyncPoolRequest.assign_to_connection")
    cfg = ctx.cfg(a)
    store = [x for x in cfg.nodes if x.kind == "stmt" and isinstance(x.ast, ast.Assign) and norm(x.ast.targets[0]) == "self.connection"]
    setn = [x for x in cfg.nodes if x.ast is not None and x.kind == "stmt" and "self._connection_acquired.set()" in norm(x.ast)]
    rep.ob("C08.R7", fkey(tree, a, "store-before-set"), bool(store) and bool(setn) and all(cfg.dominates(store[0], s) and s is not store[0] for s in setn), where(a),
           "assignment stored before the event is set")
    rep.assume("threading.Lock / Semaphore / Event behave as documented; list.append/remove are atomic under the GIL only in combination with the pool lock")


def _occ(node: ast.AST, f: FuncInfo) -> int:
    same = [x for x in own_nodes(f.node) if isinstance(x, ast.Attribute) and norm(x) == norm(node)]
    same.sort(key=lambda x: (x.lineno, x.col_offset))
    return same.index(node) if node in same else 0

_core_run = run


def run(ctx: Context) -> None:  # noqa: F811
    _core_run(ctx)
    from . import backend

    ctx.rep.rule('C08.R9', 'Lock / Event / Semaphore are guard-free delegations to ONE underlying primitive created once (thread flavour: in the constructor; async flavour: in the synchronous setup)')
    backend.primitives(ctx, 'C08.R9')
    ctx.rep.explanation = (ctx.rep.explanation or '') + ' R9 (primitives): every lock/event/semaphore operation delegates unconditionally to one underlying primitive that is created exactly once - no check-then-create window in which a set()/release() can miss a waiter.'
    from . import support

    ctx.rep.rule('C08.R10', 'lazy establishment is a test-and-set under the establishment lock (the `is None` / `not connected` test is evaluated inside the lock region that installs the connection)')
    support.establish_test_and_set(ctx, 'C08.R10', ('sync',))
