"""C08 - the synchronous pool is thread-safe (lock discipline on the sync tree)."""
from __future__ import annotations

import ast

from .. import boundary as B
from ..context import Context
from ..guards import enclosing_withs
from ..load import AnalysisError, FuncInfo, Names, chain, norm, own_nodes, parent
from .c01 import const_name, state_stores
from .c07 import locks_for, no_blocking_under_pool_lock, pool_lock_regions, wait_for_cycles
from .common import calls_named, fkey, where

SNAPSHOT_READERS = {"connections": "atomic list() snapshot of the connection list (documented read-only view)"}


def run(ctx: Context) -> None:
    rep = ctx.rep
    rep.explanation = (
        "All-interleavings correctness is not decided; the lock discipline that it needs is. On the sync tree: R1 lockset - every read or "
        "write of the pool's connection list and request queue holds the pool lock, lexically or because every caller holds it (must-hold "
        "at entry = intersection over all call sites), with the named snapshot property as the only exception; R2 ACTIVE/IDLE writes of the "
        "connection state happen under the state lock (constructor and close() excepted, as the code documents); R3 no path from inside a "
        "pool-lock region re-acquires the non-reentrant pool lock; R4 no blocking operation under the pool lock; R5 the lock-order / "
        "wait-for graph is acyclic; R6 lockset of the shared HTTP/2 protocol object: all mutating calls on it must share one lock, in "
        "particular the check-then-act region from the flow-window read to send_data; R7 the per-request assignment is stored before the "
        "event is set."
    )
    for r, t in (("C08.R1", "pool fields accessed only under the pool lock"), ("C08.R2", "state transitions under the state lock"),
                 ("C08.R3", "no re-entry of the non-reentrant pool lock"), ("C08.R4", "no blocking under the pool lock"),
                 ("C08.R5", "lock-order / wait-for graph acyclic"), ("C08.R6", "mutating calls on the shared h2 state machine hold a common lock"),
                 ("C08.R7", "store-before-set on the assignment event"),
                 ("C08.R8", "h2 drain+write and read+feed are single critical sections (wire order = encoding order)")):
        rep.rule(r, t)
    tree = "sync"
    N = ctx.names(tree)
    L = locks_for(ctx, tree)
    pool = N.cls("connection_pool", "AsyncConnectionPool")
    lock_name = f"{pool.name}._optional_thread_lock"
    # R1
    n = 0
    for f in N.functions():
        if f.name == "__init__":
            continue
        for node in own_nodes(f.node):
            if isinstance(node, ast.Attribute) and node.attr in ("_connections", "_requests"):
                owner = ctx.types.expr_type(node.value, f)
                if not (owner[0] == "cls" and (owner[1] is pool or pool in owner[1].mro())):
                    continue
                n += 1
                held = L.must_hold(node, f)
                ok = lock_name in held
                why = f"`{ast.unparse(node)}` in {f.short} holds {sorted(held)}"
                if not ok and f.name in SNAPSHOT_READERS and isinstance(node.ctx, ast.Load) and norm(parent(node)) == f"list({norm(node)})":
                    ok = True
                    why += f" - accepted: {SNAPSHOT_READERS[f.name]}"
                rep.ob("C08.R1", fkey(tree, f, f"{'w' if not isinstance(node.ctx, ast.Load) else 'r'}:{norm(node)}:{_occ(node, f)}"), ok, where(f, node),
                       why if ok else why + f" - the pool lock `{lock_name}` is not held: another thread can mutate the list concurrently")
    rep.floor("C08.R1", "accesses to the pool's connection list / request queue (sync)", n, 12)
    # R2
    for mod, cn in (("http11", "AsyncHTTP11Connection"), ("http2", "AsyncHTTP2Connection")):
        c = N.cls(mod, cn)
        for f in c.methods.values():
            if f.name in ("__init__", N.t("aclose")):
                continue
            for st in state_stores(f):
                held = L.must_hold(st, f)
                rep.ob("C08.R2", fkey(tree, f, norm(st)), f"{c.name}._state_lock" in held, where(f, st), f"`{ast.unparse(st)}` holds {sorted(held)}")
    # R3 re-entry
    regions = pool_lock_regions(ctx, N)
    takers = {f.qual for f, w in regions}
    for i, (f, w) in enumerate(regions):
        inner = []
        for s in ctx.callgraph.sites_in(w, f):
            if any(s.node is it for it in w.items):
                continue
            reach = ctx.callgraph.reachable(s.repo_targets())
            hit = [q for q in reach if q in takers]
            if hit:
                inner.append(f"line {s.lineno}: {s.text()} -> {' -> '.join(x.split(':')[1] for x in reach[hit[0]])}")
        nested = [x for x in ast.walk(w) if x is not w and isinstance(x, ast.With) and any(L.lock_id(it.context_expr, f) and L.lock_id(it.context_expr, f)[1] == "threadlock" for it in x.items)]
        rep.ob("C08.R3", fkey(tree, f, f"region-{sum(1 for g, _ in regions[:i] if g is f)}"), not inner and not nested, where(f, w),
               "no path from inside the region re-acquires the pool lock" if not inner and not nested else f"re-entry of the non-reentrant pool lock (self-deadlock): {inner or 'nested with'}")
    no_blocking_under_pool_lock(ctx, "C08.R4", tree, N)
    wait_for_cycles(ctx, "C08.R5", tree, N)
    # R6 lockset of the shared protocol object
    h2c = N.cls("http2", "AsyncHTTP2Connection")
    locksets: dict[str, set[str]] = {}
    sites = 0
    for f in h2c.methods.values():
        if f.name == "__init__":
            continue
        for c in own_nodes(f.node):
            if isinstance(c, ast.Call) and isinstance(c.func, ast.Attribute) and norm(c.func.value) == "self._h2_state" and c.func.attr in B.H2_MUTATORS | {"local_flow_control_window"}:
                sites += 1
                held = {h for h in L.must_hold(c, f)}
                cur = locksets.get(c.func.attr)
                locksets[c.func.attr] = held if cur is None else (cur & held)
    rep.floor("C08.R6", "calls on the shared h2 state machine (sync)", sites, 10)
    common = set.intersection(*locksets.values()) if locksets else set()
    rep.ob("C08.R6", f"{tree}|{h2c.name}|_h2_state|{'empty lockset' if not common else 'common lock'}", bool(common), h2c.where,
           f"all calls on the shared h2 state machine hold {sorted(common)}" if common else
           "no lock is common to the calls on the shared h2 state machine: " + ", ".join(f"{k}:{{{','.join(sorted(x.split('.')[-1] for x in v))}}}" for k, v in sorted(locksets.items()))
           + " - two threads uploading on one connection race between local_flow_control_window() and send_data() on the shared connection window",
           {k: sorted(v) for k, v in locksets.items()})
    # R8 wire order = encoding order: draining h2's output buffer and writing it are one critical section; so are read + feed
    wo = h2c.methods["_write_outgoing_data"]
    drains = [c for c in own_nodes(wo.node) if isinstance(c, ast.Call) and norm(c.func) == "self._h2_state.data_to_send"]
    writes = [c for c in own_nodes(wo.node) if isinstance(c, ast.Call) and norm(c.func) == "self._network_stream.write"]
    ok = bool(drains) and bool(writes)
    detail = "drain and write located"
    if ok:
        regions_d = [id(w) for w, it in enclosing_withs(drains[0]) if norm(it.context_expr) == "self._write_lock"]
        regions_w = [id(w) for w, it in enclosing_withs(writes[0]) if norm(it.context_expr) == "self._write_lock"]
        ok = bool(regions_d) and regions_d == regions_w
        detail = ("h2's output buffer is drained and written inside one `_write_lock` section" if ok else
                  "`data_to_send()` and the socket write are not in the same `_write_lock` section: a thread pre-empted between draining and locking writes its (HPACK / stream-id ordered) "
                  "frames after a later thread's frames - the peer sees a corrupted header-compression state and kills the connection")
    rep.ob("C08.R8", fkey(tree, wo, "drain-and-write-atomic"), ok, where(wo, drains[0] if drains else None), detail)
    ri = h2c.methods["_read_incoming_data"]
    rd = [c for c in own_nodes(ri.node) if isinstance(c, ast.Call) and norm(c.func) == "self._network_stream.read"]
    fd = [c for c in own_nodes(ri.node) if isinstance(c, ast.Call) and norm(c.func) == "self._h2_state.receive_data"]
    lk = f"{h2c.name}._read_lock"
    ok = bool(rd) and bool(fd) and lk in L.must_hold(rd[0], ri) and lk in L.must_hold(fd[0], ri)
    rep.ob("C08.R8", fkey(tree, ri, "read-and-feed-atomic"), ok, where(ri), "socket read and receive_data happen under the read lock (bytes are fed in arrival order)" if ok else
           "socket read and receive_data are not both under the read lock: two threads can feed the parser out of order")
    # R7
    a = N.func("connection_pool", "AsyncPoolRequest.assign_to_connection")
    cfg = ctx.cfg(a)
    store = [x for x in cfg.nodes if x.kind == "stmt" and isinstance(x.ast, ast.Assign) and norm(x.ast.targets[0]) == "self.connection"]
    setn = [x for x in cfg.nodes if x.ast is not None and x.kind == "stmt" and "self._connection_acquired.set()" in norm(x.ast)]
    rep.ob("C08.R7", fkey(tree, a, "store-before-set"), bool(store) and bool(setn) and all(cfg.dominates(store[0], s) and s is not store[0] for s in setn), where(a),
           "assignment stored before the event is set")
    rep.assume("threading.Lock / Semaphore / Event behave as documented; list.append/remove are atomic under the GIL only in combination with the pool lock")


def _occ(node: ast.AST, f: FuncInfo) -> int:
    same = [x for x in own_nodes(f.node) if isinstance(x, ast.Attribute) and norm(x) == norm(node)]
    same.sort(key=lambda x: (x.lineno, x.col_offset))
    return same.index(node) if node in same else 0

_core_run = run


def run(ctx: Context) -> None:  # noqa: F811
    _core_run(ctx)
    from . import backend

    ctx.rep.rule('C08.R9', 'Lock / Event / Semaphore are guard-free delegations to ONE underlying primitive created once (thread flavour: in the constructor; async flavour: in the synchronous setup)')
    backend.primitives(ctx, 'C08.R9')
    ctx.rep.explanation = (ctx.rep.explanation or '') + ' R9 (primitives): every lock/event/semaphore operation delegates unconditionally to one underlying primitive that is created exactly once - no check-then-create window in which a set()/release() can miss a waiter.'
    from . import support

    ctx.rep.rule('C08.R10', 'lazy establishment is a test-and-set under the establishment lock (the `is None` / `not connected` test is evaluated inside the lock region that installs the connection)')
    support.establish_test_and_set(ctx, 'C08.R10', ('sync',))


# ---- R11: lockset census (Eraser-style) over every instance field of the classes shared between threads -------------
SHARED_CLASSES = (("connection_pool", "AsyncConnectionPool"), ("connection_pool", "AsyncPoolRequest"), ("connection_pool", "PoolByteStream"),
                  ("connection", "AsyncHTTPConnection"), ("http11", "AsyncHTTP11Connection"), ("http2", "AsyncHTTP2Connection"),
                  ("http_proxy", "AsyncTunnelHTTPConnection"), ("http_proxy", "AsyncForwardHTTPConnection"), ("socks_proxy", "AsyncSocks5Connection"),
                  ("http2", "HTTP2ConnectionByteStream"), ("http11", "HTTP11ConnectionByteStream"))
CONTAINER_MUTATORS = ("append", "remove", "pop", "clear", "update", "extend", "insert", "setdefault", "add", "discard", "popitem")
# fields whose writes share no lock, confirmed benign by reading - one named field, one reason
BENIGN_FIELDS = {
    ("AsyncPoolRequest", "_connection_acquired"): "rebound only by the owning thread (clear_connection); the waiter re-checks `self.connection` before it waits (C07.R2), so a set() on the old event is never lost",
    ("PoolByteStream", "_closed"): "a response stream belongs to one caller: close() is not run by two threads at once",
    ("HTTP2ConnectionByteStream", "_closed"): "a response stream belongs to one caller: close() is not run by two threads at once",
    ("HTTP11ConnectionByteStream", "_closed"): "a response stream belongs to one caller: close() is not run by two threads at once",
    ("AsyncHTTPConnection", "_connect_failed"): "monotonic flag (False -> True) written inside the establishment region; the readers are advisory predicates",
    ("AsyncHTTP11Connection", "_state"): "every transition holds the state lock except the terminal CLOSED store of the lock-free close routine (stated in the source; C08.R2, C01.R10)",
    ("AsyncHTTP2Connection", "_state"): "every transition holds the state lock except the terminal CLOSED store of the lock-free close routine (stated in the source; C08.R2, C01.R10)",
    ("AsyncHTTP2Connection", "_connection_error"): "monotonic flag (False -> True), set under either I/O lock; the reader is an advisory predicate",
    ("AsyncHTTP2Connection", "_used_all_stream_ids"): "monotonic flag (False -> True); the readers are advisory predicates",
    ("AsyncHTTP2Connection", "_max_streams"): "written under the init lock before the connection preface is sent (no SETTINGS can be processed earlier), afterwards only by the socket reader under the read lock",
    ("AsyncHTTP2Connection", "_events"): "each entry is created and deleted only by the thread that owns that stream; the socket reader routes an event with ONE atomic get() (fix 7a268ce) - the census still rejects any check-then-act on the table",
    ("AsyncHTTP2Connection", "_request_count"): "informational counter (info() / repr only): a lost update affects no guarantee",
}


def _lockset_census(ctx: Context) -> None:
    rep = ctx.rep
    tree = "sync"
    N = ctx.names(tree)
    L = locks_for(ctx, tree)
    inv = {N.t(cn): cn for _, cn in SHARED_CLASSES}
    nfields = 0
    for mod, cn in SHARED_CLASSES:
        c = N.cls(mod, cn)
        acc: dict[str, list[tuple[bool, frozenset, FuncInfo, ast.AST, str]]] = {}
        for f in c.methods.values():
            if f.name == "__init__":
                continue
            for n in own_nodes(f.node):
                if not (isinstance(n, ast.Attribute) and isinstance(n.value, ast.Name) and n.value.id == "self" and n.attr.startswith("_")):
                    continue
                p = parent(n)
                if isinstance(p, ast.Call) and p.func is n:
                    continue   # a method call on self, not a field
                kind = "r"
                w = not isinstance(n.ctx, ast.Load)
                if isinstance(p, ast.Attribute) and isinstance(parent(p), ast.Call) and parent(p).func is p and p.attr in CONTAINER_MUTATORS:
                    w, kind = True, "mutate"
                if isinstance(p, ast.Subscript) and p.value is n:
                    kind = "subscript"
                    if not isinstance(p.ctx, ast.Load):
                        w = True
                if isinstance(p, ast.AugAssign) and p.target is n:
                    w, kind = True, "rmw"
                if isinstance(p, ast.Compare) and any(isinstance(o, (ast.In, ast.NotIn)) for o in p.ops) and n in p.comparators:
                    kind = "member-test"
                acc.setdefault(n.attr, []).append((w, frozenset(L.must_hold(n, f)), f, n, kind))
        for fld, lst in sorted(acc.items()):
            writes = [x for x in lst if x[0]]
            if not writes:
                continue
            nfields += 1
            common = frozenset.intersection(*[x[1] for x in lst])
            wcommon = frozenset.intersection(*[x[1] for x in writes])
            key = f"sync|{c.name}|lockset:{fld}"
            wh = where(writes[0][2], writes[0][3])
            if common:
                rep.ob("C08.R11", key, True, wh, f"every access to {c.name}.{fld} holds {sorted(x.split('.')[-1] for x in common)}")
                continue
            # check-then-act on a container: a membership test and a subscript of the same field in one function, not under a lock every writer holds
            cta = []
            for f in {x[2] for x in lst}:
                tests = [x for x in lst if x[2] is f and x[4] == "member-test"]
                subs = [x for x in lst if x[2] is f and x[4] in ("subscript", "mutate")]
                for t in tests:
                    for s in subs:
                        if s[3].lineno >= t[3].lineno and not (t[1] & s[1] & wcommon):
                            cta.append((f, t[3], s[3]))
            if wcommon and not cta and all(x[4] in ("r", "subscript") or x[0] for x in lst):
                unprot = [x for x in lst if not (x[1] & wcommon)]
                # double-checked locking: an UNLOCKED read of the field that decides control flow (an `if` test) is only sound if,
                # in every critical section that writes the field, the write comes after every other field initialisation of
                # that section (publication last) - otherwise the reader can skip the lock and use fields that do not exist yet
                gates = []
                for x in unprot:
                    q = parent(x[3])
                    while q is not None and not isinstance(q, (ast.stmt,)):
                        q = parent(q)
                    if isinstance(q, ast.If) and any(y is x[3] for y in ast.walk(q.test)) and x[2].name not in ("is_available", "has_expired", "is_idle", "is_closed", "info", "__repr__"):
                        gates.append(x)
                early = []
                if gates:
                    for wx in writes:
                        wst = parent(wx[3])
                        while wst is not None and not isinstance(wst, ast.stmt):
                            wst = parent(wst)
                        blk = parent(wst)
                        sibs = next((lst_ for fld_ in ("body", "orelse", "finalbody") for lst_ in [getattr(blk, fld_, None)] if isinstance(lst_, list) and any(z is wst for z in lst_)), []) \
                            if blk is not None else []
                        if any(z is wst for z in sibs):
                            later = [y for s_ in sibs[next(k_ for k_, z in enumerate(sibs) if z is wst) + 1:] for y in ast.walk(s_)
                                     if isinstance(y, ast.Attribute) and isinstance(y.value, ast.Name) and y.value.id == "self" and not isinstance(y.ctx, ast.Load) and y.attr != fld
                                     and not isinstance(parent(y), ast.AugAssign)]        # an update of a field that already exists initialises nothing
                            if later:
                                early.append((wx, later[0]))
                if gates and early:
                    g0, (w0, l0) = gates[0], early[0]
                    rep.ob("C08.R11", key, False, where(g0[2], g0[3]),
                           f"{c.name}.{fld} is tested WITHOUT the lock in {g0[2].name} (line {g0[3].lineno}) to skip the critical section, but {w0[2].name} stores it (line {w0[3].lineno}) "
                           f"before `self.{l0.attr}` is initialised (line {l0.lineno}): a thread that sees the flag in that window skips the set-up and uses a field that does not exist yet")
                    continue
                rep.ob("C08.R11", key, True, wh, f"every write of {c.name}.{fld} holds {sorted(x.split('.')[-1] for x in wcommon)}; the {len(unprot)} unlocked accesses are plain reads of one reference "
                       "(atomic under the interpreter lock) feeding advisory predicates / snapshots")
                continue
            why = BENIGN_FIELDS.get((inv.get(c.name, c.name), fld))
            if why and not cta:
                rep.ob("C08.R11", key, True, wh, f"{c.name}.{fld}: writes share no lock - accepted: {why}")
                continue
            sites = "; ".join(f"{'W' if x[0] else 'r'} {x[2].name}:{x[3].lineno} [{','.join(sorted(h.split('.')[-1] for h in x[1])) or 'no lock'}]" for x in lst[:10])
            if cta:
                f0, t0, s0 = cta[0]
                detail = (f"{c.name}.{fld}: `{ast.unparse(parent(t0))}` (line {t0.lineno}) and the access at line {s0.lineno} of {f0.name} form a check-then-act that is not atomic against the "
                          f"unlocked writers of the table ({sites}): a thread switch in between lets the owner of that entry delete it - the access then raises KeyError in THIS thread, "
                          "which is serving a different, healthy request")
            else:
                detail = f"{c.name}.{fld} is written without a common lock and is not a field confirmed benign: {sites}"
            rep.ob("C08.R11", key, False, wh, detail)
    rep.floor("C08.R11", "written instance fields of thread-shared classes (sync)", nfields, 20)
    # ---- R12: no unlocked check-then-act on a lock-managed field.  A field that some routine writes under a lock is read in the
    #      test of an `if` / `while` WITHOUT that lock only by the advisory predicates; anywhere else the decision can be stale by
    #      the time its branch acts (another thread has taken the connection, the branch closes it under that thread).
    PREDICATES = ("is_available", "has_expired", "is_idle", "is_closed", "info", "__repr__", "can_handle_request")
    ngate = 0
    for mod, cn in SHARED_CLASSES:
        c = N.cls(mod, cn)
        locked_writes: dict[str, set[str]] = {}
        for f in c.methods.values():
            if f.name == "__init__":
                continue
            for n in own_nodes(f.node):
                if isinstance(n, ast.Attribute) and isinstance(n.value, ast.Name) and n.value.id == "self" and not isinstance(n.ctx, ast.Load):
                    held = L.must_hold(n, f)
                    if held:
                        locked_writes.setdefault(n.attr, set()).update(held)
        for f in c.methods.values():
            if f.name == "__init__" or f.name in PREDICATES:
                continue
            for n in own_nodes(f.node):
                if isinstance(n, ast.Attribute) and isinstance(n.value, ast.Name) and n.value.id == "self" and isinstance(n.ctx, ast.Load) and n.attr in locked_writes:
                    q = parent(n)
                    while q is not None and not isinstance(q, ast.stmt):
                        q = parent(q)
                    if not (isinstance(q, (ast.If, ast.While)) and any(y is n for y in ast.walk(q.test))):
                        continue
                    held = L.must_hold(n, f)
                    ngate += 1
                    ok = bool(held & locked_writes[n.attr]) or (inv.get(c.name, c.name), n.attr, f.name) in UNLOCKED_GATES_OK
                    if not ok:
                        # a field that only ever goes from None to an object (never back) tested for presence: a stale answer can
                        # only be "not yet", and acting on "present" is acting on something that stays true
                        wvals = [parent(w).value for f2 in c.methods.values() if f2.name != "__init__" for w in own_nodes(f2.node)
                                 if isinstance(w, ast.Attribute) and isinstance(w.value, ast.Name) and w.value.id == "self" and w.attr == n.attr and isinstance(w.ctx, ast.Store)
                                 and isinstance(parent(w), ast.Assign)]
                        monotonic = bool(wvals) and not any(isinstance(v_, ast.Constant) for v_ in wvals)
                        par_ = parent(n)
                        positive = par_ is q or (isinstance(par_, ast.BoolOp) and isinstance(par_.op, ast.And)) or \
                            (isinstance(par_, ast.Compare) and isinstance(par_.ops[0], ast.IsNot) and isinstance(par_.comparators[0], ast.Constant) and par_.comparators[0].value is None)
                        ok = monotonic and positive
                        # the same for a flag that is only ever SET (every store outside the constructor is the constant True), tested for being set
                        set_once = bool(wvals) and all(isinstance(v_, ast.Constant) and v_.value is True for v_ in wvals)
                        if not ok and set_once and (par_ is q or isinstance(par_, ast.BoolOp)):
                            ok = True
                    # a branch that only raises / returns a refusal acts on nothing shared; a branch that calls or stores does
                    acts = any(isinstance(y, (ast.Call, ast.Attribute)) and (isinstance(y, ast.Call) or not isinstance(y.ctx, ast.Load)) for st_ in q.body for y in ast.walk(st_)
                               if not (isinstance(y, ast.Call) and isinstance(parent(y), ast.Raise)))
                    rep.ob("C08.R12", f"sync|{c.name}.{f.name}|unlocked-gate:{n.attr}:{_occ(n, f)}", ok or not acts, where(f, n),
                           f"`self.{n.attr}` is tested holding {sorted(h.split('.')[-1] for h in held) or 'no lock'}" + ("" if ok or not acts else
                           f" although it is written under {sorted(h.split('.')[-1] for h in locked_writes[n.attr])}: the branch acts on a decision another thread can have invalidated "
                           "(e.g. it closes a connection that a second thread has meanwhile taken and is using)"))
    rep.floor("C08.R12", "tests of lock-managed fields outside the advisory predicates (sync)", ngate, 8)


UNLOCKED_GATES_OK: dict[tuple[str, str, str], str] = {
    ("AsyncPoolRequest", "connection", "wait_for_connection"): "store-before-set protocol: the assigner stores the connection and then sets the event; the waiter tests the field before it waits "
                                                               "and reads it again after the wait (C08.R7, C07.R2) - a stale None only costs one wait on an event that is already set",
}


_core_run6 = run


def run(ctx: Context) -> None:  # noqa: F811
    _core_run6(ctx)
    ctx.rep.rule("C08.R12", "no unlocked check-then-act: outside the advisory predicates, a field that is written under a lock is tested (if / while) only while holding that lock, unless the branch acts on nothing")
    ctx.rep.rule("C08.R11", "lockset census: every written field of a thread-shared class is consistently locked, single-writer-locked with plain reads, or an enumerated benign field; no unlocked check-then-act on a shared table")
    _lockset_census(ctx)



_core_run_r13 = run


def run(ctx: Context) -> None:  # noqa: F811
    _core_run_r13(ctx)
    from . import c09

    if ctx.rep._borrow is not None:
        return          # already running as a lender: no chains
    with ctx.rep.borrow({"C09.R3": ("C08.R13", "one thread's request cannot close the connection another thread is using: the pool evicts only connections that are idle, expired "
                                                "or surplus-idle (an ACTIVE HTTP/2 connection is `available`, never a candidate):")}):
        c09.run(ctx)
