"""C07 - waiting requests make progress whenever capacity exists (necessary conditions)."""
from __future__ import annotations

import ast

from ..context import Context
from ..faults import escapes_without, real_sources
from ..guards import guards_of
from ..load import AnalysisError, FuncInfo, Names, chain, norm, own_nodes, parent
from ..locks import Locks, cycles
from ..norm import guard_atoms
from .c04 import list_mutations
from .c05 import node_calls, witness
from .common import calls_named, fkey, trees, where


def locks_for(ctx: Context, tree: str) -> Locks:
    return ctx.memo(f"locks:{tree}", lambda: Locks(ctx, ctx.names(tree)))


def pool_lock_regions(ctx: Context, N: Names) -> list[tuple[FuncInfo, ast.With]]:
    L = locks_for(ctx, N.tree)
    out = []
    for f in N.functions():
        for n in own_nodes(f.node):
            if isinstance(n, (ast.With, ast.AsyncWith)):
                for item in n.items:
                    lid = L.lock_id(item.context_expr, f)
                    if lid is not None and lid[1] == "threadlock":
                        out.append((f, n))
    return out


def no_blocking_under_pool_lock(ctx: Context, rule: str, tree: str, N: Names) -> None:
    rep = ctx.rep
    L = locks_for(ctx, tree)
    regions = pool_lock_regions(ctx, N)
    rep.floor(rule, f"pool-lock regions ({tree})", len(regions), 5)
    for i, (f, w) in enumerate(regions):
        bad = L.region_blocking(w, f)
        if tree == "async":
            # in the async tree the lock is a no-op, but the region must still be free of suspension points (atomic pass)
            bad += [(n, ("await inside the atomic pool section",)) for n in ast.walk(w) if isinstance(n, (ast.Await, ast.AsyncWith, ast.AsyncFor))]
        rep.ob(rule, fkey(tree, f, f"pool-lock-region-{sum(1 for g, _ in regions[:i] if g is f)}"), not bad, where(f, w),
               "no blocking operation (lock/semaphore/event wait, network I/O, sleep, await) is reachable inside the pool-lock region" if not bad else
               f"blocking operation under the pool lock: {' -> '.join(bad[0][1])} - every other request of the pool stalls behind it", [" -> ".join(b[1]) for b in bad[:5]])
    # the readability probe used by has_expired() must be a zero-timeout poll
    u = ctx.prog.func("httpcore._utils", "is_socket_readable")
    probes = [c for c in own_nodes(u.node) if isinstance(c, ast.Call) and (chain(c.func) or [""])[-1] in ("poll", "select") and c.args]
    probes = [c for c in probes if not (norm(c.func) == "select.poll")]
    ok = bool(probes) and all(isinstance(c.args[-1], ast.Constant) and c.args[-1].value == 0 for c in probes)
    rep.ob(rule, fkey("shared", u, "zero-timeout-probe"), ok, where(u), f"socket readability probes use a zero timeout: {[ast.unparse(c) for c in probes]}")


def wait_for_cycles(ctx: Context, rule: str, tree: str, N: Names) -> None:
    rep = ctx.rep
    L = locks_for(ctx, tree)
    edges = L.wait_for_edges()
    rep.stat(f"wait_for_edges_{tree}", sorted(f"{a} -> {b}" for a, b in edges))
    rep.floor(rule, f"wait-for edges ({tree})", len(edges), 4)
    cyc = cycles(edges.keys())
    if not cyc:
        rep.ob(rule, f"{tree}|wait-for-graph|acyclic", True, "httpcore/", f"wait-for graph over {len(edges)} edges is acyclic")
    for c in cyc:
        names = " -> ".join(c)
        wit = [edges[(a, b)] for a, b in zip(c, c[1:])]
        key = "cycle:" + "|".join(sorted(set(c)))
        rep.ob(rule, f"{tree}|wait-for-graph|{key}", False, wit[0].split(" ", 1)[0],
               f"wait-for cycle {names}: " + "; ".join(wit) + " - when the holder of one blocks on the other the involved requests can never finish", wit)


def run(ctx: Context) -> None:
    rep = ctx.rep
    rep.explanation = (
        "Liveness over schedules is not decided. Necessary conditions decided: R1 every mutation of the request queue is followed on every "
        "path (including faults) by a run of the assignment pass; R2 check-before-wait / store-before-set / re-arm on the per-request "
        "event, is_queued() == (connection is None), queue scanned in arrival order; R3 the ConnectionNotAvailable handler clears the "
        "assignment and the loop head re-runs the pass; R4 no blocking operation (lock, semaphore or event wait, network I/O, sleep, any "
        "await) is reachable - transitively over the call graph - inside a pool-lock region, and the readability probe is a zero-timeout "
        "poll; R5 the wait-for graph over locks and stream-slot permits (edge h -> b: blocking acquisition of b with h possibly held, held "
        "sets propagated into callees) is acyclic."
    )
    for r, t in (("C07.R1", "queue mutations are followed by the assignment pass"),
                 ("C07.R2", "wait/assign/clear protocol of the per-request event; FIFO scan"),
                 ("C07.R3", "retry handler clears the assignment and re-runs the pass"),
                 ("C07.R4", "no blocking under the pool lock"),
                 ("C07.R5", "wait-for graph acyclic"),
                 ("C07.R6", "no fault point leaves a protocol connection in a transient state (shared with C05.R2): the slot would be lost for every waiter"),
                 ("C07.R7", "establishment faults mark the connection failed / close it (shared with C05.R3)")):
        rep.rule(r, t)
    for tree, N in trees(ctx):
        t = N.t
        # R1
        nm = 0
        for f in N.functions():
            muts = list_mutations(f, "_requests")
            if not muts or f.name == "__init__":
                continue
            cfg = ctx.cfg(f)
            is_pass = lambda n: node_calls(n, lambda c: (chain(c.func) or [""])[-1] == "_assign_requests_to_connections")
            for node, kind in muts:
                nm += 1
                start = cfg.nodes_for(node)
                if not start:
                    continue
                reach = cfg.reachable([e.dst for e in start[0].succ if e.kind != "exc"], follow=lambda e: e.kind != "exc", stop=is_pass)
                normal_skip = cfg.exit.id in reach
                faults = [n for n in cfg.nodes if n.id in reach and not is_pass(n) and real_sources(n) and escapes_without(cfg, n, is_pass)]
                rep.ob("C07.R1", fkey(tree, f, f"{kind}:{norm(node)[:40]}"), not normal_skip and not faults, where(f, node),
                       "queue mutation is followed by the assignment pass on every path" if not normal_skip and not faults else
                       f"after this queue mutation a path leaves without re-examining the queue (normal: {normal_skip}; faults: {witness(faults)}): a waiter that could be served stays blocked", witness(faults))
        rep.floor("C07.R1", f"mutations of the request queue ({tree})", nm, 3)
        # R2
        pr = N.cls("connection_pool", "AsyncPoolRequest")
        w = pr.methods["wait_for_connection"]
        waits = calls_named(w, "wait")
        rep.floor("C07.R2", f"event wait in wait_for_connection ({tree})", len(waits), 1)
        for c in waits:
            at = guard_atoms(guards_of(c))
            rep.ob("C07.R2", fkey(tree, w, "check-before-wait"), "None==self.connection" in at or "self.connection==None" in at, where(w, c),
                   f"the event wait is guarded by `self.connection is None` (guards {sorted(at)})")
        rets = [r for r in own_nodes(w.node) if isinstance(r, ast.Return)]
        rep.ob("C07.R2", fkey(tree, w, "returns-assignment"), bool(rets) and all(r.value is not None and norm(r.value) == "self.connection" for r in rets), where(w), "returns the assigned connection")
        a = pr.methods["assign_to_connection"]
        cfg = ctx.cfg(a)
        store = [n for n in cfg.nodes if n.kind == "stmt" and isinstance(n.ast, ast.Assign) and norm(n.ast.targets[0]) == "self.connection"]
        setn = [n for n in cfg.nodes if node_calls(n, lambda c: norm(c.func) == "self._connection_acquired.set")]
        ok = bool(store) and bool(setn) and all(cfg.dominates(store[0], s) and store[0] is not s for s in setn) and norm(store[0].ast.value) == a.positional_params()[1]
        rep.ob("C07.R2", fkey(tree, a, "store-before-set"), ok, where(a), "the assignment is stored before the event is set (a woken waiter always sees it)")
        cl = pr.methods["clear_connection"]
        st = {norm(n.targets[0]): norm(n.value) for n in own_nodes(cl.node) if isinstance(n, ast.Assign)}
        rep.ob("C07.R2", fkey(tree, cl, "re-arm"), st.get("self.connection") == "None" and st.get("self._connection_acquired") in ("AsyncEvent()", "Event()"), where(cl),
               f"clear_connection resets the assignment and installs a fresh event: {st}")
        iq = pr.methods["is_queued"]
        r = [norm(x.value) for x in own_nodes(iq.node) if isinstance(x, ast.Return) and x.value is not None]
        rep.ob("C07.R2", fkey(tree, iq, "is_queued"), r in (["self.connectionisNone"], ["self.connection==None"]), where(iq), f"is_queued() returns {r}")
        ap = N.func("connection_pool", "AsyncConnectionPool._assign_requests_to_connections")
        q = [n for n in own_nodes(ap.node) if isinstance(n, ast.Assign) and norm(n.targets[0]) == "queued_requests"]
        okq = False
        if q and isinstance(q[0].value, ast.ListComp) and len(q[0].value.generators) == 1:
            g = q[0].value.generators[0]
            okq = norm(g.iter) == "self._requests" and norm(q[0].value.elt) == norm(g.target) and [norm(i) for i in g.ifs] == [f"{norm(g.target)}.is_queued()"]
        loops = [n for n in own_nodes(ap.node) if isinstance(n, ast.For) and norm(n.iter) == "queued_requests"]
        rep.ob("C07.R2", fkey(tree, ap, "fifo-scan"), okq and bool(loops), where(ap, q[0] if q else None), "queued requests are scanned in arrival order (list comprehension over self._requests filtered by is_queued())")
        for lp in loops:
            exits = [x for x in ast.walk(lp) if isinstance(x, (ast.Break, ast.Return))]
            rep.ob("C07.R2", fkey(tree, ap, "scan-visits-every-waiter"), not exits, where(ap, exits[0] if exits else lp),
                   "the scan examines every queued request (no early exit)" if not exits else
                   "the queue scan stops early: a waiter behind an unserviceable request is not examined although a pooled (e.g. multiplexed HTTP/2) connection could take it")
        # R3
        ph = N.func("connection_pool", "AsyncConnectionPool.handle_async_request")
        hs = [h for h in own_nodes(ph.node) if isinstance(h, ast.ExceptHandler) and ctx.escape.handler_types(ph.module, h) == ["ConnectionNotAvailable"]]
        rep.floor("C07.R3", f"ConnectionNotAvailable handlers in the pool ({tree})", len(hs), 1)
        for h in hs:
            okc = any(isinstance(c, ast.Call) and norm(c.func).endswith(".clear_connection") for c in ast.walk(h))
            pcfg = ctx.cfg(ph)
            hn = pcfg._by_ast.get(id(h))
            okp = False
            if hn:
                is_pass = lambda n: node_calls(n, lambda c: (chain(c.func) or [""])[-1] == "_assign_requests_to_connections")
                reach = pcfg.reachable([hn[0]], follow=lambda e: e.kind != "exc", stop=is_pass)
                waitn = [n for n in pcfg.nodes if node_calls(n, lambda c: (chain(c.func) or [""])[-1] == "wait_for_connection")]
                okp = all(x.id not in reach for x in waitn) and pcfg.exit.id not in reach
            rep.ob("C07.R3", fkey(tree, ph, "retry-clears-and-reassigns"), okc and okp, where(ph, h),
                   "the handler clears the assignment and the next wait is preceded by a new assignment pass" if okc and okp else
                   f"after ConnectionNotAvailable the request is {'not cleared' if not okc else 'not re-assigned before waiting'}: it would wait on / reuse the unavailable connection forever")
        # R6/R7: capacity is never lost for good - the typestate-coverage and establishment-marking rules of C05 are
        # necessary conditions of progress as well (a connection stuck CONNECTING / NEW / ACTIVE holds its slot forever)
        from .c05 import _r2 as typestate_coverage, _r3 as establishment_marking

        typestate_coverage(ctx, tree, N, rule="C07.R6")
        establishment_marking(ctx, tree, N, rule="C07.R7")
        no_blocking_under_pool_lock(ctx, "C07.R4", tree, N)
        wait_for_cycles(ctx, "C07.R5", tree, N)
    rep.assume("Event.set() / list operations / constructors do not block")

_core_run = run


def run(ctx: Context) -> None:  # noqa: F811
    _core_run(ctx)
    from . import backend

    ctx.rep.rule('C07.R8', 'the event / semaphore / lock primitives cannot lose a wake-up (shared with C08.R9)')
    backend.primitives(ctx, 'C07.R8')
    ctx.rep.explanation = (ctx.rep.explanation or '') + ' R8 (primitives, shared with C08.R9): set()/release() always reaches the one primitive every waiter waits on.'
    from .c05 import _assignment_consumed_or_undone

    ctx.rep.rule('C07.R9', 'an abandoned waiter never leaves behind a never-started connection holding a slot (shared with C05.R9)')
    _assignment_consumed_or_undone(ctx, 'C07.R9')
    from . import plumb

    ctx.rep.rule('C07.R10', 'a connection created for a request accepts that request: the origin it is created with is stored unchanged, so the origin gate - which runs before the failure-marking try - cannot reject it (a rejected fresh connection stays CONNECTING forever)')
    plumb.plumbing(ctx, 'C07.R10', ['origin', 'remote_origin'])



_core_run_r11 = run


def run(ctx: Context) -> None:  # noqa: F811
    _core_run_r11(ctx)
    rep = ctx.rep
    rep.rule("C07.R11", "a connection that is still being established reports itself available when it may become HTTP/2, judged on the origin it SERVES: the scheme test in "
                        "is_available() reads the same origin field that can_handle_request() compares with (a test on another origin makes requests queue behind a connection "
                        "that could multiplex them)")
    n = 0
    for tree, N in trees(ctx):
        for mod, cn in (("connection", "AsyncHTTPConnection"), ("socks_proxy", "AsyncSocks5Connection"), ("http_proxy", "AsyncTunnelHTTPConnection")):
            c = N.cls(mod, cn)
            ch, av = c.methods.get("can_handle_request"), c.methods.get("is_available")
            if ch is None or av is None:
                continue
            served = {norm(x) for cmp in own_nodes(ch.node) if isinstance(cmp, ast.Compare) for x in [cmp.left] + list(cmp.comparators)
                      if isinstance(x, ast.Attribute) and norm(x).startswith("self.")}
            schemes = [a for a in own_nodes(av.node) if isinstance(a, ast.Attribute) and a.attr == "scheme"]
            if not schemes:
                continue
            n += 1
            bad = [a for a in schemes if norm(a.value) not in served]
            rep.ob("C07.R11", fkey(tree, av, "scheme-of-served-origin"), len(served) == 1 and not bad, where(av, bad[0] if bad else schemes[0]),
                   f"is_available() tests the scheme of {sorted(served)}, the origin can_handle_request() compares with" if len(served) == 1 and not bad else
                   f"is_available() tests `{ast.unparse(bad[0]) if bad else '?'}` but the connection serves {sorted(served)}: whether the connection can become HTTP/2 (and so take "
                   "further requests while it connects) is decided on the wrong origin")
    rep.floor("C07.R11", "establishing connection classes with a scheme test in is_available()", n, 2)



_core_run_r12 = run


def run(ctx: Context) -> None:  # noqa: F811
    _core_run_r12(ctx)
    from .c12 import read_recheck

    read_recheck(ctx, "C07.R12", "against a server that answers every request no schedule leaves a caller blocked forever: a caller whose complete response was queued by another "
                                 "stream's read must not start a read of its own")



_core_run_r13 = run


def run(ctx: Context) -> None:  # noqa: F811
    _core_run_r13(ctx)
    if ctx.rep._borrow is not None:
        return          # already running as a lender: no chains
    from . import c12

    with ctx.rep.borrow({"C12.R3": ("C07.R13", "stream-slot permits follow the advertised limit exactly (one permit operation per unit of limit change, in both directions): permits that are "
                                               "withdrawn twice or never returned leave later requests waiting for a slot on a server that answers everything:")}):
        c12.run(ctx)
