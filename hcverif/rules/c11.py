"""C11 - proxy hops see exactly what is meant for them."""
from __future__ import annotations

import ast

from ..context import Context
from ..guards import guards_of
from ..load import AnalysisError, FuncInfo, Names, chain, norm, own_nodes, parent
from ..norm import UNKNOWN, guard_atoms, int_boundaries, peval
from .c05 import node_calls
from .common import calls_named, fkey, trees, where


def request_ctor_taint(ctx: Context) -> dict[str, set[str]]:
    """Constructor summary of Request: which constructor parameters can influence which wire-visible
    field (self.method / self.url / self.headers / self.stream), computed from Request.__init__."""
    init = ctx.prog.func("httpcore._models", "Request.__init__")
    out: dict[str, set[str]] = {}
    stores = [n for n in own_nodes(init.node) if isinstance(n, (ast.Assign, ast.AnnAssign))]
    # self.extensions <- extensions makes `self.extensions[...]` a read of the parameter
    alias = {}
    for st in stores:
        tgt = st.targets[0] if isinstance(st, ast.Assign) else st.target
        if isinstance(tgt, ast.Attribute) and norm(tgt.value) == "self" and st.value is not None:
            params = {n.id for n in ast.walk(st.value) if isinstance(n, ast.Name) and n.id in init.param_names()}
            alias[f"self.{tgt.attr}"] = params
    for st in stores:
        tgt = st.targets[0] if isinstance(st, ast.Assign) else st.target
        if isinstance(tgt, ast.Attribute) and norm(tgt.value) == "self" and tgt.attr in ("method", "url", "headers", "stream") and st.value is not None:
            params = {n.id for n in ast.walk(st.value) if isinstance(n, ast.Name) and n.id in init.param_names()}
            for a in ast.walk(st.value):
                if isinstance(a, ast.Attribute) and norm(a) in alias and norm(a) != f"self.{tgt.attr}":
                    params |= alias[norm(a)]
            out.setdefault(tgt.attr, set()).update(params)
    if "url" not in out or "method" not in out:
        raise AnalysisError("Request.__init__ summary could not be computed")
    return out


def run(ctx: Context) -> None:
    rep = ctx.rep
    rep.explanation = (
        "R1 forward proxy: the forwarded request is built from merge_headers(<proxy headers>, request.headers) in that order, the absolute "
        "URL bytes(request.url) as target, the caller's method and body; merge_headers returns filtered(default) + override with a "
        "case-insensitive filter. R2 CONNECT isolation (taint): using the constructor summary of Request computed from _models.py, no "
        "wire-visible field of the CONNECT request - nor the forwarded request's target - may have a root in caller-controlled data other "
        "than the fields meant for it; in particular the caller's `extensions` must not reach a constructor parameter that rewrites the URL "
        "target. R3 refusal: the status test folds to 'outside [200, 299]' and its branch raises ProxyError. R4 credential confinement: "
        "Proxy-Authorization is built only in the proxy constructors into the proxy-header list, whose only readers are the forward merge "
        "and the CONNECT merge; the request passed into the tunnel is the unmodified parameter. R5 SOCKS: exactly one offered auth method "
        "chosen by `auth is None`, the negotiated address is the (host, port) parameters, the protocol connection is constructed only "
        "after the negotiation returned."
    )
    for r, t in (("C11.R1", "forward: merged headers (proxy beneath caller), absolute-form target, caller's method/body"),
                 ("C11.R2", "CONNECT / forwarded target cannot be rewritten by caller data"),
                 ("C11.R3", "non-2xx CONNECT reply raises ProxyError"),
                 ("C11.R4", "proxy credentials and headers appear only on the proxy hop"),
                 ("C11.R5", "SOCKS5 negotiation arguments and ordering")):
        rep.rule(r, t)
    taint = request_ctor_taint(ctx)
    rep.stat("request_ctor_summary", {k: sorted(v) for k, v in taint.items()})
    for tree, N in trees(ctx):
        t = N.t
        # ---- R1
        ff = N.func("http_proxy", "AsyncForwardHTTPConnection.handle_async_request")
        reqs = [c for c in own_nodes(ff.node) if isinstance(c, ast.Call) and norm(c.func) == "Request"]
        rep.floor("C11.R1", f"forwarded request construction ({tree})", len(reqs), 1)
        for c in reqs:
            kw = {k.arg: sorted({norm(a) for a in ctx.prov.expand(k.value, ff, c)}) for k in c.keywords}
            ok_h = kw.get("headers") == ["merge_headers(self._proxy_headers,request.headers)"]
            ok_m = kw.get("method") == ["request.method"]
            ok_c = kw.get("content") == ["request.stream"]
            url = kw.get("url", ["?"])[0]
            ok_u = "target=bytes(request.url)" in url and "scheme=self._proxy_origin.scheme" in url and "host=self._proxy_origin.host" in url and "port=self._proxy_origin.port" in url
            rep.ob("C11.R1", fkey(tree, ff, "forward-request"), ok_h and ok_m and ok_c and ok_u, where(ff, c),
                   f"forwarded request: headers={kw.get('headers')} method={kw.get('method')} content={kw.get('content')} url={url[:120]}")
            # R2 on the forward path: extensions must not rewrite the absolute-form target
            _taint_check(ctx, tree, ff, c, taint, "forward")
        mh = N.func("http_proxy", "merge_headers")
        rets = [r for r in own_nodes(mh.node) if isinstance(r, ast.Return) and r.value is not None]
        ok = False
        if len(rets) == 1:
            alts = [norm(a) for a in ctx.prov.expand(rets[0].value, mh, rets[0])]
            want_filter = "if key.lower() not in set((key.lower() for key, value in"
            ok = len(alts) == 1 and alts[0].endswith("+([]ifoverride_headersisNoneelselist(override_headers))") and \
                ("ifkey.lower()notinset(" in alts[0] or "ifkey.lower()notin{key.lower()for" in alts[0]) and "forkey,valuein([]ifdefault_headersisNoneelselist(default_headers))" in alts[0]
        rep.ob("C11.R1", fkey(tree, mh, "merge-shape"), ok, where(mh), "merge_headers returns [defaults whose lower-cased key is not overridden] + overrides")
        # ---- R2 CONNECT
        tf = N.func("http_proxy", "AsyncTunnelHTTPConnection.handle_async_request")
        creqs = [c for c in own_nodes(tf.node) if isinstance(c, ast.Call) and norm(c.func) == "Request"]
        rep.floor("C11.R2", f"CONNECT request construction ({tree})", len(creqs), 1)
        for c in creqs:
            kw = {k.arg: sorted({norm(a) for a in ctx.prov.expand(k.value, tf, c)}) for k in c.keywords}
            # the target is whatever is bound to `target` (its VALUE is decided by evaluation: remote host and port, C10.R2's obligation run here too)
            from .c10 import connect_target_eval

            tdefs = [x for x in own_nodes(tf.node) if isinstance(x, ast.Assign) and norm(x.targets[0]) == "target"]
            tgts = {norm(x.value) for x in tdefs} | {"b'%b:%d'%(self._remote_origin.host,self._remote_origin.port)"}
            tev_ok, tev_detail, _ = connect_target_eval(ctx, tf)
            ok = kw.get("method") == ["b'CONNECT'"] and kw.get("content", ["None"]) == ["None"] and tev_ok
            url = kw.get("url", ["?"])[0]
            ok = ok and any(f"target={tgt}" in url for tgt in tgts) and "self._proxy_origin.scheme" in url
            ok = ok and any(kw.get("headers") == [f"merge_headers([(b'Host',{tgt}),(b'Accept',b'*/*')],self._proxy_headers)"] for tgt in tgts)
            rep.ob("C11.R2", fkey(tree, tf, "connect-request"), ok, where(tf, c), f"CONNECT request: {kw}")
            for field, terms in kw.items():
                if field == "extensions":
                    continue
                leaked = [x for x in terms if "request.headers" in x or "request.stream" in x or "request.url" in x or "request.method" in x]
                rep.ob("C11.R2", fkey(tree, tf, f"connect-{field}-isolated"), not leaked, where(tf, c), f"CONNECT {field} has no root in the caller's request" if not leaked else f"CONNECT {field} carries caller data: {leaked}")
            _taint_check(ctx, tree, tf, c, taint, "connect")
        # the origin request flows only after the 2xx check and the tunnel is established
        # ---- R3
        ifs = [n for n in own_nodes(tf.node) if isinstance(n, ast.If) and "connect_response.status" in norm(n.test)]
        rep.floor("C11.R3", f"CONNECT status test ({tree})", len(ifs), 1)
        for n in ifs:
            pts = sorted(set(int_boundaries(n.test)) | {100, 199, 200, 204, 299, 300, 407, 500})
            in_body = any(isinstance(x, ast.Raise) and "ProxyError" in norm(x) for x in n.body)
            in_else = any(isinstance(x, ast.Raise) and "ProxyError" in norm(x) for x in n.orelse)
            refusal = n.body if in_body or not in_else else n.orelse      # the branch that refuses (either polarity of the test)
            pol = refusal is n.body
            tt = {v: peval(n.test, {"connect_response.status": v}) for v in pts}
            tt = {v: (r if r is UNKNOWN else (bool(r) == pol)) for v, r in tt.items()}
            ok = all(tt[v] is not UNKNOWN and bool(tt[v]) == (v < 200 or v > 299) for v in pts)
            raises = in_body or in_else
            rep.ob("C11.R3", fkey(tree, tf, "refusal-interval"), ok and raises, where(tf, n),
                   "status test is exactly 'outside [200, 299]' and raises ProxyError" if ok and raises else f"refusal test deviates: { {v: r for v, r in tt.items() if r is UNKNOWN or bool(r) != (v < 200 or v > 299)} } raises={raises}")
            cfg = ctx.cfg(tf)
            ifn = cfg._by_ast[id(n)][0]
            later = [x for x in cfg.nodes if node_calls(x, lambda c: (chain(c.func) or [""])[-1] == "start_tls")]
            later += [x for x in cfg.nodes if x.kind == "stmt" and isinstance(x.ast, ast.Assign) and norm(x.ast.targets[0]) == "self._connected" and norm(x.ast.value) == "True"]
            # nothing between the status test and the raise may fail with anything else: the refusal is reported as ProxyError
            # whatever the proxy sends after the head (the connection close is the only other effect of the branch)
            others = []
            for st in refusal:
                if isinstance(st, ast.Raise):
                    break
                for x in cfg.nodes:
                    if x.ast is None or not any(x.ast is y for y in ast.walk(st)):
                        continue
                    cls = {c for c in x.own.classes() if c not in ("Cancelled", "CancelledError")}
                    is_close = node_calls(x, lambda c: (chain(c.func) or [""])[-1] in ("aclose", "close"))
                    if cls and not is_close:
                        others.append((x, sorted(cls)))
                    elif not is_close and any(isinstance(y, ast.Await) for y in ast.walk(st)):
                        others.append((x, ["<suspends>"]))
            rep.ob("C11.R3", fkey(tree, tf, "refusal-always-proxyerror"), not others, where(tf, others[0][0].ast if others else n),
                   "between the status test and `raise ProxyError` only the connection close runs" if not others else
                   f"`{others[0][0].text()}` in the refusal branch can fail with {others[0][1][:4]}: a refusal whose body is cut short, stalls or is malformed is then not reported as ProxyError")
            rep.ob("C11.R3", fkey(tree, tf, "check-dominates"), bool(later) and all(cfg.dominates(ifn, x) for x in later), where(tf, n), "the status check dominates the TLS upgrade and the point where the tunnel is marked connected (after which origin requests flow)")
        # ---- R4
        lit = []
        for m in list(N.modules()) + [ctx.prog.module("httpcore._models")]:
            for f in m.all_functions():
                for c in own_nodes(f.node):
                    if isinstance(c, ast.Constant) and isinstance(c.value, bytes) and c.value.lower() == b"proxy-authorization":
                        lit.append(f)
        allowed = {"Proxy.__init__", t("AsyncHTTPProxy") + ".__init__"}
        rep.floor("C11.R4", f"Proxy-Authorization construction sites ({tree})", len(lit), 1)
        for f in lit:
            rep.ob("C11.R4", fkey(tree, f, "proxy-authorization-literal"), f.short in allowed, where(f), f"Proxy-Authorization is constructed in {f.short}")
        readers = []
        for f in N.functions():
            if f.name == "__init__":
                continue
            for a in own_nodes(f.node):
                if isinstance(a, ast.Attribute) and a.attr == "_proxy_headers" and isinstance(a.ctx, ast.Load):
                    p = parent(a)
                    ok = isinstance(p, ast.Call) and norm(p.func) == "merge_headers" or (isinstance(p, ast.keyword) and p.arg == "proxy_headers")
                    readers.append((f, a, ok))
        for f, a, ok in readers:
            rep.ob("C11.R4", fkey(tree, f, f"reads-proxy-headers"), ok, where(f, a), f"proxy header list read in {f.short}: " + ("merge / constructor hand-over" if ok else f"`{ast.unparse(parent(a))[:80]}`"))
        rep.floor("C11.R4", f"readers of the proxy header list ({tree})", len(readers), 3)
        # request handed into the tunnel is the untouched parameter
        final = [c for c in own_nodes(tf.node) if isinstance(c, ast.Call) and norm(c.func) == "self._connection." + t("handle_async_request") and [norm(x) for x in c.args] == ["request"]]
        rep.ob("C11.R4", fkey(tree, tf, "tunnel-request-unmodified"), bool(final), where(tf), "the origin request is passed into the tunnel as the unmodified parameter")
        for f in (tf, ff):
            muts = [n for n in own_nodes(f.node) if (isinstance(n, ast.Attribute) and isinstance(n.ctx, ast.Store) and norm(n.value).startswith("request"))
                    or (isinstance(n, ast.Call) and isinstance(n.func, ast.Attribute) and norm(n.func.value) in ("request.headers", "request.extensions") and n.func.attr in ("append", "extend", "insert", "update", "pop", "clear", "setdefault"))]
            rep.ob("C11.R4", fkey(tree, f, "request-not-mutated"), not muts, where(f, muts[0] if muts else None), "the caller's request object is not modified")
        # ---- R5
        si = N.func("socks_proxy", "_init_socks5_connection")
        am = [c for c in own_nodes(si.node) if isinstance(c, ast.Call) and (chain(c.func) or [""])[-1] == "SOCKS5AuthMethodsRequest"]
        ok = len(am) == 1 and len(am[0].args) == 1 and isinstance(am[0].args[0], ast.List) and [norm(e) for e in am[0].args[0].elts] == ["auth_method"]
        rep.ob("C11.R5", fkey(tree, si, "one-auth-method"), ok, where(si, am[0] if am else None), "exactly the configured authentication method is offered")
        defs = [n for n in own_nodes(si.node) if isinstance(n, ast.Assign) and norm(n.targets[0]) == "auth_method"]
        okm = False
        if len(defs) == 1:
            v = {a: peval(defs[0].value, {"auth": a}) for a in (None, ("u", "p"))}
            okm = "NO_AUTH_REQUIRED" in repr(v[None]) and "USERNAME_PASSWORD" in repr(v[("u", "p")])
        rep.ob("C11.R5", fkey(tree, si, "auth-method-choice"), okm, where(si, defs[0] if defs else None), "auth method is NO_AUTH iff auth is None, else USERNAME_PASSWORD")
        fa = [c for c in own_nodes(si.node) if isinstance(c, ast.Call) and (chain(c.func) or [""])[-1] == "from_address"]
        okf = len(fa) == 1 and len(fa[0].args) == 2 and norm(fa[0].args[1]) == "(host,port)" and norm(fa[0].args[0]).endswith("SOCKS5Command.CONNECT")
        rep.ob("C11.R5", fkey(tree, si, "connect-address"), okf, where(si, fa[0] if fa else None), "CONNECT command names (host, port) of the parameters")
        up = [c for c in own_nodes(si.node) if isinstance(c, ast.Call) and (chain(c.func) or [""])[-1] == "SOCKS5UsernamePasswordRequest"]
        rep.ob("C11.R5", fkey(tree, si, "credentials"), all([norm(a) for a in c.args] == ["username", "password"] for c in up) and bool(up), where(si), "credentials sent are the configured pair")
        sf = N.func("socks_proxy", "AsyncSocks5Connection.handle_async_request")
        cfg = ctx.cfg(sf)
        neg = [n for n in cfg.nodes if node_calls(n, lambda c: norm(c.func) == "_init_socks5_connection")]
        ctors = [n for n in cfg.nodes if node_calls(n, lambda c: (chain(c.func) or [""])[-1] in (t("AsyncHTTP11Connection"), t("AsyncHTTP2Connection")))]
        tls = [n for n in cfg.nodes if node_calls(n, lambda c: (chain(c.func) or [""])[-1] == "start_tls")]
        rep.ob("C11.R5", fkey(tree, sf, "negotiate-before-http"), bool(neg) and bool(ctors) and all(cfg.dominates(neg[0], x) for x in ctors + tls), where(sf),
               "the HTTP connection (and TLS) is created only after the SOCKS negotiation returned")
        kw = [c for c in own_nodes(sf.node) if isinstance(c, ast.Call) and norm(c.func) == "_init_socks5_connection"]
        if kw:
            b = ctx.prov.bind(kw[0], si, sf)
            rep.ob("C11.R5", fkey(tree, sf, "auth-argument"), [norm(x) for x in b.get("auth", [])] == ["self._proxy_auth"], where(sf, kw[0]), f"negotiation auth <- {[norm(x) for x in b.get('auth', [])]}")
            hp = {k: sorted({norm(a) for x in b.get(k, []) for a in ctx.prov.expand(x, sf, kw[0])}) for k in ("host", "port")}
            okhp = hp == {"host": ["self._remote_origin.host.decode('ascii')"], "port": ["self._remote_origin.port"]}
            rep.ob("C11.R5", fkey(tree, sf, "negotiated-address"), okhp, where(sf, kw[0]),
                   "the SOCKS5 CONNECT names exactly the origin host and port" if okhp else f"the SOCKS5 CONNECT names host={hp['host']} port={hp['port']} - not (only) the request origin: the proxy tunnels to a different machine")


def _taint_check(ctx: Context, tree: str, f: FuncInfo, call: ast.Call, taint: dict[str, set[str]], which: str) -> None:
    """Caller-controlled `request.extensions` must not reach a constructor parameter that can rewrite
    the request line (url) or the other wire-visible fields of a request the proxy code built itself."""
    rep = ctx.rep
    for k in call.keywords:
        terms = [norm(a) for a in ctx.prov.expand(k.value, f, call)]
        caller_ext = [x for x in terms if x == "request.extensions" or x.startswith("request.extensions")]
        if k.arg == "extensions":
            affected = sorted(fld for fld, params in taint.items() if "extensions" in params)
            filtered = all(("target" in x and ("!=" in x or "notin" in x)) or x in ("{}", "None") or ("'timeout'" in x and "request.extensions" != x) for x in terms)
            ok = not (caller_ext and affected) or filtered
            rep.ob("C11.R2", fkey(tree, f, f"{which}-extensions-taint"), ok, f"{f.module.relpath}:{k.value.lineno}",
                   "extensions passed to the constructed request cannot rewrite its wire-visible fields" if ok else
                   f"extensions={terms} hands the caller's extensions to Request(), whose constructor lets extensions rewrite {affected} "
                   f"(the 'target' extension overrides the URL target): the {'CONNECT line becomes `CONNECT <target>`' if which == 'connect' else 'absolute-form target is lost'}")


_core_run = run


def run(ctx: Context) -> None:  # noqa: F811
    _core_run(ctx)
    from . import plumb

    ctx.rep.rule('C11.R6', 'proxy-hop configuration: the connection to the proxy gets the proxy origin and the proxy TLS context and never the origin protocol flags (it speaks HTTP/1.1 CONNECT); the tunnelled / SOCKS connection gets the remote origin and the origin flags')
    plumb.plumbing(ctx, 'C11.R6', ['http1', 'http2', 'proxy_ssl_context', 'ssl_context', 'proxy_origin', 'remote_origin', 'origin'])



_core_run_r7 = run


def run(ctx: Context) -> None:  # noqa: F811
    _core_run_r7(ctx)
    from . import c10

    if ctx.rep._borrow is not None:
        return          # already running as a lender: no chains
    with ctx.rep.borrow({"C10.R3": ("C11.R7", "an origin that needs TLS behind an HTTP proxy is reached through a CONNECT tunnel, never by forwarding its request (target, credentials, body) "
                                               "to the proxy in clear - the scheme x proxy matrix, cells of the TLS schemes:",
                                    lambda key, detail: "scheme=https" in key or "scheme=wss" in key)}):
        c10.run(ctx)
