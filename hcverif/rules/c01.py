"""C01 - each response belongs to its own request (no cross-talk, no desync)."""
from __future__ import annotations

import ast

from ..context import Context
from ..guards import enclosing_withs, guards_of
from ..load import AnalysisError, FuncInfo, Names, chain, norm, own_nodes, parent
from ..norm import UNKNOWN, Sym, canon_atom, conj_atoms, guard_atoms, peval
from .common import calls_named, fkey, trees, where

STATE_ROLES = {  # method (async name) -> constant it may store
    "__init__": {"AsyncHTTP11Connection": "NEW", "AsyncHTTP2Connection": "IDLE"},
    "handle_async_request": "ACTIVE",
    "_response_closed": "IDLE",
    "aclose": "CLOSED",
}


def state_stores(f: FuncInfo) -> list[ast.Assign]:
    out = []
    for n in own_nodes(f.node):
        tgts = n.targets if isinstance(n, ast.Assign) else ([n.target] if isinstance(n, (ast.AugAssign, ast.AnnAssign)) else [])
        for t in tgts:
            for el in ast.walk(t):
                if isinstance(el, ast.Attribute) and el.attr == "_state" and isinstance(el.ctx, ast.Store):
                    out.append(n)
    return sorted(out, key=lambda s: s.lineno)


def const_name(e: ast.AST) -> str:
    ch = chain(e)
    return ch[-1] if ch else norm(e)


def return_expr(f: FuncInfo) -> ast.expr:
    rets = [n for n in own_nodes(f.node) if isinstance(n, ast.Return) and n.value is not None]
    if len(rets) != 1:
        raise AnalysisError(f"{f.qual}: expected a single return expression, found {len(rets)}")
    return rets[0].value  # type: ignore[return-value]


def _returns_as_expr(f: FuncInfo) -> ast.expr:
    """A predicate written as straight-line assignments, `if` statements and several `return`s, as ONE expression: locals substituted, every `if` a conditional
    expression (a boolean connective when one branch is a constant) - evaluation order is that of the statements."""
    from ..load import clone

    def subst(e: ast.expr, env: dict[str, ast.expr]) -> ast.expr:
        class S(ast.NodeTransformer):
            def visit_Name(self, n: ast.Name) -> ast.AST:
                return clone(env[n.id]) if isinstance(n.ctx, ast.Load) and n.id in env else n
        return S().visit(clone(e))

    def conv(stmts: list[ast.stmt], env: dict[str, ast.expr]) -> ast.expr:
        env = dict(env)
        for i, st in enumerate(stmts):
            if isinstance(st, ast.Expr) and isinstance(st.value, ast.Constant) or isinstance(st, ast.Pass):
                continue
            if isinstance(st, ast.Assign) and len(st.targets) == 1 and isinstance(st.targets[0], ast.Name):
                env[st.targets[0].id] = subst(st.value, env)
                continue
            if isinstance(st, ast.AnnAssign) and isinstance(st.target, ast.Name) and st.value is not None:
                env[st.target.id] = subst(st.value, env)
                continue
            if isinstance(st, ast.Return) and st.value is not None:
                return subst(st.value, env)
            if isinstance(st, ast.If):
                rest = stmts[i + 1:]
                t = subst(st.test, env)
                a, b = conv(list(st.body) + rest, env), conv(list(st.orelse) + rest, env)
                ca = a.value if isinstance(a, ast.Constant) and isinstance(a.value, bool) else None
                cb = b.value if isinstance(b, ast.Constant) and isinstance(b.value, bool) else None
                if ca is False:
                    return ast.BoolOp(op=ast.And(), values=[ast.UnaryOp(op=ast.Not(), operand=t), b])
                if cb is True:
                    return ast.BoolOp(op=ast.Or(), values=[ast.UnaryOp(op=ast.Not(), operand=t), a])
                if ca is True:
                    return ast.BoolOp(op=ast.Or(), values=[t, b])
                if cb is False:
                    return ast.BoolOp(op=ast.And(), values=[t, a])
                return ast.IfExp(test=t, body=a, orelse=b)
            raise AnalysisError(f"{f.qual}: predicate body contains `{ast.unparse(st)[:60]}` - cannot be read as one expression")
        raise AnalysisError(f"{f.qual}: a path through the predicate ends without a return value")
    e = conv(list(f.node.body), {})
    ast.fix_missing_locations(ast.Expression(body=e))
    return e


def expanded_return(ctx: Context, f: FuncInfo, _depth: int = 3) -> ast.expr:
    """The single return expression of a predicate method with locals expanded and calls to other pure
    one-expression predicate methods of the same class (`self.is_closed()`) inlined."""
    rets = [n for n in own_nodes(f.node) if isinstance(n, ast.Return) and n.value is not None]
    if len(rets) != 1:
        expr = _returns_as_expr(f)
    else:
        alts = ctx.prov.expand(rets[0].value, f, rets[0])
        if len(alts) != 1:
            raise AnalysisError(f"{f.qual}: return expression has {len(alts)} provenance alternatives")
        expr = alts[0]
    if _depth <= 0 or f.cls is None:
        return expr
    cls = f.cls

    class Inline(ast.NodeTransformer):
        def visit_Call(self, n: ast.Call) -> ast.AST:
            self.generic_visit(n)
            if isinstance(n.func, ast.Attribute) and isinstance(n.func.value, ast.Name) and n.func.value.id == "self" and not n.args and not n.keywords:
                m = cls.find_method(n.func.attr)
                if m is not None and m is not f and not m.is_async and len(m.param_names()) == 1:
                    body = [x for x in own_nodes(m.node) if isinstance(x, ast.Return) and x.value is not None]
                    if len(body) >= 1:
                        try:
                            return expanded_return(ctx, m, _depth - 1)
                        except AnalysisError:
                            return n
            return n

    from ..load import clone

    return Inline().visit(clone(expr))


def run(ctx: Context) -> None:
    rep = ctx.rep
    rep.explanation = (
        "Structural necessary conditions for 'a connection is offered to another request only after the previous exchange has completely "
        "finished, and HTTP/2 events are routed by their own stream id': R1 whole-tree census of writers of the HTTP/1.1 and HTTP/2 "
        "connection state with the constant each role may store; R2 the IDLE store is control-dependent on both h11 sides being DONE "
        "(HTTP/1.1; same branch restarts the h11 cycle, complementary branch closes) / on ACTIVE-and-no-open-streams (HTTP/2); R3 the ACTIVE "
        "store is guarded by membership of the state in the reusable set, under the state lock, with no fault point between test and store, "
        "else-branch raising ConnectionNotAvailable; R4 truth tables of is_available(); R5 provenance of every connection the pool hands to "
        "a request (filtered by that request's own origin and availability, or freshly created for that origin); R6 the response stream is "
        "bound to (this connection, this request, this stream id); R7 the HTTP/2 event table is indexed consistently (append under the "
        "event's own id behind a membership guard, pop/del under the caller's id); R8 send-state fidelity: a write failure escapes from every "
        "HTTP/1.1 routine that feeds h11 (so h11's our_state cannot reach DONE for bytes that never reached the wire and the connection cannot "
        "look reusable), and HTTP/2 network failures set the connection-error flag and re-raise. Byte-level equality of delivered data is h11/h2 behaviour "
        "and not decided."
    )
    for r, t in (("C01.R1", "only the role slots write the connection state, each its own constant"),
                 ("C01.R2", "return to IDLE only when the exchange finished in both directions; otherwise close"),
                 ("C01.R3", "ACTIVE gate: test-and-set under the state lock, ConnectionNotAvailable otherwise"),
                 ("C01.R4", "is_available(): HTTP/1.1 exactly IDLE; HTTP/2 false on closed/error/exhausted/terminated"),
                 ("C01.R5", "the pool hands out only available connections for the request's own origin, or fresh ones"),
                 ("C01.R6", "response byte stream bound to this connection, request and stream id"),
                 ("C01.R7", "HTTP/2 event table keys are consistent"),
                 ("C01.R9", "per-connection / per-pool mutable state is instance state (no class-level mutable container mutated through self)"),
                 ("C01.R8", "a failed network write/read is visible to the state machines: it aborts the HTTP/1.1 send phase and marks the HTTP/2 connection errored")):
        rep.rule(r, t)
    for tree, N in trees(ctx):
        h11c = N.cls("http11", "AsyncHTTP11Connection")
        h2c = N.cls("http2", "AsyncHTTP2Connection")
        # ---- R1 census over the whole tree
        nstores = 0
        for f in N.functions():
            for st in state_stores(f):
                nstores += 1
                role_ok = False
                detail = f"store `{ast.unparse(st)}` in {f.short}"
                if f.cls in (h11c, h2c):
                    for role, want in STATE_ROLES.items():
                        if f.name == N.t(role):
                            w = want[next(k for k in want if N.t(k) == f.cls.name)] if isinstance(want, dict) else want
                            val = st.value if isinstance(st, ast.Assign) else None
                            role_ok = val is not None and const_name(val) == w and norm(st.targets[0]) == "self._state"
                            detail += f" (role {role}: may store {w})"
                if not role_ok and f.cls in (h11c, h2c) and isinstance(st, ast.Assign) and const_name(st.value) == "IDLE" and norm(st.targets[0]) == "self._state":
                    # the idle transition made from another routine of the class (a request that gives up before it has a stream, a shared helper): judged by the
                    # condition it stands under, which is what R2 demands of the transition, not by where it is written
                    at = _atoms(st)
                    if f.cls is h2c:
                        role_ok = "not:self._events" in at and any(a.endswith("==self._state") and "ACTIVE" in a for a in at)
                    else:
                        role_ok = {"h11.DONE==self._h11_state.our_state", "h11.DONE==self._h11_state.their_state"} <= at
                    if role_ok:
                        detail += f" - outside the role table, but under the idle guard {sorted(at)[:4]}"
                rep.ob("C01.R1", fkey(tree, f, norm(st)), role_ok, where(f, st), detail + ("" if role_ok else " - not an allowed writer / constant"))
        rep.floor("C01.R1", f"stores to the connection state ({tree})", nstores, 6)
        _r2(ctx, tree, N, h11c, h2c)
        _r3(ctx, tree, N, h11c, h2c)
        _r4(ctx, tree, N, h11c, h2c)
        _r5(ctx, tree, N)
        _r6(ctx, tree, N, h11c, h2c)
        _r7(ctx, tree, N, h2c)
        _r8(ctx, tree, N, h11c, h2c)
        _r9(ctx, tree, N)


def _atoms(node: ast.AST) -> set[str]:
    return guard_atoms(guards_of(node))


def _r2(ctx: Context, tree: str, N: Names, h11c, h2c) -> None:
    rep = ctx.rep
    f = h11c.methods[N.t("_response_closed")]
    idle = [s for s in state_stores(f) if isinstance(s, ast.Assign) and const_name(s.value) == "IDLE"]
    rep.floor("C01.R2", f"IDLE stores in HTTP/1.1 _response_closed ({tree})", len(idle), 1)
    for st in idle:
        at = _atoms(st)
        need = {"h11.DONE==self._h11_state.our_state", "h11.DONE==self._h11_state.their_state"}
        rep.ob("C01.R2", fkey(tree, f, "idle-guard"), need <= at, where(f, st),
               f"IDLE store guarded by {sorted(at)}; needs both {sorted(need)}")
        # same branch restarts the h11 cycle
        blk = parent(st)
        calls = [c for c in ast.walk(blk) if isinstance(c, ast.Call) and (chain(c.func) or [''])[-1] == "start_next_cycle"] if blk else []
        same = [c for c in calls if _atoms(c) >= need]
        rep.ob("C01.R2", fkey(tree, f, "start_next_cycle"), bool(same), where(f, st), "the IDLE branch calls start_next_cycle() under the same guard")
        # complementary branch closes on every path
        cfg = ctx.cfg(f)
        ifn = None
        p = parent(st)
        while p is not None and not isinstance(p, ast.If):
            p = parent(p)
        if p is None:
            rep.ob("C01.R2", fkey(tree, f, "else-closes"), False, where(f, st), "IDLE store is not under an if")
            continue
        ifn = cfg._by_ast[id(p)][0]
        starts = [e.dst for e in ifn.succ if e.kind == "f"]
        def closes(n) -> bool:
            return n.ast is not None and n.kind == "stmt" and any(isinstance(c, ast.Call) and norm(c.func) in ("self.aclose", "self.close") for c in ast.walk(n.ast))
        reach = cfg.reachable(starts, follow=lambda e: e.kind != "exc", stop=closes)
        leaks = [n for n in (cfg.exit,) if n.id in reach]
        lock_exits = [n for n in cfg.nodes if n.kind == "with_exit" and n.id in reach]
        rep.ob("C01.R2", fkey(tree, f, "else-closes"), bool(starts) and not leaks and not lock_exits, where(f, p),
               "every path through the not-both-DONE branch calls aclose()" if starts and not leaks and not lock_exits else
               "a path through the not-both-DONE branch leaves without closing the connection (it stays ACTIVE / reusable with a half-finished exchange)")
    # HTTP/2
    f2 = h2c.methods[N.t("_response_closed")]
    idle2 = [s for s in state_stores(f2) if isinstance(s, ast.Assign) and const_name(s.value) == "IDLE"]
    rep.floor("C01.R2", f"IDLE stores in HTTP/2 _response_closed ({tree})", len(idle2), 1)
    for st in idle2:
        at = _atoms(st)
        ok = "not:self._events" in at and any(a.endswith("==self._state") and "ACTIVE" in a for a in at)
        rep.ob("C01.R2", fkey(tree, f2, "idle-guard"), ok, where(f2, st), f"HTTP/2 IDLE store guarded by {sorted(at)}; needs state==ACTIVE and no open streams")


def _r3(ctx: Context, tree: str, N: Names, h11c, h2c) -> None:
    rep = ctx.rep
    for c, want in ((h11c, {"NEW", "IDLE"}), (h2c, {"ACTIVE", "IDLE"})):
        f = c.methods[N.t("handle_async_request")]
        act = [s for s in state_stores(f) if isinstance(s, ast.Assign) and const_name(s.value) == "ACTIVE"]
        rep.floor("C01.R3", f"ACTIVE stores in {c.name}.handle ({tree})", len(act), 1)
        for st in act:
            ok = False
            test_if = None
            for test, pol in guards_of(st):
                for atom, p in conj_atoms(test, pol):
                    if p and isinstance(atom, ast.Compare) and norm(atom.left) == "self._state" and isinstance(atom.ops[0], ast.In) \
                            and isinstance(atom.comparators[0], (ast.Tuple, ast.List, ast.Set)):
                        got = {const_name(x) for x in atom.comparators[0].elts}
                        ok = got == want
                        test_if = test
                    elif p and isinstance(atom, ast.Compare) and norm(atom.left) == "self._state" and isinstance(atom.ops[0], (ast.Eq, ast.Is)):
                        got = {const_name(atom.comparators[0])}
                        ok = got <= want and got == want
                        test_if = test
            rep.ob("C01.R3", fkey(tree, f, "active-gate"), ok, where(f, st),
                   f"ACTIVE store guarded by state membership in {sorted(want)}" if ok else f"ACTIVE store is not guarded by `self._state in {sorted(want)}`")
            locks = [norm(i.context_expr) for w, i in enclosing_withs(st)]
            rep.ob("C01.R3", fkey(tree, f, "active-under-lock"), "self._state_lock" in locks, where(f, st), f"gate runs under {locks}")
            # else branch raises ConnectionNotAvailable; no fault point between test and store
            p = parent(st)
            while p is not None and not isinstance(p, ast.If):
                p = parent(p)
            if p is not None:
                raises = [x for x in p.orelse if isinstance(x, ast.Raise) and "ConnectionNotAvailable" in norm(x)]
                rep.ob("C01.R3", fkey(tree, f, "gate-else-raises"), bool(raises) and len(p.orelse) == 1, where(f, p),
                       "the else branch of the gate raises ConnectionNotAvailable" if raises else "the gate's else branch does not raise ConnectionNotAvailable (a busy connection would be used concurrently)")
                cfg = ctx.cfg(f)
                faults = []
                for x in p.body:
                    if x.lineno <= st.lineno:
                        for nd in cfg._by_ast.get(id(x), []):
                            if nd.raises:
                                faults.append(nd)
                rep.ob("C01.R3", fkey(tree, f, "gate-atomic"), not faults, where(f, p),
                       "no fault point between the state test and the ACTIVE store" if not faults else f"fault point {faults[0].text()} between test and store")


def _r4(ctx: Context, tree: str, N: Names, h11c, h2c) -> None:
    rep = ctx.rep
    f = h11c.methods["is_available"]
    e = expanded_return(ctx, f)
    tt = {s: peval(e, {"self._state": Sym("HTTPConnectionState." + s)}) for s in ("NEW", "ACTIVE", "IDLE", "CLOSED")}
    rep.ob("C01.R4", fkey(tree, f, "h11-available"), tt == {"NEW": False, "ACTIVE": False, "IDLE": True, "CLOSED": False}, where(f),
           f"HTTP/1.1 is_available() over states: {tt}; must be True exactly for IDLE")
    f2 = h2c.methods["is_available"]
    e2 = expanded_return(ctx, f2)
    base = {"self._state": Sym("HTTPConnectionState.ACTIVE"), "self._connection_error": False, "self._used_all_stream_ids": False,
            "self._h2_state.state_machine.state": Sym("h2.connection.ConnectionState.OPEN")}
    flips = {"closed": {"self._state": Sym("HTTPConnectionState.CLOSED")}, "error": {"self._connection_error": True},
             "ids-exhausted": {"self._used_all_stream_ids": True},
             "h2-closed (GOAWAY)": {"self._h2_state.state_machine.state": Sym("h2.connection.ConnectionState.CLOSED")}}
    ok_base = peval(e2, base)
    res = {k: peval(e2, {**base, **v}) for k, v in flips.items()}
    ok = ok_base is True and all(v is False for v in res.values())
    idle_ok = peval(e2, {**base, "self._state": Sym("HTTPConnectionState.IDLE")})
    rep.ob("C01.R4", fkey(tree, f2, "h2-available"), ok and idle_ok is True, where(f2),
           f"HTTP/2 is_available(): healthy ACTIVE={ok_base}, IDLE={idle_ok}; with one condition violated: {res} (each must be False)")


def _r5(ctx: Context, tree: str, N: Names) -> None:
    rep = ctx.rep
    f = N.func("connection_pool", "AsyncConnectionPool._assign_requests_to_connections")
    calls = calls_named(f, "assign_to_connection")
    rep.floor("C01.R5", f"assign_to_connection sites ({tree})", len(calls), 1)
    for i, c in enumerate(calls):
        recv = norm(c.func.value) if isinstance(c.func, ast.Attribute) else "?"
        # the loop variable is expanded by the provenance engine; expand the reference term the same way
        ref = ast.parse(f"{recv}.request.url.origin", mode="eval").body
        ref_alts = ctx.prov.expand(ref, f, c)
        origin = norm(ref_alts[0]) if len(ref_alts) == 1 else f"{recv}.request.url.origin"
        ok = True
        details = []
        if not c.args:
            ok = False
        for alt in (ctx.prov.expand(c.args[0], f, c) if c.args else []):
            t = norm(alt)
            if t == f"self.create_connection({origin})":
                details.append("fresh connection for the request's origin")
                continue
            good = False
            if isinstance(alt, ast.Subscript) and isinstance(alt.value, ast.ListComp):
                lc = alt.value
                gen = lc.generators[0]
                conds = {canon_atom(a, p) for cnd in gen.ifs for a, p in conj_atoms(cnd, True)}
                var = norm(gen.target)
                good = (len(lc.generators) == 1 and norm(lc.elt) == var and norm(gen.iter) == "self._connections"
                        and f"{var}.can_handle_request({origin})" in conds and f"{var}.is_available()" in conds)
            if good:
                details.append("existing connection filtered by can_handle_request(own origin) and is_available()")
            else:
                ok = False
                details.append(f"`{t[:140]}` is neither a filtered pooled connection for `{origin}` nor a fresh one")
        rep.ob("C01.R5", fkey(tree, f, f"assign-{i}"), ok, where(f, c), "; ".join(details) or "no argument")


def _r6(ctx: Context, tree: str, N: Names, h11c, h2c) -> None:
    rep = ctx.rep
    f = h11c.methods[N.t("handle_async_request")]
    bs = calls_named(f, "HTTP11ConnectionByteStream")
    rep.floor("C01.R6", f"HTTP/1.1 byte stream constructions ({tree})", len(bs), 1)
    for c in bs:
        rep.ob("C01.R6", fkey(tree, f, "h11-stream-binding"), [norm(a) for a in c.args] == ["self", "request"] and not c.keywords, where(f, c),
               f"HTTP11ConnectionByteStream({', '.join(norm(a) for a in c.args)}) must be (self, request)")
    f2 = h2c.methods[N.t("handle_async_request")]
    bs2 = calls_named(f2, "HTTP2ConnectionByteStream")
    rep.floor("C01.R6", f"HTTP/2 byte stream constructions ({tree})", len(bs2), 1)
    defs = [n for n in own_nodes(f2.node) if isinstance(n, ast.Assign) and any(isinstance(t, ast.Name) and t.id == "stream_id" for t in n.targets)]
    single = len(defs) == 1 and norm(defs[0].value) == "self._h2_state.get_next_available_stream_id()"
    rep.ob("C01.R6", fkey(tree, f2, "stream_id-single-def"), single, where(f2, defs[0] if defs else None),
           f"stream_id defined by {[ast.unparse(d) for d in defs]}; must be the single result of get_next_available_stream_id()")
    for c in bs2:
        b = {k.arg: norm(k.value) for k in c.keywords}
        pos = [norm(a) for a in c.args]
        rep.ob("C01.R6", fkey(tree, f2, "h2-stream-binding"), pos[:2] == ["self", "request"] and (b.get("stream_id") == "stream_id" or pos[2:3] == ["stream_id"]),
               where(f2, c), f"HTTP2ConnectionByteStream({pos}, {b}) must bind (self, request, stream_id)")
    for name in ("_send_request_headers", "_send_request_body", "_receive_response", "_response_closed"):
        for c in calls_named(f2, name):
            callee = h2c.methods.get(name)
            if callee is None:
                continue
            b = ctx.prov.bind(c, callee, f2)
            sid = [norm(x) for x in b.get("stream_id", [])]
            req = [norm(x) for x in b.get("request", [])] if "request" in callee.param_names() else ["request"]
            rep.ob("C01.R6", fkey(tree, f2, f"{name}(stream_id)"), sid == ["stream_id"] and req == ["request"], where(f2, c),
                   f"{name} called with stream_id={sid}, request={req}")
    # byte stream classes use their own bound values
    for cname, extra in (("HTTP11ConnectionByteStream", []), ("HTTP2ConnectionByteStream", ["stream_id"])):
        c = N.cls("http11" if "11" in cname else "http2", cname)
        it = c.methods[N.t("__aiter__")]
        for call in calls_named(it, "_receive_response_body"):
            callee = (h11c if "11" in cname else h2c).methods["_receive_response_body"]
            b = ctx.prov.bind(call, callee, it)
            alts = {k: sorted({norm(a) for x in v for a in ctx.prov.expand(x, it, call)}) for k, v in b.items()}
            ok = alts.get("request") == ["self._request"] and all(alts.get(e) == [f"self._{e}"] for e in extra) and norm(call.func.value) == "self._connection"
            rep.ob("C01.R6", fkey(tree, it, "body-binding"), ok, where(it, call), f"body read uses {alts} on {norm(call.func.value)}")


def queue_appends_via_get(f: FuncInfo) -> list[tuple[ast.Call, str, str, bool]]:
    """The lock-free form of routing an event to its stream's queue:
           v = self._events.get(K);  if v is not None: v.append(E)
    Returns (append call, K, E, guarded-by-`v is not None`-only) for every such append in `f`."""
    out = []
    gets: dict[str, tuple[ast.Assign, str]] = {}
    for st in own_nodes(f.node):
        if isinstance(st, ast.Assign) and len(st.targets) == 1 and isinstance(st.targets[0], ast.Name) and isinstance(st.value, ast.Call) \
                and isinstance(st.value.func, ast.Attribute) and st.value.func.attr == "get" and norm(st.value.func.value) == "self._events" and len(st.value.args) == 1 and not st.value.keywords:
            gets[st.targets[0].id] = (st, norm(st.value.args[0]))
    for c in own_nodes(f.node):
        if isinstance(c, ast.Call) and isinstance(c.func, ast.Attribute) and c.func.attr == "append" and isinstance(c.func.value, ast.Name) and c.func.value.id in gets and len(c.args) == 1:
            v = c.func.value.id
            st, key = gets[v]
            # the variable is bound exactly once in the function
            binds = [x for x in own_nodes(f.node) if isinstance(x, ast.Name) and x.id == v and isinstance(x.ctx, ast.Store)]
            g = guard_atoms(guards_of(c))
            guarded = (f"None!={v}" in g or f"{v}!=None" in g) and len(binds) == 1 and st.lineno < c.lineno
            out.append((c, key, norm(c.args[0]), guarded))
    return out


def _r7(ctx: Context, tree: str, N: Names, h2c, rule: str = "C01.R7") -> None:
    rep = ctx.rep
    n = 0
    for f in h2c.methods.values():
        for sub in own_nodes(f.node):
            if isinstance(sub, ast.Subscript) and norm(sub.value) == "self._events":
                n += 1
                key = norm(sub.slice)
                p = parent(sub)
                ok = False
                detail = f"`{ast.unparse(sub)}` in {f.short}"
                pp0 = parent(p) if p is not None else None
                is_append = isinstance(p, ast.Attribute) and p.attr in ("append", "insert", "extend") and isinstance(pp0, ast.Call)
                if is_append and not key.endswith(".stream_id"):
                    detail += f": events are queued under `{key}` instead of the event's own stream id - one stream would receive another stream's data"
                elif key == "stream_id" and "stream_id" in f.param_names() or (key == "stream_id" and f.name == N.t("handle_async_request")):
                    ok = True
                    detail += ": indexed by the routine's own stream id"
                elif key.endswith(".stream_id"):
                    ev = key[: -len(".stream_id")]
                    pp = parent(p) if p is not None else None
                    appended = isinstance(p, ast.Attribute) and p.attr == "append" and isinstance(pp, ast.Call) and [norm(a) for a in pp.args] == [ev]
                    guarded = f"{key}inself._events" in guard_atoms(guards_of(sub))
                    ok = appended and guarded
                    detail += f": appends `{ev}` under its own id (membership guard: {guarded})" if appended else ": event-keyed access that is not an append of that event"
                else:
                    detail += ": key is neither the routine's stream_id nor the event's own stream_id"
                rep.ob(rule, fkey(tree, f, norm(p if p is not None else sub)[:70]), ok, where(f, sub), detail)
    # `self._events.pop(k[, default])` is the call spelling of `del self._events[k]`
    for f in h2c.methods.values():
        for c in own_nodes(f.node):
            if isinstance(c, ast.Call) and isinstance(c.func, ast.Attribute) and c.func.attr == "pop" and norm(c.func.value) == "self._events" and c.args:
                n += 1
                key = norm(c.args[0])
                rep.ob(rule, fkey(tree, f, norm(c)[:70]), key == "stream_id" and "stream_id" in f.param_names(), where(f, c),
                       f"`{ast.unparse(c)}` in {f.short}: " + ("removes the routine's own stream id" if key == "stream_id" else "removes an entry under a key that is not the routine's stream id"))
    rep.floor(rule, f"accesses to the HTTP/2 event table ({tree})", n, 3)
    stream_table_census(ctx, rule, tree, N, h2c)
    # reads of the table by .get(): key must be the routine's stream id
    for f in h2c.methods.values():
        via_get = queue_appends_via_get(f)
        for c, key, ev, guarded in via_get:
            n += 1
            ok = key == f"{ev}.stream_id" and guarded
            rep.ob(rule, fkey(tree, f, f"self._events[{key}].append"), ok, where(f, c),
                   f"`{ast.unparse(c)}`: appends `{ev}` to the queue looked up under its own stream id (present-entry guard: {guarded})" if ok else
                   f"`{ast.unparse(c)}`: the queue was looked up under `{key}`, the event is `{ev}`, present-entry guard {guarded} - one stream would receive another stream's data, or events are dropped")
        routed = {id(st) for c, _, _, _ in via_get for st in [c]}
        for c in calls_named(f, "get"):
            if norm(c.func.value) == "self._events":
                arg = [norm(a) for a in c.args]
                if arg and arg[0].endswith(".stream_id") and any(k == arg[0] for _, k, _, _ in via_get):
                    continue   # judged with its append above
                rep.ob(rule, fkey(tree, f, norm(c)), arg == ["stream_id"], where(f, c), f"`{ast.unparse(c)}` looks up the routine's own stream id")


def _r8(ctx: Context, tree: str, N: Names, h11c, h2c) -> None:
    """Send-state fidelity.  h11's state advances when an event is handed to send(), *before* the bytes are
    written; the connection is only safe to reuse if a failed write stops the send phase."""
    rep = ctx.rep
    esc = ctx.escape
    feeders = []
    for f in h11c.methods.values():
        reach = ctx.callgraph.reachable([f])
        emits = any(any(e == "h11.Connection.send" for e in s.ext_targets()) for q in reach for s in ctx.callgraph.sites_of(ctx.callgraph.funcs[q]))
        if emits and f.name.startswith("_send"):
            feeders.append(f)
    rep.floor("C01.R8", f"HTTP/1.1 routines feeding h11.send ({tree})", len(feeders), 3)
    for f in sorted(feeders, key=lambda x: x.name):
        classes = esc.of(f).classes()
        ok = "WriteError" in classes and "WriteTimeout" in classes
        rep.ob("C01.R8", fkey(tree, f, "write-failure-escapes"), ok, where(f),
               "a failed network write leaves this routine (the send phase stops; h11 stays un-DONE and the connection is closed, not reused)" if ok else
               f"a failed network write is swallowed inside {f.short} (escapes: {sorted(c for c in classes if 'Write' in c)}): the send loop keeps feeding h11, whose our_state reaches DONE "
               "although the request never reached the wire - the half-sent connection goes back to IDLE and is handed to the next request")
    # the request routine may swallow WriteError only around the whole send phase, and nothing is sent afterwards
    hr = h11c.methods[N.t("handle_async_request")]
    cfg = ctx.cfg(hr)
    for h in [x for x in own_nodes(hr.node) if isinstance(x, ast.ExceptHandler) and "WriteError" in esc.handler_types(hr.module, x)]:
        hn = cfg._by_ast.get(id(h))
        if not hn:
            continue
        after = cfg.reachable([hn[0]], follow=lambda e: e.kind != "exc")
        resend = [n for n in cfg.nodes if n.id in after and n.ast is not None and n.kind == "stmt" and any(
            isinstance(c, ast.Call) and (chain(c.func) or [""])[-1] in {f.name for f in feeders} for c in ast.walk(n.ast))]
        rep.ob("C01.R8", fkey(tree, hr, "no-send-after-write-error"), not resend, where(hr, h),
               "after a swallowed WriteError nothing more is fed to h11 (the response is read and the connection closed)" if not resend else f"after a swallowed WriteError the routine sends again at line {resend[0].lineno}")
    # HTTP/2: network failures mark the connection errored and re-raise
    for name in ("_read_incoming_data", "_write_outgoing_data"):
        f = h2c.methods[name]
        hs = [h for h in own_nodes(f.node) if isinstance(h, ast.ExceptHandler) and "Exception" in esc.handler_types(f.module, h)]
        ok = False
        for h in hs:
            flag = any(isinstance(s_, ast.Assign) and norm(s_.targets[0]) == "self._connection_error" and norm(s_.value) == "True" for s_ in ast.walk(h))
            rer = any(isinstance(x, ast.Raise) for x in h.body)
            tr = parent(h)
            covers = isinstance(tr, ast.Try) and any(isinstance(c, ast.Call) and norm(c.func) in ("self._network_stream.read", "self._network_stream.write") for st in tr.body for c in ast.walk(st))
            ok = ok or (flag and rer and covers)
        rep.ob("C01.R8", fkey(tree, f, "error-flag"), ok, where(f), "a network failure marks the HTTP/2 connection errored (unavailable for new requests) and re-raises" if ok else
               f"{f.short}: a failed network operation does not set the connection-error flag / is not re-raised: the broken connection keeps accepting requests")


DICT_CREATORS = {"setdefault", "update", "__setitem__", "fromkeys"}
DICT_REMOVERS = {"pop", "popitem", "clear", "__delitem__"}


def stream_table_census(ctx: Context, rule: str, tree: str, N: Names, h2c) -> None:
    """Entries of the open-stream table are created only where a stream id is allocated (request routine) and
    removed only by the response-close routine: the ACTIVE -> IDLE transition and event routing depend on it."""
    rep = ctx.rep
    creators, removers = [], []
    for f in h2c.methods.values():
        if f.name == "__init__":
            continue
        for n in own_nodes(f.node):
            if isinstance(n, ast.Subscript) and norm(n.value) == "self._events" and isinstance(n.ctx, ast.Store):
                creators.append((f, n, "store"))
            elif isinstance(n, ast.Subscript) and norm(n.value) == "self._events" and isinstance(n.ctx, ast.Del):
                removers.append((f, n, "del"))
            elif isinstance(n, ast.Call) and isinstance(n.func, ast.Attribute) and norm(n.func.value) == "self._events":
                if n.func.attr in DICT_CREATORS:
                    creators.append((f, n, n.func.attr))
                elif n.func.attr in DICT_REMOVERS:
                    removers.append((f, n, n.func.attr))
            elif isinstance(n, ast.Attribute) and norm(n) == "self._events" and isinstance(n.ctx, ast.Store):
                creators.append((f, n, "rebind"))
    req = N.t("handle_async_request")
    for f, n, kind in creators:
        ok = f.name == req and kind == "store"
        rep.ob(rule, fkey(tree, f, f"stream-table-create:{kind}"), ok, where(f, n),
               "stream table entry created at stream allocation" if ok else
               f"`{ast.unparse(n)[:70]}` creates an open-stream table entry outside the stream allocation: an entry for a stream nobody owns is never removed, "
               "so the connection never looks idle again (and late frames of a closed stream are queued instead of dropped)")
    for f, n, kind in removers:
        ok = f.name == "_response_closed"
        rep.ob(rule, fkey(tree, f, f"stream-table-remove:{kind}"), ok, where(f, n),
               "stream table entry removed by the response-close routine" if ok else f"`{ast.unparse(n)[:70]}` removes an open-stream table entry outside _response_closed")
    if not creators:
        rep.ob(rule, fkey(tree, h2c.methods[req], "stream-table-create:none"), False, where(h2c.methods[req]), "no open-stream table entry is ever created")


def _r9(ctx: Context, tree: str, N: Names) -> None:
    """A class-level dict/list shared by all instances would route one connection's events / requests to another."""
    rep = ctx.rep
    n = 0
    for m in N.modules():
        for c in m.classes.values():
            init = c.methods.get("__init__")
            inst = set()
            if init is not None:
                for x in own_nodes(init.node):
                    if isinstance(x, ast.Attribute) and isinstance(x.ctx, ast.Store) and norm(x.value) == "self":
                        inst.add(x.attr)
            for name, val in c.class_assigns.items():
                mutable = isinstance(val, (ast.Dict, ast.List, ast.Set, ast.ListComp, ast.DictComp, ast.SetComp)) or (
                    isinstance(val, ast.Call) and norm(val.func) in ("dict", "list", "set", "collections.defaultdict", "defaultdict", "collections.deque", "deque"))
                if not mutable:
                    continue
                n += 1
                mutated = any(isinstance(x, ast.Attribute) and x.attr == name and norm(x.value) == "self" for f in c.methods.values() for x in own_nodes(f.node))
                ok = not mutated or name in inst
                rep.ob("C01.R9", fkey(tree, init or next(iter(c.methods.values())), f"class-level:{c.name}.{name}"), ok, f"{m.relpath}:{val.lineno}",
                       f"class-level container {c.name}.{name} is not used as per-instance state" if ok else
                       f"{c.name}.{name} is a class-level mutable container used through `self.{name}` and never re-bound in __init__: all instances share it - "
                       "events / requests of one connection are visible to every other connection")
    # the anchors themselves must be instance attributes
    for mod, cn, attrs in (("http2", "AsyncHTTP2Connection", ["_events", "_h2_state"]), ("http11", "AsyncHTTP11Connection", ["_h11_state"]),
                           ("connection_pool", "AsyncConnectionPool", ["_connections", "_requests"])):
        c = N.cls(mod, cn)
        init = c.methods["__init__"]
        inst = {x.attr for x in own_nodes(init.node) if isinstance(x, ast.Attribute) and isinstance(x.ctx, ast.Store) and norm(x.value) == "self"}
        for a in attrs:
            rep.ob("C01.R9", fkey(tree, init, f"instance-state:{a}"), a in inst, where(init), f"{cn}.{a} is created per instance in __init__" if a in inst else
                   f"{cn}.{a} is not created in __init__: instances share (or lack) it")


_core_run = run


def _closed_before_suspension(ctx: Context) -> None:
    """The close routine runs without any lock (the pool calls it on eviction).  The CLOSED state must be stored BEFORE the
    routine's first suspension point / blocking call: otherwise the connection still reports IDLE (HTTP/1.1) or available
    (HTTP/2) while its stream is being shut down, and a request that was already assigned to it passes the gate and is sent on
    a connection that is closing - "closed and never reused" is violated."""
    rep = ctx.rep
    for tree, N in trees(ctx):
        for mod, cn in (("http11", "AsyncHTTP11Connection"), ("http2", "AsyncHTTP2Connection")):
            c = N.cls(mod, cn)
            f = c.methods[N.t("aclose")] if N.t("aclose") in c.methods else c.methods.get("aclose") or c.methods.get("close")
            cfg = ctx.cfg(f)
            stores = [n for n in cfg.nodes if n.kind == "stmt" and isinstance(n.ast, ast.Assign) and norm(n.ast.targets[0]) == "self._state" and const_name(n.ast.value) == "CLOSED"]
            if not stores:
                rep.ob("C01.R10", fkey(tree, f, "closed-before-suspension"), False, where(f), f"{f.short} never stores CLOSED")
                continue
            sn = stores[0]
            early = [n for n in cfg.nodes if n is not sn and n.ast is not None and not cfg.dominates(sn, n)
                     and (n.may_cancel() or any(isinstance(x, ast.Call) and (chain(x.func) or [""])[-1] in ("aclose", "close") and (chain(x.func) or [""])[0] == "self" and len(chain(x.func) or []) > 2 for x in ast.walk(n.ast)))]
            rep.ob("C01.R10", fkey(tree, f, "closed-before-suspension"), not early, where(f, sn.ast),
                   f"{f.short} stores CLOSED before anything that suspends or blocks" if not early else
                   f"`{early[0].text()}` can run before {f.short} has stored CLOSED: during the close of the stream the connection still passes the request gate "
                   "and a request already assigned to it is sent on a connection that is being closed")


def run(ctx: Context) -> None:  # noqa: F811
    _core_run(ctx)
    ctx.rep.rule("C01.R10", "the lock-free close routine stores CLOSED before its first suspension point / blocking call")
    _closed_before_suspension(ctx)
    from . import support

    ctx.rep.rule('C01.R11', 'an unfinished exchange is closed when the caller lets go: the convenience API closes the response on every exit (the close path is what closes a connection that cannot be reused)')
    support.api_releases(ctx, 'C01.R11')


_core_run_r12 = run


def run(ctx: Context) -> None:  # noqa: F811
    _core_run_r12(ctx)
    from .c07 import locks_for

    rep = ctx.rep
    rep.rule("C01.R12", "the events of one network read reach the per-stream queues in arrival order: every append to a stream's queue (and the store of a received GOAWAY) "
                        "happens inside the read-lock region in which the batch was read - a batch carried out of the lock can be overtaken by the next reader's batch")
    n = 0
    for tree in ("async", "sync"):
        N = ctx.names(tree)
        L = locks_for(ctx, tree)
        h2 = N.cls("http2", "AsyncHTTP2Connection")
        lock = f"{h2.name}._read_lock"
        for f in h2.methods.values():
            for c in own_nodes(f.node):
                if not (isinstance(c, ast.Call) and isinstance(c.func, ast.Attribute) and c.func.attr in ("append", "appendleft", "extend") and len(c.args) == 1):
                    continue
                # a queue of the stream table: `self._events[..]` directly or through a local bound from it
                recv = c.func.value
                srcs = [norm(recv)] + [norm(a) for a in ctx.prov.expand(recv, f, c, depth=1)] if isinstance(recv, ast.Name) else [norm(recv)]
                if not any(s.startswith("self._events") for s in srcs):
                    continue
                n += 1
                held = L.must_hold(c, f)
                rep.ob("C01.R12", fkey(tree, f, f"enqueue-under-read-lock:{norm(c)[:40]}"), lock in held, where(f, c),
                       f"`{ast.unparse(c)}` holds {sorted(h.split('.')[-1] for h in held)}" + ("" if lock in held else
                       " - not the read lock: the batch this event belongs to was read under the lock but is dispatched after it was released; another task can read and enqueue the NEXT "
                       "batch first, so a stream's body arrives reordered (or its earlier part is dropped once the stream has ended)"))
    rep.floor("C01.R12", "appends to per-stream event queues (both trees)", n, 2)



_core_run_r13 = run


def run(ctx: Context) -> None:  # noqa: F811
    _core_run_r13(ctx)
    rep = ctx.rep
    rep.rule("C01.R13", "HTTP/1.1: the routine that ends an exchange does not itself consume response events.  h11 marks our side DONE when the last request event is HANDED to it, before the "
                        "bytes are written; the both-sides-DONE test of the IDLE transition is sound only because the peer's side can advance solely in the receive phase, which starts "
                        "after the send phase has completed - a close routine that reads (drains) can reach DONE/DONE after a failed or cancelled send and hand the connection on "
                        "with a half-sent request on the wire")
    n = 0
    for tree, N in trees(ctx):
        h11c = N.cls("http11", "AsyncHTTP11Connection")
        rc = h11c.methods.get(N.t("_response_closed"))
        if rc is None:
            raise AnalysisError("anchor vanished: _response_closed of the HTTP/1.1 connection")
        reach = ctx.callgraph.reachable([rc], stop=lambda g: g.cls is not h11c)
        n += 1
        bad = []

        def sent_flag_ok(fld: str) -> bool:
            """`self.<fld>` means `the whole request is on the wire`: reset at the start of every exchange, set True only where the last send has returned."""
            hr = h11c.methods[N.t("handle_async_request")]
            first_send = min([c.lineno for c in own_nodes(hr.node) if isinstance(c, ast.Call) and norm(c.func).startswith("self._send_request")] or [0])
            resets = [st for st in own_nodes(hr.node) if isinstance(st, ast.Assign) and norm(st.targets[0]) == f"self.{fld}" and isinstance(st.value, ast.Constant)
                      and st.value.value is False and st.lineno < first_send]
            trues = [(g_, st) for g_ in h11c.methods.values() for st in own_nodes(g_.node) if isinstance(st, ast.Assign) and norm(st.targets[0]) == f"self.{fld}"
                     and not (isinstance(st.value, ast.Constant) and st.value.value is False)]
            if not resets or not trues:
                return False
            for g_, st in trues:
                cfg_ = ctx.cfg(g_)
                sn = cfg_.nodes_for(st)
                last = [n_ for n_ in cfg_.nodes if n_.ast is not None and n_.kind == "stmt" and any(
                    isinstance(c_, ast.Call) and ((norm(c_.func) == "self._send_event" and "EndOfMessage" in ast.unparse(c_)) or norm(c_.func) == "self._send_request_body") for c_ in ast.walk(n_.ast))]
                if not sn or not last or not any(cfg_.dominates(l_, sn[0]) and l_ is not sn[0] for l_ in last):
                    return False
            return True
        for q, path in reach.items():
            g = ctx.callgraph.funcs.get(q)
            if g is None or g.cls is not h11c:
                continue
            for c in own_nodes(g.node):
                if isinstance(c, ast.Call) and norm(c.func) in ("self._h11_state.next_event", "self._h11_state.receive_data", "self._network_stream.read"):
                    # reading is sound where a flag says that the send phase has completed
                    flags = [norm(a)[5:] for t_, pol in guards_of(c) if pol for a, ap in conj_atoms(t_, True) if ap and norm(a).startswith("self._") and isinstance(a, ast.Attribute)]
                    if any(sent_flag_ok(fl) for fl in flags):
                        continue
                    bad.append((g, c, path))
        g0, c0, p0 = bad[0] if bad else (rc, None, [])
        rep.ob("C01.R13", fkey(tree, rc, "close-does-not-read"), not bad, where(g0, c0),
               "the response-close routine (and what it calls) never advances the peer side of the h11 state machine" if not bad else
               f"`{ast.unparse(c0)[:50]}` in {g0.short} is reachable from the response-close routine ({' > '.join(x.split(':')[-1] for x in p0)}): after a send that failed or was cancelled "
               "once h11 had already counted the request as complete, reading the (early) response here takes both sides to DONE - the connection becomes IDLE and the next "
               "request is written after an unterminated one")
    rep.floor("C01.R13", "HTTP/1.1 response-close routines (both trees)", n, 2)
