"""C14 - a request is put on the wire at most once unless the server refused it."""
from __future__ import annotations

import ast
import typing as T

from ..context import Context
from ..guards import guards_of
from ..load import AnalysisError, FuncInfo, Names, chain, norm, own_nodes, parent
from ..norm import conj_atoms
from .common import fkey, trees, where

EMIT_BOUNDARY = {"h11.Connection.send", "h2.connection.H2Connection.send_headers", "h2.connection.H2Connection.send_data",
                 "h2.connection.H2Connection.end_stream"}


def senders(ctx: Context, N: Names) -> list[FuncInfo]:
    """Request-emitting primitives: functions that hand request events to the protocol object."""
    out = []
    for f in N.functions():
        for s in ctx.callgraph.sites_of(f):
            if s.kind == "call" and any(e in EMIT_BOUNDARY for e in s.ext_targets()):
                out.append(f)
                break
    if len(out) < 4:
        raise AnalysisError(f"anchor lost: only {len(out)} request-emitting primitives located in the {N.tree} tree")
    return out


def send_reaching(ctx: Context, N: Names) -> dict[str, list[str]]:
    """Functions of the tree from which a request-emitting primitive is reachable (with one path)."""
    snd = {f.qual for f in senders(ctx, N)}
    cg = ctx.callgraph
    reach: dict[str, list[str]] = {}
    for f in N.functions():
        r = cg.reachable([f])
        hit = [q for q in r if q in snd]
        if hit:
            reach[f.qual] = r[hit[0]]
    return reach


def same_request(ctx: Context, s, f: FuncInfo) -> bool:
    """Does this send-reaching call transmit the *caller's own* request (as opposed to a request the
    function built itself, e.g. the tunnel's CONNECT)?"""
    call = s.node
    if not isinstance(call, ast.Call):
        return True
    for t in s.repo_targets():
        if "request" not in t.param_names():
            continue
        args = ctx.prov.arg(call, t, f, "request")
        if not args:
            return True
        for a in args:
            for alt in ctx.prov.expand(a, f, call):
                txt = norm(alt)
                if txt in ("request", "self._request", "pool_request.request", "self._pool_request.request"):
                    return True
                if txt.startswith("Request(") and "request.stream" in txt:
                    return True  # re-wrapped request carrying the caller's body (forward proxy)
        return False
    return True


def run(ctx: Context) -> None:
    rep = ctx.rep
    rep.explanation = (
        "R1: in the pool's request routine, the only handler from which control flows back to the retry loop's head catches exactly "
        "ConnectionNotAvailable. R2: census of every `raise ConnectionNotAvailable`; for each, a may-analysis over the CFG and the call "
        "graph decides whether a request-sending routine (the four routines that feed request.method/headers/stream into h11/h2) can have "
        "run earlier in the same call; where it can, the raise must be control-dependent on `stream_id > last_stream_id` of the stored "
        "GOAWAY. R3: census of loops that contain (transitively) a request-sending call: only the pool retry loop, the body-chunk loops and "
        "the frame-split loop are allowed; the connect-retry loop and the except-WriteError path contain none. R4: after the retry "
        "handler nothing is sent before the loop head re-runs the assignment."
    )
    rep.rule("C14.R1", "the pool repeats a request only from a handler catching exactly ConnectionNotAvailable")
    rep.rule("C14.R2", "ConnectionNotAvailable is raised only before any request data was sent, or under the GOAWAY last-stream-id guard")
    rep.rule("C14.R3", "loops containing a request-sending call are exactly the pool retry loop and the per-chunk / per-frame loops")
    for tree, N in trees(ctx):
        snd = senders(ctx, N)
        reach = send_reaching(ctx, N)
        cg = ctx.callgraph
        pool_f = N.func("connection_pool", "AsyncConnectionPool.handle_async_request")
        # ---- R1
        cfg = ctx.cfg(pool_f)
        loops = [n for n in own_nodes(pool_f.node) if isinstance(n, ast.While)
                 and any(any(t.qual in reach for t in s.repo_targets()) for s in cg.sites_in(n, pool_f))
                 and any(isinstance(x, ast.ExceptHandler) for x in ast.walk(n))]
        if not loops:
            raise AnalysisError(f"anchor vanished: pool retry loop in {pool_f.qual}")
        loop = loops[0]
        loop_node = cfg._by_ast[id(loop)][0]
        nh = 0
        for h in [x for x in own_nodes(loop) if isinstance(x, ast.ExceptHandler)]:
            hn = cfg._by_ast.get(id(h))
            if not hn:
                continue
            r = cfg.reachable([hn[0]], follow=lambda e: e.kind != "exc")
            if loop_node.id in r:
                nh += 1
                types_ = sorted(ctx.escape.handler_types(pool_f.module, h))
                rep.ob("C14.R1", fkey(tree, pool_f, f"retry-handler:{','.join(types_)}"), types_ == ["ConnectionNotAvailable"], where(pool_f, h),
                       f"handler that re-runs the request catches {types_}; must be exactly ['ConnectionNotAvailable']")
                sends_in_handler = [s for s in cg.sites_in(h, pool_f) if any(t.qual in reach for t in s.repo_targets())]
                rep.ob("C14.R1", fkey(tree, pool_f, "retry-handler-sends"), not sends_in_handler, where(pool_f, h),
                       "retry handler itself performs no request-sending call")
        rep.floor("C14.R1", f"handlers looping back in the pool retry loop ({tree})", nh, 1)
        # ---- R2
        sent_before = _sent_before_entry(ctx, N, reach)
        raises = []
        for f in N.functions():
            for n in own_nodes(f.node):
                if isinstance(n, ast.Raise) and n.exc is not None and "ConnectionNotAvailable" in norm(n.exc):
                    raises.append((f, n))
        rep.floor("C14.R2", f"raise sites of ConnectionNotAvailable ({tree})", len(raises), 4)
        for f, r in sorted(raises, key=lambda x: (x[0].qual, x[1].lineno)):
            may, why = _send_may_precede(ctx, f, r, reach, sent_before)
            if not may:
                rep.ob("C14.R2", fkey(tree, f, "raiseCNA-before-send"), True, where(f, r), "no request-sending call can precede this raise within the call")
                continue
            atoms = set()
            for test, pol in guards_of(r):
                for atom, p in conj_atoms(test, pol):
                    atoms.add((norm(atom), p))
            # some guard is `stream_id > X` (either operand order) where X - directly or through local temporaries - is the
            # last_stream_id of the stored GOAWAY
            guard_ok = prov_ok = False
            for test, pol in guards_of(r):
                for atom, p in conj_atoms(test, pol):
                    if not (p and isinstance(atom, ast.Compare) and len(atom.ops) == 1 and isinstance(atom.ops[0], (ast.Gt, ast.Lt))):
                        continue
                    big, small = (atom.left, atom.comparators[0]) if isinstance(atom.ops[0], ast.Gt) else (atom.comparators[0], atom.left)
                    if norm(big) != "stream_id":
                        continue
                    guard_ok = True
                    alts = [norm(a) for a in ctx.prov.expand(small, f, r, pure=True)] or [norm(small)]
                    if alts and all(a == "self._connection_terminated.last_stream_id" for a in alts):
                        prov_ok = True
            rep.ob("C14.R2", fkey(tree, f, "raiseCNA-after-send"), guard_ok and prov_ok, where(f, r),
                   f"request data may already be on the wire here ({why}); the raise is "
                   + ("guarded by stream_id > last_stream_id of the stored GOAWAY" if guard_ok and prov_ok else
                      f"NOT guarded by `stream_id > last_stream_id` of the stored GOAWAY (guards: {sorted(a for a, p in atoms if p)}) - the pool would re-send a request the server may have processed"))
        # ---- R3 loop census
        nloops = 0
        for f in N.functions():
            for n in own_nodes(f.node):
                if not isinstance(n, (ast.While, ast.For, ast.AsyncFor)):
                    continue
                body_sites = [s for st in n.body for s in cg.sites_in(st, f)]
                hits = [s for s in body_sites if any(t.qual in reach or t in snd for t in s.repo_targets()) or any(e in EMIT_BOUNDARY for e in s.ext_targets())]
                if not hits:
                    continue
                nloops += 1
                kind = _loop_kind(ctx, f, n, pool_f, loop)
                rep.ob("C14.R3", fkey(tree, f, f"loop:{norm(n.test)[:40] if isinstance(n, ast.While) else norm(n.iter)[:40]}"), kind is not None, where(f, n),
                       f"loop containing request-sending call `{hits[0].text()}`: " + (kind or "not one of the allowed loops (pool retry, per-chunk, per-frame) - a request could be transmitted more than once"))
        rep.floor("C14.R3", f"loops containing a send ({tree})", nloops, 3)
    rep.assume("a caller-supplied body iterator yields each chunk once (its state is outside the analysis)")


def _loop_kind(ctx: Context, f: FuncInfo, n: ast.AST, pool_f: FuncInfo, pool_loop: ast.While) -> str | None:
    if n is pool_loop:
        return "pool retry loop (R1 governs it)"
    if isinstance(n, (ast.For, ast.AsyncFor)) and norm(n.iter) == "request.stream":
        return "per-chunk loop over request.stream (distinct chunks)"
    if isinstance(n, ast.While) and isinstance(n.test, ast.Name):
        # frame split loop: `while data:` where the body rebinds data to a strict suffix of itself
        name = n.test.id
        for st in ast.walk(n):
            if isinstance(st, ast.Assign):
                tg = [t for t in ast.walk(st.targets[0]) if isinstance(t, ast.Name)]
                if any(t.id == name for t in tg) and f"{name}[" in norm(st.value):
                    return f"frame-split loop consuming `{name}`"
    return None


def _sent_before_entry(ctx: Context, N: Names, reach: dict[str, list[str]]) -> dict[str, str]:
    """Functions that can be *entered* after a request-sending call of the same request has run."""
    cg = ctx.callgraph
    funcs = {f.qual: f for f in N.functions()}
    out: dict[str, str] = {}
    changed = True
    while changed:
        changed = False
        for q, f in funcs.items():
            if q in out:
                continue
            for cs in cg.callers_of(f):
                g = cs.owner
                if g.qual not in funcs:
                    continue
                if g.qual in out:
                    out[q] = f"called from {g.short}, itself entered after a send"
                    changed = True
                    break
                may, why = _send_may_precede(ctx, g, cs.node, reach, {})
                if may:
                    out[q] = f"called from {g.short} after {why}"
                    changed = True
                    break
    # response-body iteration happens after the request was sent in full
    for q, f in funcs.items():
        if f.name in ("__aiter__", "__iter__") and f.cls is not None and f.cls.name.endswith("ByteStream") and q not in out:
            out[q] = "response body iteration (request already sent)"
    changed = True
    while changed:
        changed = False
        for q, f in funcs.items():
            if q in out:
                continue
            for cs in cg.callers_of(f):
                if cs.owner.qual in out:
                    out[q] = f"called from {cs.owner.short}: {out[cs.owner.qual]}"
                    changed = True
                    break
    return out


def _send_may_precede(ctx: Context, f: FuncInfo, node: ast.AST, reach: dict[str, list[str]], sent_before: dict[str, str]) -> tuple[bool, str]:
    if f.qual in sent_before:
        return True, sent_before[f.qual]
    cfg = ctx.cfg(f)
    targets = cfg.nodes_for(node)
    if not targets:
        return False, ""
    cg = ctx.callgraph
    send_nodes = []
    for n in cfg.nodes:
        if n.ast is None:
            continue
        if n in targets:
            continue
        anchor = n.ast
        sites = cg.sites_at(anchor) if isinstance(anchor, ast.withitem) else [s for x in ast.walk(anchor if not isinstance(anchor, (ast.If, ast.While, ast.For, ast.AsyncFor, ast.ExceptHandler)) else (
            anchor.test if isinstance(anchor, (ast.If, ast.While)) else (anchor.iter if isinstance(anchor, (ast.For, ast.AsyncFor)) else ast.Pass()))) for s in cg.sites_at(x)]
        for s in sites:
            if s.owner is f and any(t.qual in reach for t in s.repo_targets()) and same_request(ctx, s, f):
                send_nodes.append((n, s))
    flag = _sent_flag(ctx, f, node, cfg, [n for n, _ in send_nodes])
    for n, s in send_nodes:
        r = cfg.reachable([n])
        if any(t.id in r for t in targets):
            if flag is not None and flag(n, s):
                continue
            return True, f"`{s.text()}` at line {n.lineno} of {f.short}"
    return False, ""


def _anchor(a: ast.AST) -> ast.AST:
    """The part of a statement a CFG node stands for (the test of a compound statement, not its body)."""
    if isinstance(a, ast.withitem):
        return a.context_expr
    if isinstance(a, (ast.If, ast.While)):
        return a.test
    if isinstance(a, (ast.For, ast.AsyncFor)):
        return a.iter
    if isinstance(a, (ast.ExceptHandler, ast.Try, ast.With, ast.AsyncWith)):
        return ast.Pass()
    return a


def _sent_flag(ctx: Context, f: FuncInfo, raise_node: ast.AST, cfg, send_nodes: list) -> T.Any:
    """`sent = False` before the sends, `sent = True` when a send has returned, and the raise under `not sent` (and under a test of the caught class): the raise follows a
    send only through an exception raised INSIDE that send.  That is still `nothing sent` when, in the sending routine, no operation that can raise the tested class comes
    after a network write (h2 refuses `send_headers` before it queues anything).  Returns a predicate (send node, site) -> `cannot have put data on the wire before
    this raise`, or None if the raise is not guarded by such a flag."""
    esc = ctx.escape
    gs = guards_of(raise_node)
    flags = [norm(t.operand) for t, pol in gs if pol and isinstance(t, ast.UnaryOp) and isinstance(t.op, ast.Not) and isinstance(t.operand, ast.Name)] + \
            [norm(t) for t, pol in gs if not pol and isinstance(t, ast.Name)]
    cls_tests = [t for t, pol in gs if pol and isinstance(t, ast.Call) and norm(t.func) == "isinstance" and len(t.args) == 2]
    if not flags or not cls_tests:
        return None
    x = flags[0]
    stores = [n for n in cfg.nodes if n.kind == "stmt" and isinstance(n.ast, ast.Assign) and len(n.ast.targets) == 1 and norm(n.ast.targets[0]) == x]
    falses = [n for n in stores if isinstance(n.ast.value, ast.Constant) and n.ast.value.value is False]
    trues = [n for n in stores if isinstance(n.ast.value, ast.Constant) and n.ast.value.value is True]
    if not falses or not trues or len(falses) + len(trues) != len(stores):
        return None
    after_send = set()
    for sn in send_nodes:
        after_send |= cfg.reachable([sn])
    if any(fn.id in after_send for fn in falses):
        return None                 # the flag can be reset after a send
    tested = []
    for t in cls_tests:
        ts = t.args[1]
        for e in (ts.elts if isinstance(ts, ast.Tuple) else [ts]):
            nm = esc.exc_name(f.module, e)
            if nm is None:
                return None
            tested.append(nm)

    def quiet_inside(site) -> bool:
        # in the routine(s) the send goes through: nothing that can raise a tested class is reachable from a node that (transitively) writes to the network
        cg = ctx.callgraph
        for t in site.repo_targets():
            reach_t = cg.reachable([t])
            for q in reach_t:
                g = cg.funcs.get(q)
                if g is None:
                    continue
                gcfg = ctx.cfg(g)
                writes = [n for n in gcfg.nodes if n.ast is not None and any(
                    isinstance(c, ast.Call) and (norm(c.func).endswith("_network_stream.write") or any(
                        any(norm(c2.func).endswith("_network_stream.write") for c2 in own_nodes(cg.funcs[q2].node) if isinstance(c2, ast.Call))
                        for t2 in [tt for s2 in cg.sites_at(c) for tt in s2.repo_targets()] for q2 in cg.reachable([t2]) if q2 in cg.funcs))
                    for c in ast.walk(_anchor(n.ast)) if isinstance(c, ast.Call))]
                if not writes:
                    continue
                after_w = set()
                for w in writes:
                    after_w |= gcfg.reachable([e.dst for e in w.succ if e.kind != "exc"], follow=lambda e: e.kind != "exc")
                for n in gcfg.nodes:
                    if n.id in after_w and any(esc.is_sub(c, k) for c in n.raises.classes() for k in tested):
                        return False
        return True

    def pred(n, site) -> bool:
        # the send lies after the flag was set: the raise under `not flag` cannot follow it
        if any(cfg.dominates(tn, n) and tn is not n for tn in trues):
            return True
        # the send completes into `flag = True` on every normal path to the raise; the exceptional way out is quiet
        normal = cfg.reachable([e.dst for e in n.succ if e.kind != "exc"], follow=lambda e: e.kind != "exc", stop=lambda m: any(m is tn for tn in trues))
        targets = cfg.nodes_for(raise_node)
        if any(t.id in normal for t in targets):
            return False
        return quiet_inside(site)
    return pred



_core_run_r5 = run


def run(ctx: Context) -> None:  # noqa: F811
    _core_run_r5(ctx)
    from . import c01

    if ctx.rep._borrow is not None:
        return          # already running as a lender: no chains
    with ctx.rep.borrow({"C01.R4": ("C14.R5", "a request refused by GOAWAY is re-sent on ANOTHER connection: a connection whose h2 state machine has seen GOAWAY is not available, "
                                               "so the pool's retry cannot put the request back onto it:")}):
        c01.run(ctx)
