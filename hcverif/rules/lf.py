"""Lossless-flow (LF) helpers shared by C02, C03, C13, C17: on every non-raising path through one
iteration the element - or every piece of its split - reaches the sink exactly once, in order;
only truthiness guards on the element itself are tolerated."""
from __future__ import annotations

import ast
import typing as T

from ..context import Context
from ..guards import guards_of
from ..load import FuncInfo, chain, norm, own_nodes, parent
from ..norm import canon_atom, conj_atoms


def loops_of(f: FuncInfo) -> list[ast.AST]:
    return sorted([n for n in own_nodes(f.node) if isinstance(n, (ast.For, ast.AsyncFor, ast.While))], key=lambda n: n.lineno)


def local_guards(node: ast.AST, within: ast.AST) -> set[str]:
    """Canonical guard atoms of `node` that are established inside `within` (a loop or function)."""
    inner = {id(x) for x in ast.walk(within)}
    out = set()
    for test, pol in guards_of(node):
        if id(getattr(test, "_orig", test)) in inner:
            for a, p in conj_atoms(test, pol):
                out.add(canon_atom(a, p))
    return out


def is_truthiness_of(atom: str, elem: str) -> bool:
    return atom in (elem, f"len({elem})>0", f"0<len({elem})", f"len({elem})!=0", f"0!=len({elem})", f"not:not{elem}", f"{elem}!=b''", f"b''!={elem}")


def passthrough(ctx: Context, rule: str, tree: str, f: FuncInfo, loop: ast.For | ast.AsyncFor, sink: T.Callable[[ast.AST], str | None],
                what: str, allow_guards: T.Callable[[str], bool] = lambda a: False) -> None:
    """Every element of the loop reaches the sink exactly once with no guard except truthiness of the element."""
    from .common import fkey, where

    rep = ctx.rep
    elem = norm(loop.target)
    hits = []
    for n in ast.walk(loop):
        s = sink(n)
        if s is not None:
            hits.append((n, s))
    key = fkey(tree, f, f"{what}:{norm(loop.iter)[:40]}")
    if len(hits) != 1:
        rep.ob(rule, key, False, where(f, loop), f"{what}: the loop over `{ast.unparse(loop.iter)}` has {len(hits)} sink(s) for its element (exactly one expected): elements are dropped or duplicated")
        return
    node, arg = hits[0]
    extra = [a for a in local_guards(node, loop) if not is_truthiness_of(a, elem) and not allow_guards(a)]
    exits = [x for x in ast.walk(loop) if isinstance(x, (ast.Break, ast.Continue, ast.Return)) and x is not node]
    ok = arg == elem and not extra and not exits
    rep.ob(rule, key, ok, where(f, node),
           f"{what}: every `{elem}` of `{ast.unparse(loop.iter)[:50]}` reaches the sink once" if ok else
           f"{what}: element `{elem}` reaches the sink as `{arg}` under extra guards {extra} with early exits {[type(x).__name__ for x in exits]} - data is lost, altered or reordered")


def yield_sink(n: ast.AST) -> str | None:
    if isinstance(n, ast.Yield) and n.value is not None:
        return norm(n.value)
    return None


def call_sink(name: str, argpos: int | None = None, kw: str | None = None) -> T.Callable[[ast.AST], str | None]:
    def sink(n: ast.AST) -> str | None:
        if isinstance(n, ast.Call) and (chain(n.func) or [""])[-1] == name:
            if kw is not None:
                for k in n.keywords:
                    if k.arg == kw:
                        return norm(k.value)
            if argpos is not None and len(n.args) > argpos:
                return norm(n.args[argpos])
            return "?"
        return None
    return sink


def split_lossless(ctx: Context, rule: str, tree: str, f: FuncInfo, var: str, what: str) -> None:
    """`head, var = var[:n], var[n:]` (or two statements) with one and the same bound n."""
    from .common import fkey, where

    rep = ctx.rep
    heads, tails = [], []
    for n in own_nodes(f.node):
        if isinstance(n, ast.Assign):
            tg = n.targets[0]
            pairs = list(zip(tg.elts, n.value.elts)) if isinstance(tg, ast.Tuple) and isinstance(n.value, ast.Tuple) and len(tg.elts) == len(n.value.elts) else [(tg, n.value)]
            for t_, v in pairs:
                if isinstance(v, ast.Subscript) and isinstance(v.slice, ast.Slice) and norm(v.value) == var and v.slice.step is None:
                    if v.slice.lower is None and v.slice.upper is not None:
                        heads.append((norm(t_), norm(v.slice.upper), n))
                    elif v.slice.upper is None and v.slice.lower is not None:
                        tails.append((norm(t_), norm(v.slice.lower), n))
    ok = len(heads) == 1 and len(tails) == 1 and heads[0][1] == tails[0][1] and tails[0][0] == var and heads[0][0] != var
    if ok:
        # head must be taken before (or together with) the tail rebinding
        ok = heads[0][2].lineno <= tails[0][2].lineno
    rep.ob(rule, fkey(tree, f, f"{what}:{var}"), ok, where(f, heads[0][2] if heads else None),
           f"{what}: `{var}` is split into [:n] and [n:] with the same bound `{heads[0][1]}`" if ok else
           f"{what}: split of `{var}` is not lossless (heads {[(h[0], h[1]) for h in heads]}, tails {[(t[0], t[1]) for t in tails]}): bytes are lost or duplicated at the cut")
