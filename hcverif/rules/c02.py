"""C02 - responses are delivered byte-exact, independent of network segmentation (glue is lossless)."""
from __future__ import annotations

import ast

from ..context import Context
from ..guards import guards_of
from ..load import AnalysisError, FuncInfo, Names, chain, norm, own_nodes, parent
from ..norm import canon_atom, conj_atoms, guard_atoms
from .c15 import _eof
from .common import calls_named, fkey, trees, where
from .lf import call_sink, local_guards, loops_of, passthrough, yield_sink


def _exit_guards(loop: ast.AST) -> list[set[str]]:
    """One atom set per way of leaving the loop: exits merged into `if A or B: break` are split into their alternatives."""
    from ..guards import guards_of
    from ..norm import guard_alternatives

    inner = {id(x) for x in ast.walk(loop)}
    out = []
    if isinstance(loop, ast.While) and not (isinstance(loop.test, ast.Constant) and loop.test.value is True):
        out.extend(guard_alternatives([(loop.test, False)]))     # leaving through the loop condition
    for x in ast.walk(loop):
        if isinstance(x, (ast.Break, ast.Return)):
            gs = [(t, p) for t, p in guards_of(x) if id(getattr(t, "_orig", t)) in inner]
            out.extend(guard_alternatives(gs))
    return out


def run(ctx: Context) -> None:
    rep = ctx.rep
    rep.explanation = (
        "Segmentation independence itself is a property of the h11 / h2 parsers (not decided). The glue between socket and caller must be "
        "lossless, which is structural: R1 every network read result reaches the parser on every path (the HTTP/1.1 feed is unconditional "
        "because b'' is the EOF signal) and every event of a returned batch is dispatched; R2 body loops yield each data event exactly "
        "once and leave only on the end-of-message events; a reset stream raises; R3 the header loops leave only on the final response "
        "(or 101); R4 all pass-through generators and joins forward every element unconditionally (a truthiness guard on the element is "
        "tolerated); R5 EOF disposition of every read; R6 status / version / reason / headers are taken from the event unchanged "
        "(raw_items() for HTTP/1.1, every non-pseudo header in order for HTTP/2)."
    )
    for r, t in (("C02.R1", "read result reaches the parser; batch fully dispatched"), ("C02.R2", "body loops: one yield per data event, exit only on end events"),
                 ("C02.R3", "header loop exit set"), ("C02.R4", "pass-through generators are lossless"), ("C02.R5", "EOF disposition"),
                 ("C02.R6", "head fields delivered as sent")):
        rep.rule(r, t)
    models = ctx.prog.module("httpcore._models")
    for tree, N in trees(ctx):
        t = N.t
        h11 = N.cls("http11", "AsyncHTTP11Connection")
        h2 = N.cls("http2", "AsyncHTTP2Connection")
        _eof(ctx, tree, N, rule="C02.R5")
        # ---- R1 batch dispatch (HTTP/2)
        re_ = h2.methods["_receive_events"]
        ev_loops = [l for l in loops_of(re_) if isinstance(l, (ast.For, ast.AsyncFor)) and (norm(l.iter) == "events" or "self._read_incoming_data(" in norm(l.iter))]
        rep.floor("C02.R1", f"event dispatch loop ({tree})", len(ev_loops), 1)
        for l in ev_loops:
            src = [norm(a).replace("await", "") for a in ctx.prov.expand(l.iter, re_, l)]
            rep.ob("C02.R1", fkey(tree, re_, "batch-source"), src == ["self._read_incoming_data(request)"], where(re_, l), f"dispatched batch <- {src}")
            apps = [c for c in ast.walk(l) if isinstance(c, ast.Call) and isinstance(c.func, ast.Attribute) and c.func.attr == "append" and "self._events" in norm(c.func.value)]
            from .c01 import queue_appends_via_get

            via_get = [x for x in queue_appends_via_get(re_) if any(x[0] is y for y in ast.walk(l)) and x[1] == "event.stream_id" and x[3]]
            present_guard = {"event.stream_idinself._events"}
            if not apps and len(via_get) == 1:
                apps = [via_get[0][0]]
                v = via_get[0][0].func.value.id
                present_guard = {f"None!={v}", f"{v}!=None"}
            ok = len(apps) == 1
            if ok:
                g = local_guards(apps[0], l)
                types_ = [a for a in g if a.startswith("isinstance(event,")]
                others = [a for a in g if not a.startswith("isinstance(event,") and a not in present_guard and not a.startswith("not:isinstance(event,")]
                need = {"ResponseReceived", "DataReceived", "StreamEnded", "StreamReset"}
                ok = bool(types_) and all(n in types_[0] for n in need) and not others and [norm(a) for a in apps[0].args] == ["event"]
            exits = [x for x in ast.walk(l) if isinstance(x, (ast.Break, ast.Return, ast.Continue))]
            rep.ob("C02.R1", fkey(tree, re_, "batch-dispatch"), ok and not exits, where(re_, l),
                   "every stream event of the batch is queued (guarded only by its type and by the stream being registered)" if ok and not exits else "stream events of a read batch can be skipped")
        if tree == "async":
            # once h2 has parsed a segment, the bytes are gone: the whole batch must reach the stream queues without a point
            # at which the reading task can be cancelled (the events of OTHER streams would be silently lost)
            rdf = h2.methods["_read_incoming_data"]
            cfg_r = ctx.cfg(rdf)
            pn = [n for n in cfg_r.nodes if n.ast is not None and n.kind == "stmt" and any(isinstance(c, ast.Call) and norm(c.func) == "self._h2_state.receive_data" for c in ast.walk(n.ast))]
            bad = []
            if pn:
                r = cfg_r.reachable([e.dst for e in pn[0].succ if e.kind != "exc"], follow=lambda e: e.kind != "exc")
                bad = [n for n in cfg_r.nodes if n.id in r and n.may_cancel()]
            rep.ob("C02.R1", fkey(tree, rdf, "parse-to-return-atomic"), bool(pn) and not bad, where(rdf, bad[0].ast if bad else None),
                   "no cancellation point between receive_data() and handing the parsed batch back" if not bad else
                   f"cancellation point `{bad[0].text()}` after receive_data(): a reader cancelled there drops the whole parsed batch - DATA of other streams is lost and their bodies end silently short")
            cfg_e = ctx.cfg(re_)
            en = [n for n in cfg_e.nodes if n.kind == "stmt" and isinstance(n.ast, ast.Assign) and norm(n.ast.targets[0]) == "events"]
            bad = []
            if en and ev_loops:
                loop_ids = {id(x) for x in ast.walk(ev_loops[0])}
                for n in cfg_e.nodes:
                    a = n.ast.context_expr if isinstance(n.ast, ast.withitem) else n.ast
                    if a is not None and id(a) in loop_ids and n.may_cancel():
                        bad.append(n)
            rep.ob("C02.R1", fkey(tree, re_, "batch-dispatch-atomic"), bool(en) and not bad, where(re_, bad[0].ast if bad else None),
                   "the dispatch loop over a parsed batch contains no cancellation point" if not bad else
                   f"cancellation points inside the dispatch loop over an already parsed batch ({[b.text()[:50] for b in bad[:4]]}): if the reading task is cancelled there, "
                   "the not yet dispatched events - DATA of other streams - are dropped and those responses complete silently short", [b.text() for b in bad])
        rd = h2.methods["_read_incoming_data"]
        rets = [norm(r.value) for r in own_nodes(rd.node) if isinstance(r, ast.Return) and r.value is not None]
        src = [norm(a) for r in own_nodes(rd.node) if isinstance(r, ast.Return) and r.value is not None for a in ctx.prov.expand(r.value, rd, r, depth=1)]
        rep.ob("C02.R1", fkey(tree, rd, "returns-all-events"), src == ["self._h2_state.receive_data(data)"], where(rd), f"_read_incoming_data returns {src}")
        # ---- R2 body loops
        b11 = h11.methods["_receive_response_body"]
        for l in [x for x in loops_of(b11) if isinstance(x, ast.While)]:
            ys = [y for y in ast.walk(l) if isinstance(y, ast.Yield)]
            # negative tests for OTHER event classes (the end-of-body test placed first) add nothing: the classes are disjoint
            lg11 = {a for a in local_guards(ys[0], l) if not (a.startswith("not:isinstance(event,") and "h11.Data" not in a)} if ys else set()
            ok = len(ys) == 1 and norm(ys[0].value) in ("bytes(event.data)", "event.data") and lg11 == {"isinstance(event,h11.Data)"}
            rep.ob("C02.R2", fkey(tree, b11, "h11-body-yield"), ok, where(b11, ys[0] if ys else l), "each h11.Data event is yielded once, unconditionally" if ok else f"HTTP/1.1 body loop: yields {[norm(y.value) for y in ys]} under {[sorted(local_guards(y, l)) for y in ys]}")
            eg = _exit_guards(l)
            okx = len(eg) == 1 and any(a.startswith("isinstance(event,") and "h11.EndOfMessage" in a and "h11.PAUSED" in a for a in eg[0]) and \
                all(a.startswith("isinstance(event,") or a.startswith("not:isinstance(event,") for a in eg[0])
            rep.ob("C02.R2", fkey(tree, b11, "h11-body-exit"), okx, where(b11, l), "the body loop ends only on EndOfMessage / PAUSED" if okx else f"HTTP/1.1 body loop exits under {[sorted(g) for g in eg]}: a body can end early (silently truncated)")
            srcs = [norm(a).replace("await", "") for n in ast.walk(l) if isinstance(n, ast.Assign) and norm(n.targets[0]) == "event" for a in [n.value]]
            rep.ob("C02.R2", fkey(tree, b11, "h11-body-source"), srcs == ["self._receive_event(timeout=timeout)"], where(b11, l), f"events come from {srcs}")
        b2 = h2.methods["_receive_response_body"]
        for l in [x for x in loops_of(b2) if isinstance(x, ast.While)]:
            ys = [y for y in ast.walk(l) if isinstance(y, ast.Yield)]
            lg = local_guards(ys[0], l) if ys else set()
            # negative tests for OTHER event classes (reordered elif branches) add nothing: the classes are disjoint
            lg_eff = {a for a in lg if not (a.startswith("not:isinstance(event,h2.events.") and "DataReceived" not in a)}
            ok = len(ys) == 1 and norm(ys[0].value) == "event.data" and lg_eff == {"isinstance(event,h2.events.DataReceived)"}
            rep.ob("C02.R2", fkey(tree, b2, "h2-body-yield"), ok, where(b2, ys[0] if ys else l), "each DataReceived event is yielded once" if ok else f"HTTP/2 body loop: yields {[norm(y.value) for y in ys]} under {[sorted(local_guards(y, l)) for y in ys]}")
            eg = _exit_guards(l)
            okx = len(eg) == 1 and "isinstance(event,h2.events.StreamEnded)" in eg[0] and all("isinstance(event," in a for a in eg[0])
            rep.ob("C02.R2", fkey(tree, b2, "h2-body-exit"), okx, where(b2, l), "the body loop ends only on StreamEnded" if okx else f"HTTP/2 body loop exits under {[sorted(g) for g in eg]}")
        se = h2.methods["_receive_stream_event"]
        rs = [r for r in own_nodes(se.node) if isinstance(r, ast.Raise) and "RemoteProtocolError" in norm(r)]
        ok = bool(rs) and "isinstance(event,h2.events.StreamReset)" in guard_atoms(guards_of(rs[0]))
        # FIFO: the queue kind is read off the stores into the stream table (`[]` -> list, taken with pop(0); `deque()` -> taken with popleft())
        kinds = set()
        for m_ in h2.methods.values():
            for a_ in own_nodes(m_.node):
                if isinstance(a_, ast.Assign) and any(isinstance(t_, ast.Subscript) and norm(t_.value) == "self._events" for t_ in a_.targets):
                    v_ = norm(a_.value)
                    kinds.add("list" if v_ == "[]" else "deque" if v_ in ("deque()", "collections.deque()") else v_)
        takes = [c for c in own_nodes(se.node) if isinstance(c, ast.Call) and isinstance(c.func, ast.Attribute) and norm(c.func.value) == "self._events[stream_id]" and c.func.attr in ("pop", "popleft")]
        fifo = len(kinds) == 1 and len(takes) >= 1 and all((kinds == {"list"} and c.func.attr == "pop" and [norm(a) for a in c.args] == ["0"]) or
                                                            (kinds == {"deque"} and c.func.attr == "popleft" and not c.args) for c in takes)
        rep.ob("C02.R2", fkey(tree, se, "reset-raises"), ok and fifo, where(se), "events are taken in arrival order (pop(0) of a list / popleft() of a deque) and a reset stream raises RemoteProtocolError"
               if ok and fifo else f"queue kind {sorted(kinds)}, taken with {[norm(c) for c in takes]}; reset raises: {ok}")
        # ---- R3 header loops
        hh = h11.methods["_receive_response_headers"]
        for l in [x for x in loops_of(hh) if isinstance(x, ast.While)]:
            eg = _exit_guards(l)
            a_ok = any(g == {"isinstance(event,h11.Response)"} for g in eg)
            b_ok = any({"isinstance(event,h11.InformationalResponse)", "101==event.status_code"} <= g for g in eg)
            only = all(g == {"isinstance(event,h11.Response)"} or ({"isinstance(event,h11.InformationalResponse)", "101==event.status_code"} <= g and
                       all(x in ("isinstance(event,h11.InformationalResponse)", "101==event.status_code", "not:isinstance(event,h11.Response)") for x in g)) for g in eg)
            rep.ob("C02.R3", fkey(tree, hh, "h11-header-exit"), a_ok and b_ok and only, where(hh, l),
                   "the header loop leaves only on the final response or a 101" if a_ok and b_ok and only else f"HTTP/1.1 header loop exits under {[sorted(g) for g in eg]}: an interim 1xx could be returned as the final response")
        h2r = h2.methods["_receive_response"]
        for l in [x for x in loops_of(h2r) if isinstance(x, ast.While)]:
            eg = _exit_guards(l)
            rep.ob("C02.R3", fkey(tree, h2r, "h2-header-exit"), eg == [{"isinstance(event,h2.events.ResponseReceived)"}], where(h2r, l), f"HTTP/2 header loop exits under {[sorted(g) for g in eg]}")
        # ---- R4 pass-through
        npass = 0
        for mod, cn, m, src_ok in (("http11", "HTTP11ConnectionByteStream", "__aiter__", None), ("http2", "HTTP2ConnectionByteStream", "__aiter__", None),
                                   ("connection_pool", "PoolByteStream", "__aiter__", None)):
            f = N.func(mod, f"{cn}.{m}")
            for l in [x for x in loops_of(f) if isinstance(x, (ast.For, ast.AsyncFor))]:
                npass += 1
                passthrough(ctx, "C02.R4", tree, f, l, yield_sink, "pass-through")
        rep.floor("C02.R4", f"pass-through byte-stream loops ({tree})", npass, 3)
        # ---- R6 head fields
        rt = [r for r in own_nodes(hh.node) if isinstance(r, ast.Return) and r.value is not None]
        if rt:
            alts = [[norm(a).replace('self._receive_event(timeout=timeout)', 'event') for a in ctx.prov.expand(e, hh, rt[0], depth=1)] for e in rt[0].value.elts] if isinstance(rt[0].value, ast.Tuple) else []
            want = [["b'HTTP/'+event.http_version"], ["event.status_code"], ["event.reason"], ["event.headers.raw_items()"], ["__unpack__(self._h11_state.trailing_data)[0]"]]
            rep.ob("C02.R6", fkey(tree, hh, "h11-head-fields"), alts == want, where(hh, rt[0]), f"head fields <- {alts}")
        f11 = h11.methods[t("handle_async_request")]
        unp = [n for n in own_nodes(f11.node) if isinstance(n, ast.Assign) and isinstance(n.targets[0], ast.Tuple) and "_receive_response_headers" in norm(n.value)]
        oku = bool(unp) and [norm(e) for e in unp[0].targets[0].elts] == ["http_version", "status", "reason_phrase", "headers", "trailing_data"]
        resp = [c for c in own_nodes(f11.node) if isinstance(c, ast.Call) and norm(c.func) == "Response"]
        okr = False
        if resp:
            kw = {k.arg: k.value for k in resp[0].keywords}
            ext = kw.get("extensions")
            if isinstance(ext, ast.Name):
                # the mapping built in a local first
                ea = ctx.prov.expand(ext, f11, resp[0], depth=1)
                ext = ea[0] if len(ea) == 1 else ext
            extd = {k.value: norm(v) for k, v in zip(ext.keys, ext.values)} if isinstance(ext, ast.Dict) else {}
            okr = norm(kw.get("status")) == "status" and norm(kw.get("headers")) == "headers" and extd.get("http_version") == "http_version" and extd.get("reason_phrase") == "reason_phrase"
        rep.ob("C02.R6", fkey(tree, f11, "h11-response-fields"), oku and okr, where(f11, resp[0] if resp else None), "status, headers, version and reason are passed to the Response unchanged")
        hl = [l for l in loops_of(h2r) if isinstance(l, ast.For) and norm(l.iter) == "event.headers"]
        okh = False
        if hl:
            apps = [c for c in ast.walk(hl[0]) if isinstance(c, ast.Call) and norm(c.func) == "headers.append"]
            g = local_guards(apps[0], hl[0]) if apps else set()
            okh = len(apps) == 1 and [norm(a) for a in apps[0].args] == ["(k,v)"] and norm(hl[0].target) == "(k,v)" and "not:k.startswith(b':')" in g and \
                all(a in ("not:k.startswith(b':')", "b':status'!=k") for a in g) and not [x for x in ast.walk(hl[0]) if isinstance(x, (ast.Break, ast.Continue))]
        rep.ob("C02.R6", fkey(tree, h2r, "h2-headers"), okh, where(h2r, hl[0] if hl else None), "every non-pseudo header is appended in order, unchanged" if okh else "HTTP/2 header list is filtered, altered or reordered")
    # shared model pass-throughs (not tree specific)
    resp_c = models.classes["Response"]
    for m in ("iter_stream", "aiter_stream"):
        f = resp_c.methods[m]
        for l in [x for x in loops_of(f) if isinstance(x, (ast.For, ast.AsyncFor))]:
            passthrough(ctx, "C02.R4", "shared", f, l, yield_sink, "pass-through")
    for m in ("read", "aread"):
        f = resp_c.methods[m]
        joins = [c for c in own_nodes(f.node) if isinstance(c, ast.Call) and norm(c.func) == "b''.join"]
        ok = len(joins) == 1 and isinstance(joins[0].args[0], (ast.ListComp, ast.GeneratorExp)) and not joins[0].args[0].generators[0].ifs and \
            norm(joins[0].args[0].elt) == norm(joins[0].args[0].generators[0].target) and norm(joins[0].args[0].generators[0].iter) in ("self.iter_stream()", "self.aiter_stream()")
        # the synchronous flavour may hand the iterator to join() directly (join materialises it)
        ok = ok or (len(joins) == 1 and len(joins[0].args) == 1 and m == "read" and norm(joins[0].args[0]) in ("self.iter_stream()", "list(self.iter_stream())"))
        rep.ob("C02.R4", f"shared|Response.{m}|join", ok, where(f), "read() joins every chunk of the stream in order")
    bs = models.classes["ByteStream"]
    for m in ("__iter__", "__aiter__"):
        ys = [norm(y.value) for y in own_nodes(bs.methods[m].node) if isinstance(y, ast.Yield)]
        rep.ob("C02.R4", f"shared|ByteStream.{m}|yield", ys == ["self._content"], where(bs.methods[m]), f"ByteStream yields {ys}")

_core_run = run


def run(ctx: Context) -> None:  # noqa: F811
    _core_run(ctx)
    from . import backend

    ctx.rep.rule('C02.R7', "each real backend's read() returns the bytes of exactly one receive primitive, unmodified (b'' only at end of stream)")
    backend.read_passthrough(ctx, 'C02.R7')
    ctx.rep.explanation = (ctx.rep.explanation or '') + " R7 (transport layer): every real backend stream's read() returns the result of one receive primitive unmodified."



_core_run_r8 = run


def run(ctx: Context) -> None:  # noqa: F811
    _core_run_r8(ctx)
    from . import c13

    if ctx.rep._borrow is not None:
        return          # already running as a lender: no chains
    with ctx.rep.borrow({"C13.R5": ("C02.R8", "a well-formed HTTP/2 response is delivered in full however the server frames it: every DATA frame's flow-controlled length (payload AND padding) "
                                               "is returned as credit on its own stream and flushed - otherwise padded responses close the window and the body never completes:")}):
        c13.run(ctx)



_core_run_r9 = run


def run(ctx: Context) -> None:  # noqa: F811
    _core_run_r9(ctx)
    if ctx.rep._borrow is not None:
        return
    from .c12 import read_recheck

    read_recheck(ctx, "C02.R9", "the response is delivered however the transport splits the byte stream across reads: when one segment carries the frames of two streams, the "
                                "second caller finds its response in its queue instead of waiting for bytes that were already consumed")



_core_run_r10 = run


def run(ctx: Context) -> None:  # noqa: F811
    _core_run_r10(ctx)
    if ctx.rep._borrow is not None:
        return
    from . import support

    ctx.rep.rule("C02.R10", "a truncated or failed body read ends with an exception, never with a short body: the body loops run inside `with Trace(...)`, "
                            "and no context manager of the package can suppress the exception raised in its block")
    support.exits_never_suppress(ctx, "C02.R10")
