"""C13 - HTTP/2 flow control is obeyed and never starves a transfer (structural conditions)."""
from __future__ import annotations

import ast

from ..context import Context
from ..guards import guards_of
from ..load import AnalysisError, FuncInfo, Names, chain, norm, own_nodes, parent
from ..norm import UNKNOWN, guard_atoms, peval
from .c05 import node_calls
from .common import calls_named, fkey, trees, where
from .lf import local_guards, loops_of, split_lossless

WINDOW = "min(self._h2_state.local_flow_control_window(stream_id),self._h2_state.max_outbound_frame_size)"


def run(ctx: Context) -> None:
    rep = ctx.rep
    rep.explanation = (
        "Completion under every WINDOW_UPDATE schedule is not decided. Decided: R1 bounded write - the argument of send_data is "
        "data[:n] with n = min(len(data), flow) and flow = min(local_flow_control_window(stream_id), max_outbound_frame_size) of the same "
        "stream; R2 (async tree) no suspension point lies between the last window read and send_data, so concurrent uploads cannot "
        "invalidate the value (on the sync tree the same region must be one critical section - C08.R6); R3 the wait loop runs while "
        "flow <= 0 (a window can legally be negative), re-reads both quantities after every read of events and has no other exit; R4 the split is lossless; R5 credit return: "
        "every DataReceived is acknowledged with its flow_controlled_length on its own stream and flushed before the next read; R6 the "
        "2**24 connection- and stream-level window increments follow initiate_connection / send_headers."
    )
    for r, t in (("C13.R1", "send_data argument bounded by the current window and frame size"), ("C13.R2", "no suspension between window read and send_data"),
                 ("C13.R3", "wait loop re-reads the window"), ("C13.R4", "lossless split"), ("C13.R5", "credit returned for every DATA frame"),
                 ("C13.R6", "initial window increments")):
        rep.rule(r, t)
    for tree, N in trees(ctx):
        h2 = N.cls("http2", "AsyncHTTP2Connection")
        sd = h2.methods["_send_stream_data"]
        wf = h2.methods["_wait_for_outgoing_flow"]
        snd = [c for c in own_nodes(sd.node) if isinstance(c, ast.Call) and norm(c.func) == "self._h2_state.send_data"]
        rep.floor("C13.R1", f"send_data call ({tree})", len(snd), 1)
        for c in snd:
            import re as _re

            # `f(request=request, stream_id=stream_id)` is `f(request, stream_id)`: same-named keywords written out
            alts = [_re.sub(r"\b(\w+)=\1\b", r"\1", norm(a).replace("await", "")) for a in ctx.prov.expand(c.args[1], sd, c)] if len(c.args) > 1 else []
            want = "data[:min(len(data),self._wait_for_outgoing_flow(request,stream_id))]"
            # a slice is bounded by its upper index whether or not len(data) is folded into it
            wants = [want, "data[:self._wait_for_outgoing_flow(request,stream_id)]"]
            # ... or bounded by a window read made in the routine itself (after the wait, e.g. again under a send lock): min(window of this stream, frame size)
            W_, F_ = "self._h2_state.local_flow_control_window(stream_id)", "self._h2_state.max_outbound_frame_size"
            for b_ in (f"min({W_},{F_})", f"min({F_},{W_})"):
                wants += [f"data[:min(len(data),{b_})]", f"data[:min({b_},len(data))]", f"data[:{b_}]"]
            ok = bool(alts) and all(a.replace("__loop__data", "data") in wants for a in alts) and norm(c.args[0]) == "stream_id"
            rep.ob("C13.R1", fkey(tree, sd, "bounded-chunk"), ok, where(sd, c), f"send_data(stream_id, {alts})" + ("" if ok else f" - must be {want}: more than the window / frame size may be sent"))
        rets = [r for r in own_nodes(wf.node) if isinstance(r, ast.Return) and r.value is not None]
        ralts = sorted({norm(a) for r in rets for a in ctx.prov.expand(r.value, wf, r)})
        rep.ob("C13.R1", fkey(tree, wf, "flow-definition"), ralts == [WINDOW], where(wf), f"_wait_for_outgoing_flow returns {ralts}" + ("" if ralts == [WINDOW] else f"; must be {WINDOW}"))
        # R3  (canonical form of the wait routine: `while True: <re-read window, frame size, flow>; if <credit>: break; await events`
        #      - whatever the source looked like: priming computation + `while flow <= 0`, flag loop, `return` inside the loop ...)
        from ..norm import canon_atom

        wl = [l for l in loops_of(wf) if isinstance(l, ast.While)]
        rep.floor("C13.R3", f"flow wait loop ({tree})", len(wl), 1)
        for l in wl:
            brks = [x for x in ast.walk(l) if isinstance(x, ast.Break)]
            rets_in = [x for x in ast.walk(l) if isinstance(x, ast.Return)]
            tests = []
            if isinstance(l.test, ast.Constant) and l.test.value is True and len(brks) == 1 and not rets_in:
                p_ = parent(brks[0])
                if isinstance(p_, ast.If) and p_.body == [brks[0]] and not p_.orelse and parent(p_) is l:
                    tests = [(p_.test, True, p_)]
            elif not brks and not rets_in:
                tests = [(l.test, False, None)]           # a plain `while <no credit>:` loop that was not rotated
            ok = False
            detail = f"wait loop has {len(brks)} break(s), {len(rets_in)} return(s) inside: not the single-exit wait"
            if tests:
                t, pol, ifnode = tests[0]
                tt = {v: peval(t, {"flow": v}) for v in (-64535, -1, 0, 1, 16384)}
                leaves = {v: (r if r is UNKNOWN else bool(r) == pol) for v, r in tt.items()}
                table_ok = leaves == {-64535: False, -1: False, 0: False, 1: True, 16384: True}
                # the statements executed before the exit test in every iteration re-read window and frame size
                before = l.body[:l.body.index(ifnode)] if ifnode is not None else []
                after_read = []
                reads = [s_ for s_ in l.body if node_has_call(s_, "_receive_events")]
                if ifnode is None and reads:
                    after_read = l.body[l.body.index(reads[0]) + 1:]
                seq = before if ifnode is not None else after_read
                rebound = {}
                rb_ast: dict[str, ast.AST] = {}
                for s_ in seq:
                    if isinstance(s_, ast.Assign):
                        rebound[norm(s_.targets[0])] = norm(s_.value)
                        rb_ast[norm(s_.targets[0])] = s_.value
                    elif isinstance(s_, ast.AnnAssign) and s_.value is not None:
                        rebound[norm(s_.target)] = norm(s_.value)
                        rb_ast[norm(s_.target)] = s_.value
                # `flow` is recomputed from the two h2 quantities - through temporaries of any name, or in one expression

                class _Sub(ast.NodeTransformer):
                    def visit_Name(self, n: ast.Name) -> ast.AST:
                        return _Sub().visit(ast.parse(ast.unparse(rb_ast[n.id]), mode="eval").body) if n.id in rb_ast and n.id != "flow" else n
                flow_full = norm(_Sub().visit(ast.parse(ast.unparse(rb_ast["flow"]), mode="eval").body)) if "flow" in rb_ast else None
                fresh = flow_full == WINDOW
                other_exits = [x for x in ast.walk(l) if isinstance(x, (ast.Continue,))]
                ok = table_ok and fresh and bool(reads) and not other_exits
                detail = ("waits while there is no credit - also while the window is negative (exit test true exactly for flow > 0 over -64535, -1, 0, 1, 16384) - and re-reads window and "
                          "frame size before every test") if ok else f"wait loop: leaves for flow {leaves}; re-reads before the test {rebound}; event reads {len(reads)}"
                if not table_ok and all(leaves.get(v) for v in (-64535, -1)):
                    detail += (" - the loop ends when the window is negative: after a SETTINGS_INITIAL_WINDOW_SIZE decrease the returned flow is < 0, `data[:min(len(data), flow)]` is then "
                               "larger than the window and h2 refuses the send - the upload fails instead of resuming when the window reopens")
            rep.ob("C13.R3", fkey(tree, wf, "wait-loop"), ok, where(wf, l), detail)
            evc = [c for s_ in l.body for c in ast.walk(s_) if isinstance(c, ast.Call) and norm(c.func) == "self._receive_events"]
            rep.ob("C13.R3", fkey(tree, wf, "blocking-read"), bool(evc) and all([norm(a) for a in c.args] == ["request"] and not c.keywords for c in evc), where(wf, l),
                   "the wait reads from the network without a stream id (blocks until new frames arrive even when events are pending)")
        # R2
        if tree == "async":
            cfg = ctx.cfg(sd)
            start = [n for n in cfg.nodes if node_calls(n, lambda c: norm(c.func) == "self._wait_for_outgoing_flow")]
            end = [n for n in cfg.nodes if node_calls(n, lambda c: norm(c.func) == "self._h2_state.send_data")]
            # a window read made by the routine itself after the wait (and dominating the send) is the read that counts
            own_reads = [n for n in cfg.nodes if n.kind == "stmt" and node_calls(n, lambda c: norm(c.func) == "self._h2_state.local_flow_control_window")]
            if own_reads and end and all(cfg.dominates(n, end[0]) for n in own_reads):
                start = own_reads[-1:]
            between = []
            if start and end:
                # a path that comes round to the window read again starts afresh there
                r1 = cfg.reachable([e.dst for e in start[0].succ if e.kind != "exc"], follow=lambda e: e.kind != "exc", stop=lambda n: n is end[0] or n is start[0])
                between = [n for n in cfg.nodes if n.id in r1 and n is not end[0] and n is not start[0] and n.may_cancel()]
                if between:
                    # only nodes from which the send is still reachable without passing the read again
                    between = [n for n in between if end[0].id in cfg.reachable([n], follow=lambda e: e.kind != "exc", stop=lambda m: m is start[0])]
            rep.ob("C13.R2", fkey(tree, sd, "atomic-send"), bool(start) and bool(end) and not between, where(sd), "no suspension point between obtaining the flow value and send_data" if not between else f"suspension point {between[0].text()} between the window read and send_data")
            cfg2 = ctx.cfg(wf)
            awaits = [n for n in cfg2.nodes if n.may_cancel()]
            bad = []
            for a in awaits:
                def rereads(n) -> bool:
                    return n.ast is not None and n.kind == "stmt" and "local_flow_control_window" in norm(n.ast)
                r2 = cfg2.reachable([e.dst for e in a.succ if e.kind != "exc"], follow=lambda e: e.kind != "exc", stop=rereads)
                if any(n.kind == "return" and n.id in r2 for n in cfg2.nodes):
                    bad.append(a)
            rep.ob("C13.R2", fkey(tree, wf, "fresh-window"), not bad, where(wf), "every suspension in the wait routine is followed by a re-read of the window before returning" if not bad else f"window value can be stale after {bad[0].text()}")
        # R4
        split_lossless(ctx, "C13.R4", tree, sd, "data", "frame split")
        # R5
        rb = h2.methods["_receive_response_body"]
        acks = [c for c in own_nodes(rb.node) if isinstance(c, ast.Call) and norm(c.func) == "self._h2_state.acknowledge_received_data"]
        rep.floor("C13.R5", f"acknowledge call ({tree})", len(acks), 0)
        ok = len(acks) == 1
        detail = f"{len(acks)} acknowledge_received_data call(s) in the body loop" + ("" if ok else ": consumed DATA is never credited back, a large response stalls when the window is used up")
        if ok:
            c = acks[0]
            # the amount is the event's own flow-controlled length: either written directly or through one temporary
            a0 = [norm(c.args[0])] if c.args and norm(c.args[0]) == "event.flow_controlled_length" else \
                ([norm(a) for a in ctx.prov.expand(c.args[0], rb, c, depth=1)] if c.args else [])
            g = guard_atoms(guards_of(c))
            g_eff = {a for a in g if not (a.startswith("not:isinstance(event,h2.events.") and "DataReceived" not in a)}
            ok = a0 == ["event.flow_controlled_length"] and [norm(a) for a in c.args[1:]] == ["stream_id"] and g_eff == {"isinstance(event,h2.events.DataReceived)"}
            detail = f"acknowledge_received_data({a0}, {[norm(a) for a in c.args[1:]]}) under {sorted(g)}"
            blk = parent(parent(c))
            sibs = getattr(blk, "body", [])
            idx = next((i for i, s in enumerate(sibs) if any(x is c for x in ast.walk(s))), None)
            flushed = idx is not None and any(node_has_call(s, "_write_outgoing_data") for s in sibs[idx + 1:])
            ok = ok and flushed
            detail += f"; flushed afterwards: {flushed}"
        rep.ob("C13.R5", fkey(tree, rb, "credit-return"), ok, where(rb, acks[0] if acks else None), detail)
        # R6
        ci = h2.methods["_send_connection_init"]
        inc = [c for c in own_nodes(ci.node) if isinstance(c, ast.Call) and norm(c.func) == "self._h2_state.increment_flow_control_window"]
        ini = [c for c in own_nodes(ci.node) if isinstance(c, ast.Call) and norm(c.func) == "self._h2_state.initiate_connection"]
        ok = len(inc) == 1 and len(ini) == 1 and inc[0].lineno > ini[0].lineno and peval(inc[0].args[0], {}) == 2 ** 24 and len(inc[0].args) == 1 and not inc[0].keywords
        rep.ob("C13.R6", fkey(tree, ci, "connection-window"), ok, where(ci), "connection window raised by 2**24 after initiate_connection()")
        s2 = h2.methods["_send_request_headers"]
        inc2 = [c for c in own_nodes(s2.node) if isinstance(c, ast.Call) and norm(c.func) == "self._h2_state.increment_flow_control_window"]
        shc = [c for c in own_nodes(s2.node) if isinstance(c, ast.Call) and norm(c.func) == "self._h2_state.send_headers"]
        ok = len(inc2) == 1 and len(shc) == 1 and inc2[0].lineno > shc[0].lineno and peval(inc2[0].args[0], {}) == 2 ** 24 and \
            ([norm(k.value) for k in inc2[0].keywords if k.arg == "stream_id"] == ["stream_id"] or [norm(a) for a in inc2[0].args[1:]] == ["stream_id"])
        rep.ob("C13.R6", fkey(tree, s2, "stream-window"), ok, where(s2), "stream window raised by 2**24 on the stream after send_headers")


def node_has_call(s: ast.AST, name: str) -> bool:
    return any(isinstance(c, ast.Call) and (chain(c.func) or [""])[-1] == name for c in ast.walk(s))

_core_run = run


def run(ctx: Context) -> None:  # noqa: F811
    _core_run(ctx)
    from . import backend

    ctx.rep.rule('C13.R7', "each real backend's write() hands every byte of a frame to the OS exactly once and in order (shared with C03.R9)")
    backend.write_all(ctx, 'C13.R7')
    ctx.rep.explanation = (ctx.rep.explanation or '') + ' R7 (transport layer, shared with C03.R9): the backend write() delivers each encoded frame completely and in order.'


def _end_stream_agreement(ctx: Context) -> None:
    """A body can only be delivered if the HEADERS frame left the stream open: END_STREAM on HEADERS and the early return of the
    body routine must be the SAME predicate over the SAME object (shared with C03.R4)."""
    from .common import effective_body

    rep = ctx.rep
    for tree, N in trees(ctx):
        h2 = N.cls("http2", "AsyncHTTP2Connection")
        s2 = h2.methods["_send_request_headers"]
        body = h2.methods["_send_request_body"]
        calls = [c for c in own_nodes(s2.node) if isinstance(c, ast.Call) and norm(c.func) == "self._h2_state.send_headers"]
        from .common import early_return_atom
        from ..norm import canon_atom

        early = early_return_atom(body.node.body)
        for c in calls:
            def atom_of(e: ast.AST) -> str:
                pol = True
                while isinstance(e, ast.UnaryOp) and isinstance(e.op, ast.Not):
                    e, pol = e.operand, not pol
                return canon_atom(e, pol)
            esrc = [atom_of(a) for k in c.keywords if k.arg == "end_stream" for a in ctx.prov.expand(k.value, s2, c)]
            ok = early is not None and esrc == [early]
            rep.ob("C13.R8", fkey(tree, s2, "end-stream-agreement"), ok, where(s2, c),
                   f"END_STREAM on HEADERS <- {esrc}; the body routine returns early on `{early}`" + ("" if ok else
                   ": the two sites disagree for some request - HEADERS closes a stream whose body is then refused by h2 (or a stream with no body is never ended)"))
        rep.floor("C13.R8", f"send_headers call ({tree})", len(calls), 1)


_core_run3 = run


def run(ctx: Context) -> None:  # noqa: F811
    _core_run3(ctx)
    ctx.rep.rule("C13.R8", "END_STREAM on HEADERS and the early return of the body routine are the same predicate over the same object (shared with C03.R4)")
    _end_stream_agreement(ctx)



H2_QUEUE_OPS = {"send_headers", "send_data", "end_stream", "increment_flow_control_window", "acknowledge_received_data", "initiate_connection", "reset_stream",
                "update_settings", "push_stream", "prioritize", "ping"}


def flush_before_wait(ctx: Context, rule: str, why: str) -> None:
    """h2 only QUEUES frames; bytes reach the peer when `data_to_send()` is written.  A task that goes on to read from the network while frames it queued are still
    unwritten waits for an answer to something the peer has never seen (a WINDOW_UPDATE for a stream whose HEADERS were not sent, a response to an un-ended request).
    Forward may-analysis of one bit (`frames queued and not yet written`) over the CFGs of the HTTP/2 connection class, with per-method summaries for both entry
    states: no network read is reached with the bit set."""
    rep = ctx.rep
    rep.rule(rule, "HTTP/2: no network read is reached while frames queued on the h2 state machine by the same task are still unwritten - " + why)
    n_reads = 0
    for tree, N in trees(ctx):
        h2 = N.cls("http2", "AsyncHTTP2Connection")
        memo: dict[tuple[str, bool], tuple[bool, list[tuple[FuncInfo, ast.AST, tuple[str, ...]]]]] = {}
        busy: set[tuple[str, bool]] = set()

        def calls_in(n_ast: ast.AST) -> list[ast.Call]:
            a = n_ast
            if isinstance(a, ast.withitem):
                a = a.context_expr
            elif isinstance(a, (ast.If, ast.While)):
                a = a.test
            elif isinstance(a, (ast.For, ast.AsyncFor)):
                a = a.iter
            elif isinstance(a, (ast.ExceptHandler, ast.Try, ast.FunctionDef, ast.AsyncFunctionDef)):
                return []
            cs = [c for c in ast.walk(a) if isinstance(c, ast.Call)]
            return sorted(cs, key=lambda c: (getattr(c, "end_lineno", 0), getattr(c, "end_col_offset", 0)))      # inner calls complete first

        def summary(f: FuncInfo, dirty_in: bool, stack: tuple[str, ...]) -> tuple[bool, list]:
            key = (f.name, dirty_in)
            if key in memo:
                return memo[key]
            if key in busy:
                return dirty_in, []
            busy.add(key)
            cfg = ctx.cfg(f)
            viol: list = []

            def step(node, dirty: bool, record: bool) -> bool:
                if node.ast is None or node.kind not in ("stmt", "with_enter", "test", "loop", "for", "while", "if") and not isinstance(node.ast, (ast.stmt, ast.withitem)):
                    return dirty
                if node.kind in ("with_exit", "with_exc_exit"):
                    return dirty
                for c in calls_in(node.ast):
                    fn = norm(c.func)
                    last = (chain(c.func) or [""])[-1]
                    if fn.startswith("self._h2_state.") and last in H2_QUEUE_OPS:
                        dirty = True
                    elif fn == "self._network_stream.write":
                        dirty = False
                    elif fn == "self._network_stream.read":
                        if dirty and record:
                            viol.append((f, c, stack + (f.short,)))
                    elif fn.startswith("self.") and fn.count(".") == 1 and last in h2.methods and h2.methods[last] is not f:
                        d_out, v = summary(h2.methods[last], dirty, stack + (f.short,))
                        if record:
                            viol.extend(v)
                        dirty = d_out
                return dirty

            state = cfg.solve(dirty_in, lambda n, s, e: None if e.kind == "exc" else step(n, s, False), lambda a, b: a or b, bottom=None)
            for n in cfg.nodes:
                if n.id in state:
                    step(n, state[n.id], True)
            d_exit = bool(state.get(cfg.exit.id, False))
            busy.discard(key)
            # de-duplicate witnesses
            seen, uniq = set(), []
            for v in viol:
                k = (v[0].qual, getattr(v[1], "lineno", 0), v[2])
                if k not in seen:
                    seen.add(k)
                    uniq.append(v)
            memo[key] = (d_exit, uniq)
            return memo[key]

        reads = [c for f in h2.methods.values() for c in own_nodes(f.node) if isinstance(c, ast.Call) and norm(c.func) == "self._network_stream.read"]
        n_reads += len(reads)
        entries = [N.t("handle_async_request"), "_receive_response_body", "_response_closed", N.t("aclose")]
        allv: list = []
        for en in entries:
            f = h2.methods.get(en)
            if f is None:
                continue
            _, v = summary(f, False, ())
            allv.extend(v)
        seen2 = set()
        for f, c, stack in allv:
            k = (f.qual, c.lineno)
            if k in seen2:
                continue
            seen2.add(k)
            rep.ob(rule, fkey(tree, f, f"read-with-frames-queued:{stack[0].split('.')[-1] if stack else f.name}"), False, where(f, c),
                   f"`{ast.unparse(c)[:60]}` can be reached (via {' > '.join(s.split('.')[-1] for s in stack)}) while frames this task queued on the h2 state machine have not been written: "
                   "the client then waits for the peer's reaction (WINDOW_UPDATE, response) to frames the peer has never received - the transfer starves")
        if not allv:
            rep.ob(rule, fkey(tree, h2.methods[N.t("handle_async_request")], "flush-before-wait"), True, where(h2.methods[N.t("handle_async_request")]),
                   "on every path of the request / response-body / close routines the queued frames are written before the task reads from the network")
    rep.floor(rule, "network reads of the HTTP/2 connection (both trees)", n_reads, 2)


_core_run_r9 = run


def run(ctx: Context) -> None:  # noqa: F811
    _core_run_r9(ctx)
    flush_before_wait(ctx, "C13.R9", "an upload never starves: the peer opens the window only for streams it has seen")
