"""C20 - connection retries are bounded and limited to establishment."""
from __future__ import annotations

import ast
import typing as T

from ..context import Context
from ..guards import guards_of
from ..load import AnalysisError, FuncInfo, chain, norm, own_nodes, parent
from ..norm import UNKNOWN, peval
from .common import NET_OPS, fkey, net_sites, trees, where

EXPECTED_DELAYS = [0, 0.5, 1, 2, 4, 8, 16, 32]      # `0, 0.5, 1, 2, ...`: the ratio stays 2 (a levelled-off sequence deviates from the sixth retry on)


def narrowed_retry_classes(ctx: Context, f: FuncInfo, h: ast.ExceptHandler) -> list[str] | None:
    """A handler that catches more than it retries (`except BaseException as exc`) and lets everything outside `isinstance(exc, (A, B))` leave at once: the classes that can
    get past that test.  None if the handler has no such test."""
    if not h.name:
        return None
    for st in h.body:
        if not (isinstance(st, ast.If) and any(isinstance(x, ast.Raise) for x in st.body)):
            continue
        for alt in ctx.prov.expand(st.test, f, st, pure=True):
            # `not isinstance(exc, T) or <exhausted>`: everything that is not a T leaves
            terms = alt.values if isinstance(alt, ast.BoolOp) and isinstance(alt.op, ast.Or) else [alt]
            for t in terms:
                if isinstance(t, ast.UnaryOp) and isinstance(t.op, ast.Not) and isinstance(t.operand, ast.Name):
                    # `retryable = isinstance(exc, ...)` bound once in the handler
                    defs = [a for a in h.body if isinstance(a, ast.Assign) and norm(a.targets[0]) == t.operand.id]
                    if len(defs) == 1:
                        t = ast.UnaryOp(op=ast.Not(), operand=defs[0].value)
                if isinstance(t, ast.UnaryOp) and isinstance(t.op, ast.Not) and isinstance(t.operand, ast.Call) and norm(t.operand.func) == "isinstance" \
                        and len(t.operand.args) == 2 and norm(t.operand.args[0]) == h.name:
                    ts = t.operand.args[1]
                    elts = ts.elts if isinstance(ts, ast.Tuple) else [ts]
                    names = [ctx.escape.exc_name(f.module, e) for e in elts]
                    if all(names):
                        return sorted(names)       # type: ignore[arg-type]
    return None


def find_retry_loop(ctx: Context, f: FuncInfo) -> tuple[T.Any, ast.Try, ast.ExceptHandler]:
    for n in own_nodes(f.node):
        if isinstance(n, (ast.While, ast.For)):
            for t in n.body:
                if isinstance(t, ast.Try):
                    for h in t.handlers:
                        types_ = ctx.escape.handler_types(f.module, h)
                        if any(x in ("ConnectError", "ConnectTimeout") for x in types_):
                            return n, t, h
                        nr = narrowed_retry_classes(ctx, f, h)
                        if nr and any(x in ("ConnectError", "ConnectTimeout") for x in nr):
                            return n, t, h
    raise AnalysisError(f"anchor vanished: connect retry loop in {f.qual}")


def _ancestors(n: ast.AST):
    from ..load import parent as _p
    x = _p(n)
    while x is not None:
        yield x
        x = _p(x)


def _for_form(ctx: Context, tree: str, f: FuncInfo, loop: ast.For, tr: ast.Try, handler: ast.ExceptHandler) -> None:
    """The retry loop written as `for attempt in range(..)` (possibly zipped with the back-off sequence)."""
    from ..norm import run_to

    rep = ctx.rep
    cfg = ctx.cfg(f)
    ranges = [c for c in ast.walk(loop.iter) if isinstance(c, ast.Call) and isinstance(c.func, ast.Name) and c.func.id == "range"]
    sim = {}
    for R in (-1, 0, 1, 2, 5):
        env: dict = {"self._retries": R}
        if len(ranges) == 1 and run_to(f.node.body, loop, env) in ("hit", "miss"):
            args = [peval(a, env) for a in ranges[0].args]
            sim[R] = len(range(*args)) - 1 if all(isinstance(a, int) and not isinstance(a, bool) for a in args) else None
        else:
            sim[R] = None
    want = {-1: 0, 0: 0, 1: 1, 2: 2, 5: 5}
    rep.ob("C20.R3", fkey(tree, f, "raise-guard"), sim == want, where(f, loop),
           f"`for ... in {ast.unparse(loop.iter)}` makes {sim} retries (attempts - 1) for retries = -1, 0, 1, 2, 5; must be exactly {want}")
    # exhaustion: the statement after the loop raises the failure the handler recorded
    blk = parent(loop)
    sibs = next((l for fld in ("body", "orelse", "finalbody") for l in [getattr(blk, fld, None)] if isinstance(l, list) and any(x is loop for x in l)), [])
    after = sibs[next(i for i, x in enumerate(sibs) if x is loop) + 1:] if sibs else []
    after = [x for x in after if not isinstance(x, ast.Assert)]
    recorded = {norm(a.targets[0]) for a in ast.walk(handler) if isinstance(a, ast.Assign) and handler.name and norm(a.value) == handler.name}
    ok_raise = bool(after) and isinstance(after[0], ast.Raise) and after[0].exc is not None and norm(after[0].exc) in recorded and not loop.orelse
    rep.ob("C20.R3", fkey(tree, f, "reraise"), ok_raise, where(f, after[0] if after else loop), "when the attempts are used up the last recorded failure is raised" if ok_raise else
           f"after the loop: {[ast.unparse(x)[:40] for x in after[:2]]}; the handler records the failure in {sorted(recorded)}")
    # R4: the back-off sequence advances only between a failure and the next attempt
    gens = [n for n in own_nodes(f.node) if isinstance(n, ast.Assign) and isinstance(n.value, ast.Call) and (chain(n.value.func) or [""])[-1] == "exponential_backoff"]
    gname = norm(gens[0].targets[0]) if len(gens) == 1 else None
    in_loop = {id(x) for x in ast.walk(loop)}
    rep.ob("C20.R4", fkey(tree, f, "generator-outside-loop"), len(gens) == 1 and id(gens[0]) not in in_loop, where(f, gens[0]) if gens else where(f),
           "back-off generator is created once before the loop (a fresh generator per attempt would always yield 0)")
    head_advance = gname is not None and any(isinstance(x, ast.Name) and x.id == gname for x in ast.walk(loop.iter))
    nexts = [c for c in own_nodes(loop) if isinstance(c, ast.Call) and isinstance(c.func, ast.Name) and c.func.id == "next" and c.args and norm(c.args[0]) == gname]
    in_handler = {id(x) for x in ast.walk(handler)}
    outside = [c for c in nexts if id(c) not in in_handler]
    ok_adv = not head_advance and not outside and len(nexts) == 1
    rep.ob("C20.R4", fkey(tree, f, "retry-path-0"), ok_adv, where(f, loop),
           "the back-off sequence is advanced once per caught failure" if ok_adv else
           (f"`{ast.unparse(loop.iter)}` draws a value from the back-off sequence at the head of EVERY iteration - also before the first attempt: the leading 0 is spent there and "
            "every retry waits one step further along the sequence (0.5, 1, 2 ... instead of 0, 0.5, 1 ...)") if head_advance else
           f"next({gname}) is evaluated {len(nexts)} time(s) in the loop, {len(outside)} of them outside the failure handler")
    # the pause uses exactly that value
    sleeps = [c for c in own_nodes(loop) if isinstance(c, ast.Call) and (chain(c.func) or [""])[-1] == "sleep"]
    rep.ob("C20.R4", fkey(tree, f, "sleep"), len(sleeps) == 1, where(f, sleeps[0] if sleeps else loop), f"{len(sleeps)} sleep call(s) in the retry loop")


def run(ctx: Context) -> None:
    rep = ctx.rep
    rep.level = "other"
    rep.explanation = (
        "On the retry loop of the direct connection's establishment routine (located structurally: the while-loop whose try has a "
        "handler for ConnectError/ConnectTimeout): R1 every handler from which control flows back to the loop head catches exactly "
        "{ConnectError, ConnectTimeout}; R2 the network operations reachable (call graph) from the protected body are a subset of "
        "{connect_tcp, connect_unix_socket, start_tls}; R3 the retry counter is initialised from the configured retries, the handler "
        "re-raises iff counter <= 0 (truth table on the boundary values), every path back to the loop head decrements it exactly once "
        "and nothing else writes it - an inductive bound of N repeats; R4 every such path sleeps exactly once for next(delays) where "
        "delays is the back-off generator whose first five yields fold to 0, 0.5, 1, 2, 4. Also the retries setting reaches the counter "
        "from the pool's constructor argument."
    )
    rep.rule("C20.R1", "handlers that loop back catch exactly {ConnectError, ConnectTimeout}")
    rep.rule("C20.R2", "network operations reachable inside the retried region are establishment operations only")
    rep.rule("C20.R3", "retry counter (counting down from the limit or up to it): initialised once before the loop from the configured limit / a constant; the exhaustion guard lets through exactly max(retries, 0) retries; exactly one step per retry path; no other writer")
    rep.rule("C20.R4", "one sleep(next(delays)) per retry path; back-off generator folds to 0, 0.5, 1, 2, 4")
    rep.rule("C20.R5", "the `retries` configuration reaches the counter (pool -> connection constructor -> self._retries)")
    loops = 0
    for tree, N in trees(ctx):
        f = N.func("connection", "AsyncHTTPConnection._connect")
        loop, tr, handler = find_retry_loop(ctx, f)
        loops += 1
        cfg = ctx.cfg(f)
        esc = ctx.escape
        loop_node = cfg._by_ast[id(loop)][0]
        # R1: every handler of that try from which the loop head is reachable
        for h in tr.handlers:
            hn = cfg._by_ast.get(id(h))
            types_ = sorted(esc.handler_types(f.module, h))
            nr_ = narrowed_retry_classes(ctx, f, h)
            if nr_ is not None and types_ != ["ConnectError", "ConnectTimeout"]:
                types_ = nr_          # what gets past the handler's own class test
            if not hn:
                rep.note(f"{tree}: handler `except {ast.unparse(h.type) if h.type else ''}` catches nothing that the body can raise")
                loops_back = any(not isinstance(s, ast.Raise) for s in h.body[-1:])
            else:
                reach = cfg.reachable([hn[0]], follow=lambda e: e.kind != "exc")
                loops_back = loop_node.id in reach
            if loops_back:
                rep.ob("C20.R1", fkey(tree, f, f"handler:{','.join(types_)}"), types_ == ["ConnectError", "ConnectTimeout"], where(f, h),
                       f"handler that repeats the attempt catches {types_}; must be exactly ['ConnectError', 'ConnectTimeout']")
        # R2: operations reachable from the protected body
        body_funcs = set()
        direct = []
        for st in tr.body:
            for s in ctx.callgraph.sites_in(st, f):
                direct.append(s)
                for t in s.repo_targets():
                    if not (t.cls is not None and t.cls.qual in esc.net_classes):
                        body_funcs.add(t.qual)
        reach = ctx.callgraph.reachable([ctx.callgraph.funcs[q] for q in body_funcs],
                                        stop=lambda g: g.cls is not None and g.cls.qual in esc.net_classes)
        ops_seen = set()
        region_sites = [(s, op) for s, op in net_sites(ctx, [f]) if s in direct]
        region_sites += net_sites(ctx, [ctx.callgraph.funcs[q] for q in reach if not (
            ctx.callgraph.funcs[q].cls is not None and ctx.callgraph.funcs[q].cls.qual in esc.net_classes)])
        for s, op in region_sites:
            ops_seen.add(op)
            rep.ob("C20.R2", fkey(tree, s.owner, f"{norm(s.node.func)}@{op}"), op in ("connect_tcp", "connect_unix_socket", "start_tls"),
                   where(s.owner, s.node), f"network operation `{op}` is reachable inside the retried region")
        rep.floor("C20.R2", f"establishment operations in the retried region ({tree})", len(region_sites), 3)
        if isinstance(loop, ast.For):
            _for_form(ctx, tree, f, loop, tr, handler)
        else:
            # R3 counter
            ctr = None
            guard_if = None
            for st in handler.body:
                if isinstance(st, ast.If) and any(isinstance(x, ast.Raise) for x in st.body):
                    names = [n.id for n in ast.walk(st.test) if isinstance(n, ast.Name)]
                    if names:
                        ctr, guard_if = names[0], st
                        break
            if ctr is None or guard_if is None:
                rep.ob("C20.R3", fkey(tree, f, "raise-guard"), False, where(f, handler),
                       "retry handler has no `if <counter> ...: raise` guard - nothing bounds the number of attempts")
                continue
            # the counter may count down from the limit or up to it: what is decided is the NUMBER of retries the guard lets through
            in_loop = {id(x) for x in ast.walk(loop)}
            loop_written = {x.id for n in own_nodes(loop) for x in ast.walk(n) if isinstance(x, ast.Name) and isinstance(x.ctx, ast.Store)}
            names = [n.id for n in ast.walk(guard_if.test) if isinstance(n, ast.Name) and n.id in loop_written]
            stepped = {x.target.id for x in own_nodes(loop) if isinstance(x, ast.AugAssign) and isinstance(x.target, ast.Name)}
            if names:
                ctr = next((x for x in names if x in stepped), names[0])
            # a class test bound to a name in the handler (`retryable = isinstance(exc, ...)`) holds on the retry path
            class_flags = {norm(a.targets[0]): True for a in ast.walk(handler) if isinstance(a, ast.Assign) and isinstance(a.value, ast.Call) and norm(a.value.func) == "isinstance"
                           and isinstance(a.targets[0], ast.Name) and a.targets[0].id != ctr}
            inits = [n for n in own_nodes(f.node) if isinstance(n, ast.Assign) and any(isinstance(t, ast.Name) and t.id == ctr for t in n.targets)]
            pre = [n for n in inits if id(n) not in in_loop]
            writers = [n for n in own_nodes(loop) if (isinstance(n, (ast.Assign, ast.AugAssign, ast.AnnAssign, ast.NamedExpr))
                       and any(isinstance(x, ast.Name) and isinstance(x.ctx, ast.Store) and x.id == ctr for x in ast.walk(n)))]
            decs = [n for n in writers if isinstance(n, ast.AugAssign) and isinstance(n.op, (ast.Sub, ast.Add)) and isinstance(n.value, ast.Constant) and n.value.value == 1]
            dirs = {type(n.op) for n in decs}
            delta = -1 if dirs == {ast.Sub} else 1 if dirs == {ast.Add} else None
            sim = {}
            if len(pre) == 1 and delta is not None:
                for R in (-1, 0, 1, 2, 5):
                    c = peval(pre[0].value, {"self._retries": R})
                    k = 0
                    while k <= 8 and isinstance(c, int) and not isinstance(c, bool):
                        g = peval(guard_if.test, {**class_flags, ctr: c, "self._retries": R})
                        if g is UNKNOWN:
                            k = None
                            break
                        if g:
                            break
                        c += delta
                        k += 1
                    sim[R] = k if isinstance(c, int) else None
            want = {-1: 0, 0: 0, 1: 1, 2: 2, 5: 5}
            rep.ob("C20.R3", fkey(tree, f, "raise-guard"), sim == want, where(f, guard_if),
                   f"guard `{ast.unparse(guard_if.test)}` with counter `{ctr}` lets through {sim} retries for retries = -1, 0, 1, 2, 5; must be exactly {want}")
            rep.ob("C20.R3", fkey(tree, f, "reraise"), any(isinstance(x, ast.Raise) and x.exc is None for x in guard_if.body), where(f, guard_if),
                   "exhausted retries re-raise the last error (bare `raise`)")
            # no other way of giving up: a connect failure is retried N times - not "N times unless something else says stop"
            in_guard = {id(x) for b in guard_if.body for x in ast.walk(b)}
            others = [x for x in ast.walk(handler) if isinstance(x, ast.Raise) and id(x) not in in_guard
                      and not any("isinstance(" in norm(t) for t, _ in guards_of(x))]
            if others:
                # "at most N more times" allows giving up early: recorded, not a verdict
                rep.note(f"{tree}: the retry handler also gives up at line {others[0].lineno} under "
                         f"{sorted(norm(t) for t, _ in guards_of(others[0]) if any(x is handler for x in _ancestors(t)))[:3]} - fewer than the configured number of retries are possible")
            # initialisation: once, before the loop, a function of the configured limit only
            init_reads = {norm(x) for n in pre for x in ast.walk(n.value) if isinstance(x, (ast.Name, ast.Attribute))} - {"self"}
            ok_init = len(pre) == 1 and init_reads <= {"self._retries"}
            rep.ob("C20.R3", fkey(tree, f, "init"), ok_init, where(f, pre[0]) if pre else where(f),
                   f"counter `{ctr}` initialised before the loop by {[ast.unparse(n) for n in pre]} (a constant or the configured limit)")
            rep.ob("C20.R3", fkey(tree, f, "writers"), len(writers) == len(decs) and len(decs) >= 1 and delta is not None, where(f, writers[0]) if writers else where(f, handler),
                   f"writers of `{ctr}` inside the loop: {[ast.unparse(n) for n in writers]}; only steps of one in one direction are allowed")
            # paths from the handler back to the loop head
            hn = cfg._by_ast.get(id(handler))
            if not hn:
                raise AnalysisError(f"retry handler unreachable in CFG of {f.qual}")
            paths = cfg.paths(hn[0], lambda n: n is loop_node, follow=lambda e: e.kind != "exc")
            rep.floor("C20.R3", f"paths from the retry handler back to the loop head ({tree})", len(paths), 1)
            dec_ids = {id(d) for d in decs}
            for i, p in enumerate(paths):
                nodes = [e.src for e in p]
                ndec = sum(1 for n in nodes if n.ast is not None and id(n.ast) in dec_ids)
                guard_edges = [e for e in p if e.src.ast is guard_if]
                passes_guard = any(e.kind == "f" for e in guard_edges)
                rep.ob("C20.R3", fkey(tree, f, f"retry-path-{i}"), ndec == 1 and passes_guard, where(f, handler),
                       f"retry path {[n.lineno for n in nodes]}: {ndec} step(s) of `{ctr}`, passes the exhaustion guard: {passes_guard}")
                sleeps = [n for n in nodes if n.ast is not None and any(isinstance(c, ast.Call) and (chain(c.func) or [''])[-1] == 'sleep' for c in ast.walk(n.ast))
                          and n.kind == "stmt"]
                ok = len(sleeps) == 1
                detail = f"retry path sleeps {len(sleeps)} time(s)"
                if ok:
                    call = next(c for c in ast.walk(sleeps[0].ast) if isinstance(c, ast.Call) and (chain(c.func) or [''])[-1] == 'sleep')
                    terms = [norm(a) for a in ctx.prov.expand(call.args[0], f, sleeps[0])] if call.args else []
                    ok = bool(terms) and all(t.startswith("next(exponential_backoff(") for t in terms)
                    detail = f"sleep argument <- {terms}"
                    if ok:
                        ok2, d2 = _backoff(ctx, f, terms[0])
                        ok, detail = ok2, detail + "; " + d2
                rep.ob("C20.R4", fkey(tree, f, f"retry-path-{i}"), ok, where(f, sleeps[0].ast) if sleeps else where(f, handler), detail)
            # the delays generator must be created once, outside the loop
            gens = [n for n in own_nodes(f.node) if isinstance(n, ast.Call) and (chain(n.func) or [''])[-1] == "exponential_backoff"]
            rep.ob("C20.R4", fkey(tree, f, "generator-outside-loop"), bool(gens) and all(id(g) not in in_loop for g in gens),
                   where(f, gens[0]) if gens else where(f), "back-off generator is created once before the loop (a fresh generator per attempt would always yield 0)")
        # R5 configuration flow
        cls = f.cls
        assert cls is not None
        init = cls.methods.get("__init__")
        stores = [n for n in own_nodes(init.node) if isinstance(n, ast.Assign) and norm(n.targets[0]) == "self._retries"] if init else []
        rep.ob("C20.R5", fkey(tree, init or f, "self._retries"), len(stores) == 1 and norm(stores[0].value) == "retries",
               where(init or f, stores[0] if stores else None), f"`self._retries` <- {[ast.unparse(s.value) for s in stores]}; must be the constructor's `retries`")
        pool = N.func("connection_pool", "AsyncConnectionPool.create_connection")
        ctor_calls = [c for c in own_nodes(pool.node) if isinstance(c, ast.Call) and (chain(c.func) or [''])[-1] == cls.name]
        rep.ob("C20.R5", fkey(tree, pool, cls.name + "(retries=)"),
               bool(ctor_calls) and all(any(k.arg == "retries" and norm(k.value) == "self._retries" for k in c.keywords) for c in ctor_calls),
               where(pool, ctor_calls[0] if ctor_calls else None), "pool passes retries=self._retries to the direct connection")
    rep.floor("C20.R1", "retry loops", loops, 2)
    rep.assume("proxy connections use the direct connection class for the proxy hop with the default retries=0 (property quantifies over direct connections)")


def _backoff(ctx: Context, f: FuncInfo, term: str) -> tuple[bool, str]:
    """Fold the first five yields of the back-off generator for the factor used at the call."""
    call = ast.parse(term, mode="eval").body
    gen_call = call.args[0]  # exponential_backoff(factor=...)
    gen = ctx.prog.resolve(f.module, "exponential_backoff")
    if not isinstance(gen, FuncInfo):
        raise AnalysisError("anchor vanished: exponential_backoff")
    bound = ctx.prov.bind(gen_call, gen, f)
    env: dict[str, object] = {}
    for p in gen.param_names():
        if p in bound:
            v = peval(bound[p][0], _module_consts(f))
            if v is UNKNOWN:
                return False, f"cannot fold argument `{ast.unparse(bound[p][0])}`"
            env[p] = v
    # parameters the call leaves at their default
    ga = gen.node.args
    pos = ga.posonlyargs + ga.args
    for a, d in list(zip(pos[len(pos) - len(ga.defaults):], ga.defaults)) + [(a, d) for a, d in zip(ga.kwonlyargs, ga.kw_defaults) if d is not None]:
        if a.arg not in env:
            dv = peval(d, _module_consts(gen))
            if dv is not UNKNOWN:
                env[a.arg] = dv
    ys = _fold_generator(gen, env, len(EXPECTED_DELAYS))
    if ys is None:
        raise AnalysisError(f"back-off generator {gen.qual} has a shape the folder does not model")
    ok = len(ys) == len(EXPECTED_DELAYS) and all(abs(float(a) - float(b)) < 1e-12 for a, b in zip(ys, EXPECTED_DELAYS))
    return ok, f"first {len(EXPECTED_DELAYS)} delays fold to {ys} (expected {EXPECTED_DELAYS})"


def _module_consts(f: FuncInfo) -> dict[str, object]:
    env: dict[str, object] = {}
    for k, v in f.module.assigns.items():
        val = peval(v, env)
        if val is not UNKNOWN:
            env[k] = val
    return env


def _fold_generator(gen: FuncInfo, env: dict[str, object], n: int) -> list[object] | None:
    out: list[object] = []
    from .common import effective_body

    body = effective_body(gen.node.body)
    for st in body:
        if len(out) >= n:
            break
        if isinstance(st, ast.Expr) and isinstance(st.value, ast.Yield) and st.value.value is not None:
            v = peval(st.value.value, env)
            if v is UNKNOWN:
                return None
            out.append(v)
        elif isinstance(st, ast.For) and isinstance(st.target, ast.Name) and isinstance(st.iter, ast.Call):
            itname = (chain(st.iter.func) or [""])[-1]
            args = [peval(a, env) for a in st.iter.args]
            if any(a is UNKNOWN for a in args):
                return None
            if itname == "count":
                start = args[0] if args else 0
                step = args[1] if len(args) > 1 else 1
                seq = (start + i * step for i in range(n + 1))  # type: ignore[operator]
            elif itname == "range":
                seq = iter(range(*args))  # type: ignore[arg-type]
            else:
                return None
            lbody = effective_body(st.body)
            # temporaries, then exactly one yield
            if not (lbody and isinstance(lbody[-1], ast.Expr) and isinstance(lbody[-1].value, ast.Yield) and lbody[-1].value.value is not None
                    and all(isinstance(x, ast.Assign) and len(x.targets) == 1 and isinstance(x.targets[0], ast.Name) for x in lbody[:-1])):
                return None
            for i in seq:
                if len(out) >= n:
                    break
                env_i = {**env, st.target.id: i}
                for x in lbody[:-1]:
                    env_i[x.targets[0].id] = peval(x.value, env_i)
                v = peval(lbody[-1].value.value, env_i)
                if v is UNKNOWN:
                    return None
                out.append(v)
        else:
            return None
    return out

_core_run = run


def run(ctx: Context) -> None:  # noqa: F811
    _core_run(ctx)
    from . import backend

    ctx.rep.rule('C20.R6', 'only failures of the network itself are mapped to ConnectError / ConnectTimeout by the backends (nothing else becomes retryable)')
    backend.connect_map_keys(ctx, 'C20.R6')
    ctx.rep.explanation = (ctx.rep.explanation or '') + ' R6 (transport layer): the connect-family exception maps of the real backends have only network failure classes as keys.'
    from . import plumb

    ctx.rep.rule('C20.R7', 'the configured retries value reaches every connection constructor unchanged (store link + pass link)')
    plumb.plumbing(ctx, 'C20.R7', ['retries'])
    from . import support

    ctx.rep.rule('C20.R8', 'the back-off pause is really taken: every coroutine call on the sleep chain (connection -> default backend -> runtime) is awaited')
    support.coroutine_calls_awaited(ctx, 'C20.R8', ('sleep', '_connect'))
