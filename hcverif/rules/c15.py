"""C15 - only documented exception types reach the caller."""
from __future__ import annotations

import ast
import re

from .. import boundary as B
from ..context import Context
from ..escape import CANCELLED, Src
from ..guards import guards_of
from ..load import AnalysisError, FuncInfo, Names, chain, norm, own_nodes, parent
from ..norm import guard_atoms
from .common import NET_OPS, fkey, net_sites, trees, where

# sources accepted with a written reason each (origin function, construct fragment, class) -> reason
INFEASIBLE: list[tuple[str, str, str, str]] = [
    ("_receive_event", "self._h11_state.receive_data", "RuntimeError",
     "h11.receive_data raises RuntimeError only when data follows an EOF feed; after receive_data(b'') next_event returns an event or raises, never NEED_DATA, so no read follows"),
    ("handle_async_request", "self._requests.remove(pool_request)", "ValueError",
     "single removal per request: this handler path and the PoolByteStream._closed-guarded path are mutually exclusive (ownership moves only on normal return)"),
    ("PoolByteStream.aclose", "self._pool._requests.remove(self._pool_request)", "ValueError",
     "guarded by the _closed idempotence flag; the request is in the queue from handle_async_request until this single removal"),
    ("_assign_requests_to_connections", "self._connections.remove(connection)", "ValueError",
     "the removed element was just read from (a snapshot of) the same list inside the pool lock and each branch removes it at most once"),
    ("_response_closed", "self._events[stream_id]", "KeyError",
     "single close per stream: the byte stream's _closed flag / the request handler's exception path are mutually exclusive and the id was registered before the first send"),
    ("handle_request", "self._requests.remove(pool_request)", "ValueError", "sync twin of the row above"),
    ("_send_connection_init", "self._h2_state.increment_flow_control_window", "h2.exceptions.ProtocolError",
     "constant, valid increment (2**24) issued right after initiate_connection() succeeded on the same state machine"),
]

# typing-narrowing asserts (frozen; each cannot fail) - a *new* assert on a request path is reported
NARROWING_ASSERTS = {
    "assertisinstance(response.stream,typing.AsyncIterable)": "pool re-wrap: protocol connections always build the response from their own async byte stream",
    "assertisinstance(response.stream,typing.Iterable)": "sync twin",
    "assertisinstance(request.stream,typing.AsyncIterable)": "request bodies in the async API are async iterables (enforce_stream wraps bytes)",
    "assertisinstance(request.stream,typing.Iterable)": "sync twin",
    "assertself.connectionisnotNone": "the event is set only by assign_to_connection after the field was stored; the pool never assigns None",
    "assertisinstance(<local>,socksio.socks5.SOCKS5AuthReply)": "socksio reply type is determined by its connection state",
    "assertisinstance(<local>,socksio.socks5.SOCKS5UsernamePasswordReply)": "socksio reply type is determined by its connection state",
    "assertisinstance(<local>,socksio.socks5.SOCKS5Reply)": "socksio reply type is determined by its connection state",
    "assertauthisnotNone": "USERNAME_PASSWORD is only requested when auth is not None and the reply method equals the requested one",
    "assertisinstance(stream,trio.SocketStream)": "backend internals",
}

def narrowing_key(construct: str) -> str:
    """The socksio reply asserts are the same assert whatever the local that holds the reply is called."""
    import re as _re

    return _re.sub(r"^assertisinstance\((\w+),socksio\.socks5\.", "assertisinstance(<local>,socksio.socks5.", construct)


ALLOWED_WITH_REASON = {
    "RuntimeError": "explicit misuse / wrong-origin guards (the pool filters by can_handle_request)",
    "TypeError": "enforce_* argument validation of the caller's own arguments",
    "NotImplementedError": "interface stubs",
}


def documented(ctx: Context) -> set[str]:
    txt = ctx.prog.texts["docs/exceptions.md"]
    names = set(re.findall(r"`httpcore\.(\w+)`", txt))
    if len(names) < 10:
        raise AnalysisError("docs/exceptions.md: documented exception list not found")
    exc = ctx.prog.module("httpcore._exceptions").classes
    missing = [n for n in names if n not in exc]
    if missing:
        raise AnalysisError(f"documented exceptions missing from _exceptions.py: {missing}")
    return names


def entries(ctx: Context, N: Names) -> list[tuple[FuncInfo, str]]:
    out: list[tuple[FuncInfo, str]] = []
    t = N.t
    pool = N.cls("connection_pool", "AsyncConnectionPool")
    for m in ("handle_async_request", "aclose"):
        out.append((pool.methods[t(m)], "pool"))
    pbs = N.cls("connection_pool", "PoolByteStream")
    for m in ("__aiter__", "aclose"):
        out.append((pbs.methods[t(m)], "pool"))
    ri = N.cls("interfaces", "AsyncRequestInterface")
    for m in ("request", "stream"):
        out.append((ri.methods[m], "connection"))
    for mod, cn in (("connection", "AsyncHTTPConnection"), ("http11", "AsyncHTTP11Connection"), ("http2", "AsyncHTTP2Connection"),
                    ("http_proxy", "AsyncForwardHTTPConnection"), ("http_proxy", "AsyncTunnelHTTPConnection"), ("socks_proxy", "AsyncSocks5Connection")):
        c = N.cls(mod, cn)
        for m in ("handle_async_request", "aclose"):
            out.append((c.methods[t(m)], "connection"))
    for mod, cn in (("http11", "HTTP11ConnectionByteStream"), ("http2", "HTTP2ConnectionByteStream")):
        c = N.cls(mod, cn)
        for m in ("__aiter__", "aclose"):
            out.append((c.methods[t(m)], "connection"))
    up = N.cls("http11", "AsyncHTTP11UpgradeStream")
    for m in ("read", "write", "aclose", "start_tls"):
        out.append((up.methods[t(m)], "connection"))
    return out


def run(ctx: Context) -> None:
    rep = ctx.rep
    rep.explanation = (
        "R1: exception-escape analysis (fixpoint over the resolved call graph; sources = explicit raises, third-party boundary summaries, "
        "network-interface contract, implicit raisers int()/.decode()/[i]/d[k]/del/list.remove/assert; filtered through every enclosing "
        "handler, map_exceptions rewrite (first match in dict order), isinstance narrowing in handlers, stored-exception re-raise) computes "
        "what can leave each public entry point; every escaping class must be a documented httpcore exception, or allowed with a reason "
        "(explicit RuntimeError/TypeError guards, ConnectionNotAvailable at connection level only), or a row of the infeasible table. "
        "R2: the cause tag carried from the source must match the class (peer-input -> RemoteProtocolError/ProxyError, local-send -> "
        "LocalProtocolError). R3: checked side conditions of infeasible rows (start_next_cycle under DONE/DONE; extensions[K] produced by "
        "every Response construction). R4: every network read either feeds a parser with EOF semantics unconditionally or raises on b'' "
        "before the parser (never hangs / never loops on EOF). R5: in the real backends every blocking operation is inside map_exceptions "
        "whose values belong to the operation's family, timeout keys map to the *Timeout class, and no earlier key shadows a later one. "
        "Exceptions raised inside anyio/trio/ssl beyond their maps are not decided."
    )
    for r, t in (("C15.R1", "escape(entry) is a subset of documented + allowed-with-reason + infeasible"),
                 ("C15.R2", "cause tag matches class"),
                 ("C15.R3", "side conditions of infeasible rows hold"),
                 ("C15.R4", "EOF disposition of every network read"),
                 ("C15.R5", "backend exception maps are per-family, ordered, and cover the blocking call")):
        rep.rule(r, t)
    doc = documented(ctx)
    esc = ctx.escape
    if esc.unknown_boundary:
        raise AnalysisError("unknown boundary call(s): " + "; ".join(esc.unknown_boundary[:5]))
    rep.stat("escape_fixpoint_rounds", esc.rounds)
    rep.stat("call_resolution", dict(ctx.types.stats))
    for tree, N in trees(ctx):
        ents = entries(ctx, N)
        rep.floor("C15.R1", f"public entry points ({tree})", len(ents), 26)
        seen: dict[str, bool] = {}
        nsrc = 0
        for f, level in ents:
            for s in esc.of(f).values():
                nsrc += 1
                _judge(ctx, tree, N, f, level, s, doc, seen)
        rep.stat(f"escaping_sources_{tree}", nsrc)
        for key, ok in seen.items():
            pass
        _eof(ctx, tree, N)
    _backend_maps(ctx)
    rep.assume("h11 0.14 / h2 4.4 / socksio 1.0 raise only what the boundary table says (table confirmed by reading the installed sources)")
    rep.assume("stream.aclose()/close() and user callbacks (trace, body iterators) are outside the property")
    rep.assume("implicit AttributeError/TypeError are excluded by the repository's own mypy --strict gate")


def _is_doc(ctx: Context, cls: str, doc: set[str]) -> bool:
    return any(ctx.escape.is_sub(cls, d) for d in doc)


def _judge(ctx: Context, tree: str, N: Names, entry: FuncInfo, level: str, s: Src, doc: set[str], seen: dict[str, bool]) -> None:
    rep = ctx.rep
    esc = ctx.escape
    if s.cls in (CANCELLED, "GeneratorExit"):
        return
    okey = f"{tree}|{s.origin}|{s.cls}"
    # an exception that was parked in a field and is re-raised to ANOTHER caller later (`raise self._read_exception`) is a different way out than the direct one
    via = [m_.group(1) for c in s.chain for m_ in [re.search(r": raise (self\.\w+)\s*$", c)] if m_]
    if via:
        okey += f"|via:{via[0]}"
    witness = {"entry": entry.short, "chain": list(s.chain), "tag": s.tag}
    loc_ = s.chain[0].split(" ", 1)[0] if s.chain else entry.where
    if s.tag == "config":
        rep.note(f"{tree}: {s.cls} from {s.origin.split('|')[0]} is a configuration/environment fault (outside the quantifier)")
        return
    if _is_doc(ctx, s.cls, doc):
        # R2 cause vs class
        ok = True
        why = f"{s.cls} / {s.tag}"
        if s.tag == "peer-input":
            ok = esc.is_sub(s.cls, "RemoteProtocolError") or esc.is_sub(s.cls, "ProxyError") or esc.is_sub(s.cls, "TimeoutException") or esc.is_sub(s.cls, "NetworkError")
            why = f"malformed peer data surfaces as {s.cls}; must be RemoteProtocolError (or ProxyError)"
        elif s.tag == "local-send":
            ok = esc.is_sub(s.cls, "LocalProtocolError")
            why = f"an invalid request from the caller surfaces as {s.cls}; must be LocalProtocolError"
        k2 = f"C15.R2|{okey}|{s.tag}"
        if k2 not in seen:
            seen[k2] = ok
            rep.ob("C15.R2", f"{okey}|{s.tag}", ok, loc_, why + f" (source {s.origin}, seen at {entry.short})", witness)
        return
    if okey in seen:
        return
    if s.cls == "ConnectionNotAvailable":
        if level == "connection":
            return  # allowed at connection level (the pool's retry protocol)
        seen[okey] = False
        rep.ob("C15.R1", okey, False, loc_, f"ConnectionNotAvailable (internal retry signal) escapes the pool-level entry {entry.short} via {' > '.join(c.split(' ',1)[0] for c in s.chain)}", witness)
        return
    if s.cls in ALLOWED_WITH_REASON and s.tag == "explicit":
        return
    construct = s.origin.split("|", 1)[1] if "|" in s.origin else s.origin
    func_part = s.origin.split("|", 1)[0]
    if s.cls == "AssertionError":
        key = narrowing_key(construct)
        if key in NARROWING_ASSERTS:
            return
        seen[okey] = False
        rep.ob("C15.R1", okey, False, loc_, f"assert on a request path can fail with a bare AssertionError reaching {entry.short}: `{construct}` is not one of the frozen typing-narrowing asserts", witness)
        return
    for fn, frag, cls, reason in INFEASIBLE:
        if cls == s.cls and frag.replace(" ", "") in construct and (func_part.endswith(fn) or func_part.endswith(N.t(fn))):
            return
    # `self._connections.remove(<x>)` inside the assignment pass: infeasible when <x> was read from that very list (whatever the local is called)
    if s.cls == "ValueError" and construct.startswith("self._connections.remove(") and (func_part.endswith("_assign_requests_to_connections")):
        ok = _removed_from_same_list(ctx, N, construct)
        if ok:
            return
    # checked side conditions (R3)
    if s.cls == "h11.LocalProtocolError" and "start_next_cycle" in construct:
        ok = _start_next_cycle_guarded(ctx, N)
        seen[okey] = ok
        rep.ob("C15.R3", okey, ok, loc_, "start_next_cycle() is dominated by the both-sides-DONE test" if ok else "start_next_cycle() can run while h11 is not DONE/DONE: raw h11.LocalProtocolError", witness)
        return
    m = re.search(r"extensions\['(\w+)'\]", construct)
    if s.cls == "KeyError" and m:
        ok, why = _extension_produced(ctx, N, m.group(1))
        seen[okey] = ok
        rep.ob("C15.R3", okey, ok, loc_, why, witness)
        return
    seen[okey] = False
    rep.ob("C15.R1", okey, False, loc_,
           f"{s.cls} (cause: {s.tag}) from `{construct[:80]}` can reach the caller of {entry.short}; it is not a documented httpcore exception "
           f"[{' > '.join(c.split(' ', 1)[0] for c in s.chain)}]", witness)


def _removed_from_same_list(ctx: Context, N: Names, construct: str) -> bool:
    f = N.func("connection_pool", "AsyncConnectionPool._assign_requests_to_connections")
    for c in own_nodes(f.node):
        if isinstance(c, ast.Call) and norm(c) == construct and c.args:
            alts = [norm(a) for a in ctx.prov.expand(c.args[0], f, c)]
            return bool(alts) and all("self._connections" in a for a in alts)
    return False


def _start_next_cycle_guarded(ctx: Context, N: Names) -> bool:
    f = N.func("http11", "AsyncHTTP11Connection._response_closed")
    calls = [c for c in own_nodes(f.node) if isinstance(c, ast.Call) and (chain(c.func) or [''])[-1] == "start_next_cycle"]
    need = {"h11.DONE==self._h11_state.our_state", "h11.DONE==self._h11_state.their_state"}
    all_sites = [c for g in N.functions() for c in own_nodes(g.node) if isinstance(c, ast.Call) and (chain(c.func) or [''])[-1] == "start_next_cycle"]
    return bool(calls) and len(all_sites) == len(calls) and all(need <= guard_atoms(guards_of(c)) for c in calls)


def _extension_produced(ctx: Context, N: Names, key: str) -> tuple[bool, str]:
    producers = []
    for mod, cn in (("http11", "AsyncHTTP11Connection"), ("http2", "AsyncHTTP2Connection")):
        f = N.func(mod, f"{cn}.handle_async_request")
        for c in own_nodes(f.node):
            if isinstance(c, ast.Call) and norm(c.func) == "Response":
                ext = next((k.value for k in c.keywords if k.arg == "extensions"), None)
                has = isinstance(ext, ast.Dict) and any(isinstance(k, ast.Constant) and k.value == key for k in ext.keys)
                producers.append((f.short, has))
    ok = len(producers) >= 2 and all(h for _, h in producers)
    return ok, f"extensions['{key}'] is produced by every protocol Response construction: {producers}"


def _eof(ctx: Context, tree: str, N: Names, rule: str = "C15.R4") -> None:
    """R4: every network read either feeds a parser with EOF semantics unconditionally, or raises on b'' first."""
    rep = ctx.rep
    n = 0
    for s, op in net_sites(ctx, N.functions()):
        if op != "read":
            continue
        f = s.owner
        if f.cls is not None and f.cls.qual in ctx.escape.net_classes:
            continue  # stream wrappers pass the bytes through
        n += 1
        cfg = ctx.cfg(f)
        start = cfg.nodes_for(s.node)
        if not start:
            raise AnalysisError(f"no CFG node for read site in {f.qual}")
        st = start[0].ast
        var = None
        if isinstance(st, ast.Assign) and isinstance(st.targets[0], ast.Name):
            var = st.targets[0].id
        if var is None:
            rep.ob(rule, fkey(tree, f, f"read:{norm(s.node)[:50]}"), False, where(f, s.node), "the result of the network read is not bound to a variable (bytes dropped)")
            continue

        def feeds(nd) -> str | None:
            if nd.ast is None or nd.kind != "stmt":
                return None
            for c in ast.walk(nd.ast):
                if isinstance(c, ast.Call) and isinstance(c.func, ast.Attribute) and c.func.attr == "receive_data" and [norm(a) for a in c.args] == [var]:
                    for cs in ctx.callgraph.sites_at(c):
                        for e in cs.ext_targets():
                            return e
                    return "?"
            return None

        # walk normal paths from the read until a feed or a raise
        reach = cfg.reachable([e.dst for e in start[0].succ if e.kind != "exc"], follow=lambda e: e.kind != "exc",
                              stop=lambda nd: feeds(nd) is not None or nd.kind == "raise")
        escaped = [nd for nd in cfg.nodes if nd.id in reach and (nd is cfg.exit or nd.kind in ("while", "for") or nd.kind == "return") and feeds(nd) is None]
        feeders = [(nd, feeds(nd)) for nd in cfg.nodes if nd.id in reach and feeds(nd) is not None]
        ok = bool(feeders) and not escaped
        detail = f"read result `{var}` reaches {[fd for _, fd in feeders]} on every normal path"
        if escaped:
            detail = f"a path from the read at line {start[0].lineno} reaches `{escaped[0].text()}` without feeding `{var}` to the parser (EOF would be swallowed / the loop would spin)"
        for nd, target in feeders:
            eof_sem = target is not None and (target.startswith("h11.") or target.startswith("socksio."))
            if not eof_sem:
                # parser ignores b'': an equality test with b'' that raises must dominate the feed
                gs = guard_atoms(guards_of(nd.ast))
                guarded = f"{var}!=b''" in gs or f"b''!={var}" in gs or f"not:not{var}" in gs or f"{var}" in gs
                if not guarded:
                    # an `if var == b"": raise` anywhere that dominates the feed (e.g. inside a preceding try)
                    from ..norm import canon_atom, conj_atoms
                    for ifn in cfg.nodes:
                        if ifn.kind != "if" or not cfg.dominates(ifn, nd):
                            continue
                        atoms = {canon_atom(a, p) for a, p in conj_atoms(ifn.ast.test, True)}
                        if atoms & {f"{var}==b''", f"b''=={var}", f"not:{var}"}:
                            tstarts = [e.dst for e in ifn.succ if e.kind == "t"]
                            r2 = cfg.reachable(tstarts, follow=lambda e: e.kind != "exc", stop=lambda x: x.kind == "raise")
                            if nd.id not in r2 and cfg.exit.id not in r2:
                                guarded = True
                ok = ok and guarded
                detail += f"; {target} has no EOF semantics: " + ("b'' raises before the parser" if guarded else f"no `{var} == b''` test raises before the parser - a closed connection would never be noticed (hang)")
        rep.ob(rule, fkey(tree, f, f"read:{var}"), ok, where(f, s.node), detail)
    rep.floor(rule, f"network read sites outside stream wrappers ({tree})", n, 3)


FAMILY = {"read": ("ReadTimeout", "ReadError"), "write": ("WriteTimeout", "WriteError"), "start_tls": ("ConnectTimeout", "ConnectError"),
          "connect_tcp": ("ConnectTimeout", "ConnectError"), "connect_unix_socket": ("ConnectTimeout", "ConnectError"), "wait": ("PoolTimeout", "PoolTimeout")}


def _backend_maps(ctx: Context) -> None:
    rep = ctx.rep
    esc = ctx.escape
    nmaps = 0
    targets: list[FuncInfo] = []
    for modname in ("httpcore._backends.anyio", "httpcore._backends.trio", "httpcore._backends.sync"):
        for c in ctx.prog.module(modname).classes.values():
            for f in c.methods.values():
                if f.name in NET_OPS:
                    targets.append(f)
    ev = ctx.prog.module("httpcore._synchronization").classes.get("AsyncEvent")
    if ev is not None and "wait" in ev.methods:
        targets.append(ev.methods["wait"])
    from ..escape import Ctx as ECtx

    for f in targets:
        if any(isinstance(s, ast.Raise) and "NotImplementedError" in ast.unparse(s) for s in f.node.body):
            continue
        withs = [n for n in own_nodes(f.node) if isinstance(n, (ast.With, ast.AsyncWith)) and any(esc._map_of(it, ECtx(f)) is not None for it in n.items)]
        # a timeout scope raises from its own exit: it must lie INSIDE the mapping scope, not beside / around it
        for n in own_nodes(f.node):
            if isinstance(n, (ast.With, ast.AsyncWith)):
                for i, it in enumerate(n.items):
                    ce = it.context_expr
                    if isinstance(ce, ast.Call) and (chain(ce.func) or [""])[-1] in ("fail_after", "move_on_after"):
                        mapped_before = any(esc._map_of(prev, ECtx(f)) is not None for prev in n.items[:i])
                        mapped_outside = any(esc._map_of(oi, ECtx(f)) is not None for ow in _anc(n) if isinstance(ow, (ast.With, ast.AsyncWith)) for oi in ow.items)
                        okm = mapped_before or mapped_outside
                        rep.ob("C15.R5", fkey("backend", f, f"timeout-scope-inside-map:{norm(ce)}"), okm, where(f, ce),
                               "the timeout scope lies inside the map_exceptions scope" if okm else
                               f"`{ast.unparse(ce)}` is not enclosed by map_exceptions (its TimeoutError is raised when the timeout scope exits, after the mapping scope has already exited): "
                               "a timed-out operation raises the runtime's bare TimeoutError to the caller")
        if not withs:
            rep.ob("C15.R5", fkey("backend", f, "map_exceptions"), False, where(f), "backend operation has no map_exceptions scope: library exceptions would reach the caller raw")
            continue
        tmo, err = FAMILY[f.name]
        for w in withs:
            nmaps += 1
            pairs = next((p_ for p_ in (esc._map_of(it, ECtx(f)) for it in w.items) if p_ is not None), [])
            probs = []
            for k, v in pairs:
                if v not in (tmo, err):
                    probs.append(f"{k} -> {v} is outside the {f.name} family ({tmo}/{err})")
                if k in B.TIMEOUT_LIKE and v != tmo:
                    probs.append(f"timeout-like {k} must map to {tmo}, maps to {v}")
                if k not in B.TIMEOUT_LIKE and v == tmo and tmo != err:
                    probs.append(f"{k} is not a timeout but maps to {tmo}")
            for i, (k1, _) in enumerate(pairs):
                for k2, v2 in pairs[i + 1:]:
                    if esc.is_sub(k2, k1) and k1 != k2 and dict(pairs)[k1] != v2:
                        probs.append(f"key {k1} precedes its subclass {k2}: first match wins, {k2} would be reported as {dict(pairs)[k1]}")
            if f.name != "wait" and not any(k in B.TIMEOUT_LIKE for k, _ in pairs):
                probs.append("no timeout-like key: a timed-out operation would raise the library's own timeout error")
            rep.ob("C15.R5", fkey("backend", f, f"map:{','.join(k for k, _ in pairs)}"), not probs, where(f, w), "; ".join(probs) or f"map {pairs} ok")
            # blocking calls must be inside the scope
        inside = {id(x) for w in withs for x in ast.walk(w)}
        for n in own_nodes(f.node):
            blocking = None
            if isinstance(n, ast.Await):
                ch = chain(n.value.func) if isinstance(n.value, ast.Call) else None
                if not (ch and ch[-1] in ("aclose", "close")):
                    blocking = n
            elif not f.is_async and isinstance(n, ast.Call):
                ch = chain(n.func)
                last = ch[-1] if ch else (n.func.attr if isinstance(n.func, ast.Attribute) else "")
                if last in ("recv", "send", "sendall", "connect", "wrap_socket", "create_connection", "_perform_io", "TLSinTLSStream"):
                    blocking = n
            if blocking is not None:
                handler_close = any(isinstance(a, ast.ExceptHandler) for a in _anc(blocking))
                rep.ob("C15.R5", fkey("backend", f, "covered:" + norm(blocking)[:60]), id(blocking) in inside or handler_close, where(f, blocking),
                       "blocking call is inside the map_exceptions scope" if id(blocking) in inside else "blocking call outside map_exceptions: raw library exception escapes")
    rep.floor("C15.R5", "backend exception maps", nmaps, 17)


def _anc(n: ast.AST):
    p = parent(n)
    while p is not None:
        yield p
        p = parent(p)

_core_run = run


def run(ctx: Context) -> None:  # noqa: F811
    _core_run(ctx)
    from . import backend

    ctx.rep.rule('C15.R6', 'every raw socket / runtime call of a backend operation (directly or through a helper) lies inside a map_exceptions scope; close() is exactly the release call')
    backend.raw_calls_mapped(ctx, 'C15.R6')
    ctx.rep.explanation = (ctx.rep.explanation or '') + ' R6 (transport layer): no raw socket/runtime call of a backend operation lies outside map_exceptions (close()/aclose() may contain only the release itself).'
    from . import support

    ctx.rep.rule('C15.R7', 'the exception-mapping helper has exactly the meaning the analysis assumes, and no context manager of the package suppresses exceptions')
    support.mapping_helper_faithful(ctx, 'C15.R7')
    support.exits_never_suppress(ctx, 'C15.R7')



_core_run_r8 = run


def run(ctx: Context) -> None:  # noqa: F811
    _core_run_r8(ctx)
    from . import c14

    if ctx.rep._borrow is not None:
        return          # already running as a lender: no chains
    with ctx.rep.borrow({"C14.R2": ("C15.R8", "the internal retry signal ConnectionNotAvailable is raised after request data was sent only for a stream STRICTLY above the GOAWAY's last-stream-id "
                                               "(the one input for which its escape during a body read is the listed finding KF4) - any wider test lets it reach the caller for streams the server accepted:")}):
        c14.run(ctx)
