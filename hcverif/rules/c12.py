"""C12 - HTTP/2 streams are isolated, bounded and cannot wedge each other."""
from __future__ import annotations

import ast

from ..context import Context
from ..guards import guards_of
from ..load import AnalysisError, FuncInfo, Names, chain, norm, own_nodes, parent
from ..norm import UNKNOWN, guard_atoms, peval
from .c01 import _r7 as demux_keys
from .c05 import node_calls
from .c07 import wait_for_cycles
from .common import calls_named, fkey, trees, where


def run(ctx: Context) -> None:
    rep = ctx.rep
    rep.explanation = (
        "Arbitrary frame interleavings are h2 behaviour and not decided. Decided: R1 the per-stream event table is keyed consistently "
        "(append under the event's own stream id behind a membership guard; pop / delete under the routine's id); R2 slot accounting - the "
        "slot acquire dominates the stream-id allocation, the semaphore starts with (bound - (bound - 1)) = 1 permit until the server's "
        "SETTINGS arrive, the bound is the local MAX_CONCURRENT_STREAMS (100); R3 a SETTINGS change adjusts the permits to min(remote, "
        "local) by paired release/+=1 and acquire/-=1 loops; R4 the stream's event queue is registered before its first frame is sent; "
        "R5 the wait-for graph over locks and slot permits is acyclic (a reader blocking on the semaphore while holding the read lock, "
        "with every open stream needing the read lock to finish, is the SETTINGS-decrease deadlock)."
    )
    for r, t in (("C12.R1", "event table keyed by stream id consistently"), ("C12.R2", "slot acquire before id allocation; one initial permit; bound 100"),
                 ("C12.R3", "SETTINGS adjust: min(remote, local), paired permit/limit updates"), ("C12.R4", "event queue registered before the first send"),
                 ("C12.R5", "no wait-for cycle between the read lock and the stream slots")):
        rep.rule(r, t)
    for tree, N in trees(ctx):
        h2c = N.cls("http2", "AsyncHTTP2Connection")
        demux_keys(ctx, tree, N, h2c, rule="C12.R1")
        f = h2c.methods[N.t("handle_async_request")]
        cfg = ctx.cfg(f)
        # R2
        acq = [n for n in cfg.nodes if n.kind == "stmt" and node_calls(n, lambda c: norm(c.func) == "self._max_streams_semaphore.acquire")
               and not any(isinstance(a, (ast.For, ast.While)) for a in _anc(n.ast))]
        alloc = [n for n in cfg.nodes if node_calls(n, lambda c: norm(c.func) == "self._h2_state.get_next_available_stream_id")]
        rep.floor("C12.R2", f"stream id allocation ({tree})", len(alloc), 1)
        rep.ob("C12.R2", fkey(tree, f, "acquire-dominates-alloc"), bool(acq) and all(any(cfg.dominates(a, x) for a in acq) for x in alloc), where(f, alloc[0].ast if alloc else None),
               "a stream slot is acquired before every stream id allocation" if acq else "no stream-slot acquire precedes the stream id allocation: more streams than the server allows can be opened")
        sem = [n for n in own_nodes(f.node) if isinstance(n, ast.Assign) and norm(n.targets[0]) == "self._max_streams_semaphore"]
        pre = [n for n in own_nodes(f.node) if isinstance(n, ast.For) and any(isinstance(c, ast.Call) and norm(c.func) == "self._max_streams_semaphore.acquire" for c in ast.walk(n))]
        ms = [n for n in own_nodes(f.node) if isinstance(n, ast.Assign) and norm(n.targets[0]) == "self._max_streams"]
        ok = False
        detail = "initial permit computation not located"
        if sem and pre and ms and isinstance(sem[0].value, ast.Call) and sem[0].value.args:
            bound = sem[0].value.args[0]
            env = {norm(bound): 100, "self._max_streams": peval(ms[0].value, {}), "local_settings_max_streams": 100}
            it = pre[0].iter
            cnt = peval(it.args[0], env) if isinstance(it, ast.Call) and norm(it.func) == "range" and len(it.args) == 1 else UNKNOWN
            ok = cnt is not UNKNOWN and env["self._max_streams"] == 1 and 100 - cnt == 1 and ms[0].lineno < pre[0].lineno
            detail = f"semaphore bound {ast.unparse(bound)}; pre-acquired {ast.unparse(it)} = {cnt} of 100 with _max_streams = {env['self._max_streams']}: {100 - cnt if cnt is not UNKNOWN else '?'} initial permit(s)"
            terms = [norm(a) for a in ctx.prov.expand(bound, f, sem[0])]
            okb = terms == ["self._h2_state.local_settings.max_concurrent_streams"]
            rep.ob("C12.R2", fkey(tree, f, "bound-is-local-setting"), okb, where(f, sem[0]), f"semaphore bound <- {terms}")
        rep.ob("C12.R2", fkey(tree, f, "one-initial-permit"), ok, where(f, sem[0] if sem else None), detail)
        init = h2c.methods["_send_connection_init"]
        hundred = any(isinstance(k, ast.Attribute) and k.attr == "MAX_CONCURRENT_STREAMS" and isinstance(v, ast.Constant) and v.value == 100
                      for d in own_nodes(init.node) if isinstance(d, ast.Dict) for k, v in zip(d.keys, d.values))
        rep.ob("C12.R2", fkey(tree, init, "local-max-100"), hundred, where(init), "local MAX_CONCURRENT_STREAMS is 100")
        # R3
        g = h2c.methods["_receive_remote_settings_change"]
        nm = [n for n in own_nodes(g.node) if isinstance(n, ast.Assign) and norm(n.targets[0]) == "new_max_streams"]
        okm = bool(nm) and isinstance(nm[0].value, ast.Call) and norm(nm[0].value.func) == "min" and sorted(norm(a) for a in nm[0].value.args) == sorted(
            ["max_concurrent_streams.new_value", "self._h2_state.local_settings.max_concurrent_streams"])
        rep.ob("C12.R3", fkey(tree, g, "min-remote-local"), okm, where(g, nm[0] if nm else None), f"new limit <- {ast.unparse(nm[0].value) if nm else '?'}")
        loops = [n for n in own_nodes(g.node) if isinstance(n, ast.While)]
        seen = {"release": False, "acquire": False}
        for lp in loops:
            calls = [c for c in ast.walk(lp) if isinstance(c, ast.Call) and norm(c.func.value if isinstance(c.func, ast.Attribute) else c.func) == "self._max_streams_semaphore"]
            augs = [a for a in ast.walk(lp) if isinstance(a, ast.AugAssign) and norm(a.target) == "self._max_streams"]
            if len(calls) != 1 or len(augs) != 1:
                rep.ob("C12.R3", fkey(tree, g, f"loop:{norm(lp.test)}"), False, where(g, lp), "adjust loop does not pair one permit operation with one limit update")
                continue
            op = calls[0].func.attr
            inc = isinstance(augs[0].op, ast.Add)
            one = isinstance(augs[0].value, ast.Constant) and augs[0].value.value == 1
            tt = {(a, b): peval(lp.test, {"new_max_streams": a, "self._max_streams": b}) for a, b in ((1, 2), (2, 2), (3, 2))}
            want = {(1, 2): op == "acquire", (2, 2): False, (3, 2): op == "release"}
            ok = one and ((op == "release" and inc) or (op == "acquire" and not inc)) and tt == want
            seen[op] = seen.get(op, False) or ok
            rep.ob("C12.R3", fkey(tree, g, f"loop:{op}"), ok, where(g, lp),
                   f"`while {ast.unparse(lp.test)}`: {op}() paired with _max_streams {'+=' if inc else '-='} {ast.unparse(augs[0].value)}; loop condition over (new,cur) {tt}")
        rep.ob("C12.R3", fkey(tree, g, "both-directions"), seen["release"] and seen["acquire"], where(g), "limit increases release permits and decreases take them back")
        # R4
        reg = [n for n in cfg.nodes if n.kind == "stmt" and isinstance(n.ast, ast.Assign) and norm(n.ast.targets[0]) == "self._events[stream_id]"]
        snd = [n for n in cfg.nodes if node_calls(n, lambda c: norm(c.func) == "self._send_request_headers")]
        rep.floor("C12.R4", f"first send of a stream ({tree})", len(snd), 1)
        rep.ob("C12.R4", fkey(tree, f, "register-before-send"), bool(reg) and all(cfg.dominates(reg[0], s) for s in snd), where(f, reg[0].ast if reg else None),
               "the stream's event queue is registered before its HEADERS are sent" if reg else "the stream's event queue is never registered: its response events would be dropped")
        wait_for_cycles(ctx, "C12.R5", tree, N)


def _anc(n):
    p = parent(n) if n is not None else None
    while p is not None:
        yield p
        p = parent(p)


_core_run = run
STICKY = ("self._read_exception", "self._write_exception", "self._connection_error", "self._connection_terminated")


def _sticky_only_connection_failures(ctx: Context) -> None:
    """A caller abandoning its request (cancellation, any BaseException that is not an Exception) is that caller's own event:
    it must never be recorded in the connection-wide failure fields, which fail every other stream on their next read/write."""
    rep = ctx.rep
    for tree, N in trees(ctx):
        c = N.cls("http2", "AsyncHTTP2Connection")
        n = 0
        for f in c.methods.values():
            for st in own_nodes(f.node):
                if not (isinstance(st, ast.Assign) and norm(st.targets[0]) in STICKY):
                    continue
                if isinstance(st.value, ast.Constant) and st.value.value in (None, False):
                    continue
                hs = [a for a in _anc(st) if isinstance(a, ast.ExceptHandler)]
                if not hs or f.name == "__init__":
                    continue
                n += 1
                h = hs[0]
                names = []
                if h.type is None:
                    names = ["BaseException"]
                else:
                    for e in (h.type.elts if isinstance(h.type, ast.Tuple) else [h.type]):
                        names.append(ctx.escape.exc_name(f.module, e) or ast.unparse(e))
                wide = [x for x in names if x in ("BaseException", "Cancelled", "CancelledError", "GeneratorExit", "KeyboardInterrupt")]
                rep.ob("C12.R6", fkey(tree, f, f"sticky:{norm(st.targets[0])}"), not wide, where(f, st),
                       f"`{norm(st.targets[0])}` is recorded only for {names}" if not wide else
                       f"`{norm(st.targets[0])}` is recorded in an `except {', '.join(names)}` handler: a caller cancelled while it performs the shared read/write poisons the connection - "
                       "every other stream then fails (with that caller's cancellation) instead of running to completion")
        rep.floor("C12.R6", f"connection-wide failure stores inside handlers ({tree})", n, 2)


def run(ctx: Context) -> None:  # noqa: F811
    _core_run(ctx)
    ctx.rep.rule("C12.R6", "connection-wide failure fields are set only for Exceptions (a caller's own cancellation never fails the other streams)")
    _sticky_only_connection_failures(ctx)


def _stream_id_reserved_atomically(ctx: Context) -> None:
    """h2's `get_next_available_stream_id()` does not reserve the id: the counter only advances in `send_headers()`.  Between
    the two there must be no suspension point (async tree) - otherwise a second request scheduled in the gap is given the
    same id, overwrites the first one's event queue, and the two streams destroy each other (KeyError / protocol error / a
    response that is never delivered)."""
    rep = ctx.rep
    for tree, N in trees(ctx):
        if tree != "async":
            continue
        h2c = N.cls("http2", "AsyncHTTP2Connection")
        f = h2c.methods["handle_async_request"]
        g = h2c.methods["_send_request_headers"]
        cfg = ctx.cfg(f)
        alloc = [n for n in cfg.nodes if node_calls(n, lambda c: norm(c.func) == "self._h2_state.get_next_available_stream_id")]
        call = [n for n in cfg.nodes if node_calls(n, lambda c: norm(c.func) == "self._send_request_headers")]
        if not alloc or not call:
            raise AnalysisError("anchor vanished: stream id allocation / _send_request_headers call in the HTTP/2 request routine")
        r1 = cfg.reachable([e.dst for e in alloc[0].succ if e.kind != "exc"], follow=lambda e: e.kind != "exc", stop=lambda n: n is call[0])
        between = [n for n in cfg.nodes if n.id in r1 and n is not call[0] and n.may_cancel()]
        # inside the callee: nothing suspends before h2.send_headers
        cfg2 = ctx.cfg(g)
        snd = [n for n in cfg2.nodes if node_calls(n, lambda c: norm(c.func) == "self._h2_state.send_headers")]
        inner = [n for n in cfg2.nodes if snd and n is not snd[0] and n.may_cancel() and not cfg2.dominates(snd[0], n)] if snd else []
        ok = not between and bool(snd) and not inner
        rep.ob("C12.R7", fkey(tree, f, "stream-id-reserved-atomically"), ok, where(f, (between[0].ast if between else alloc[0].ast)),
               "no suspension point between get_next_available_stream_id() and h2's send_headers()" if ok else
               f"suspension point `{(between or inner)[0].text()}` lies between get_next_available_stream_id() and send_headers(): h2 reserves the id only in send_headers(), so a request "
               "scheduled in the gap receives the SAME stream id and overwrites this stream's event queue",
               [n.text() for n in (between + inner)[:4]])


_core_run4 = run


def run(ctx: Context) -> None:  # noqa: F811
    _core_run4(ctx)
    ctx.rep.rule("C12.R7", "a stream id is reserved atomically: no suspension between get_next_available_stream_id() and h2's send_headers()")
    _stream_id_reserved_atomically(ctx)
    from .c09 import pending_visible_to_idle_transition

    ctx.rep.rule('C12.R8', 'a request waiting for a stream slot is visible to the IDLE transition: it waits for a stream to end rather than fail (shared with C09.R8)')
    pending_visible_to_idle_transition(ctx, 'C12.R8')
    from . import support as _support

    ctx.rep.rule('C12.R9', 'async tree: every test / suspension / write sequence on a field of a task-shared object is one critical section of an async lock that all writers of the field hold')
    _support.await_atomicity_census(ctx, 'C12.R9')



_core_run_r10 = run


def run(ctx: Context) -> None:  # noqa: F811
    _core_run_r10(ctx)
    from .c03 import drain_write_atomic

    ctx.rep.rule("C12.R10", "one caller abandoning its request cannot damage the other streams: the frames a task has drained from the shared h2 state machine "
                            "(HPACK table, stream states and windows already updated) cannot be dropped by a cancellation before they are written")
    drain_write_atomic(ctx, "C12.R10", "a request cancelled there takes frames with it that the shared encoder has already accounted for - the server's HPACK table falls behind, "
                                       "every LATER request on the connection is decoded wrongly or refused (COMPRESSION_ERROR, GOAWAY) although its caller did nothing")



_core_run_r11 = run


def run(ctx: Context) -> None:  # noqa: F811
    _core_run_r11(ctx)
    from ..norm import UNKNOWN as _U, peval as _pe

    rep = ctx.rep
    rep.rule("C12.R11", "a peer's SETTINGS_MAX_CONCURRENT_STREAMS = 0 is never applied: the permit-withdrawing loop (which runs in the task that holds the read lock, and would wait "
                        "for the permit of that task's own stream) is unreachable for the value 0")
    n = 0
    for tree, N in trees(ctx):
        h2 = N.cls("http2", "AsyncHTTP2Connection")
        for f in h2.methods.values():
            for lp in [x for x in own_nodes(f.node) if isinstance(x, ast.While)]:
                acq = [c for c in ast.walk(lp) if isinstance(c, ast.Call) and norm(c.func).endswith("_max_streams_semaphore.acquire")]
                if not acq or "self._max_streams" not in norm(lp.test):
                    continue
                # the variable compared with the current limit in the loop test is the new limit
                names = [x.id for x in ast.walk(lp.test) if isinstance(x, ast.Name)]
                if not names:
                    continue
                n += 1
                new = names[0]
                reachable = True
                for test, pol in list(guards_of(lp)) + [(lp.test, True)]:
                    v = _pe(test, {new: 0, "self._max_streams": 1})
                    if v is not _U and bool(v) != pol:
                        reachable = False
                rep.ob("C12.R11", fkey(tree, f, "zero-limit-not-applied"), not reachable, where(f, lp),
                       "the loop that takes permits back is not entered for a new limit of 0" if not reachable else
                       f"`{ast.unparse(lp.test)}` is reachable with {new} = 0: the reader task then waits for every permit, its own stream's included, while holding the read lock - "
                       "no stream on the connection can make progress any more, not even after the peer raises the limit again")
    rep.floor("C12.R11", "permit-withdrawing loops (both trees)", n, 2)



def read_recheck(ctx: Context, rule: str, why: str) -> None:
    """Double-checked read of the shared socket.  A task that wants an event of stream S tests its queue, then waits for the read lock; the reader ahead of it may
    have queued S's events meanwhile.  Necessary condition for progress against a server that has answered everything: inside the read-lock region the network read
    is reached only if S's queue is (still) empty - or no stream was named (flow-control wait) - and that test is evaluated after the lock was taken."""
    rep = ctx.rep
    rep.rule(rule, "HTTP/2 shared read: inside the read lock the network read is guarded by a fresh emptiness test of the caller's own event queue (or by `no stream named`) - " + why)
    n = 0
    for tree, N in trees(ctx):
        h2 = N.cls("http2", "AsyncHTTP2Connection")
        f = h2.methods.get("_receive_events")
        if f is None:
            continue
        params = [a.arg for a in f.node.args.args]
        sid = "stream_id" if "stream_id" in params else None
        reads = [c for c in own_nodes(f.node) if isinstance(c, ast.Call) and norm(c.func) == "self._read_incoming_data"]
        for c in reads:
            n += 1
            locks = [w for w, i in enclosing_withs_(c) if "_read_lock" in norm(i.context_expr)]
            if not locks or sid is None:
                rep.ob(rule, fkey(tree, f, "read-under-lock"), False, where(f, c), "the network read is not inside the read lock / the routine takes no stream id")
                continue
            lock = locks[0]
            inside = {id(x) for x in ast.walk(lock)}
            gs = [(t, pol) for t, pol in guards_of(c) if id(getattr(t, "_orig", t)) in inside]
            # every local the tests read is bound inside the lock region (a value computed before the wait for the lock is stale)
            stale = []
            for t, _ in gs:
                for x in ast.walk(t):
                    if isinstance(x, ast.Name) and x.id not in ("self", sid) and x.id in {y.id for y in own_nodes(f.node) if isinstance(y, ast.Name) and isinstance(y.ctx, ast.Store)}:
                        defs = [y for y in own_nodes(f.node) if isinstance(y, ast.Name) and isinstance(y.ctx, ast.Store) and y.id == x.id]
                        if any(id(d) not in inside for d in defs):
                            stale.append(x.id)

            def reached(env: dict) -> object:
                res: object = True
                for t, pol in gs:
                    if getattr(t, "_orig", None) is not None and any(t2 is t._orig for t2, _ in gs):  # type: ignore[attr-defined]
                        pass            # expanded twin of a raw guard: both are evaluated, they agree by construction
                    v = peval(t, env)
                    if v is UNKNOWN:
                        res = UNKNOWN if res is True else res
                    elif bool(v) != pol:
                        return False
                return res
            q = lambda v: {sid: 1, f"self._events.get({sid})": v, f"self._events[{sid}]": v, f"{sid}inself._events": True, f"len(self._events.get({sid}))": len(v or ()), f"len(self._events[{sid}])": len(v or ())}  # noqa: E731
            pending, empty, unnamed = reached(q(["ev"])), reached(q([])), reached({sid: None, f"self._events.get({sid})": None})
            # other tests on the way (GOAWAY seen ...) may restrict the read further: only the queue test is judged
            ok = pending is False and empty is not False and unnamed is not False and not stale
            rep.ob(rule, fkey(tree, f, "read-recheck"), ok, where(f, c),
                   "inside the read lock the socket is read only while the caller's own queue is empty, or when no stream is named" if ok else
                   f"network read reached with events pending for the caller's stream: {pending}; with an empty queue: {empty}; with no stream named: {unnamed}"
                   + (f"; test uses {sorted(set(stale))} computed before the lock was taken" if stale else "")
                   + " - a task that waited for the read lock while the previous reader queued its complete response reads again from a server that has nothing more to send, and blocks forever")
    rep.floor(rule, "network reads of the shared HTTP/2 socket (both trees)", n, 2)


def enclosing_withs_(node: ast.AST):
    from ..guards import enclosing_withs
    return enclosing_withs(node)


_core_run_r12 = run


def run(ctx: Context) -> None:  # noqa: F811
    _core_run_r12(ctx)
    read_recheck(ctx, "C12.R12", "every other stream still runs to completion for any timing of completions: a stream whose frames arrived in another task's read is not left waiting for a read of its own")



_core_run_r13 = run


def run(ctx: Context) -> None:  # noqa: F811
    _core_run_r13(ctx)
    if ctx.rep._borrow is not None:
        return          # already running as a lender: no chains
    from . import c05

    with ctx.rep.borrow({"C05.R5": ("C12.R13", "the number of concurrently open streams never exceeds the advertised limit: a stream's slot permit is given back exactly once - a response "
                                                "closed twice (the body iterator's own failure handler, then the caller / pool) would add a surplus permit and let limit + 1 streams open:",
                                    lambda key, detail: "HTTP2ConnectionByteStream" in key and "close-once" in key)}):
        c05.run(ctx)
