"""Configuration plumbing: a constructor parameter that a property depends on must travel unchanged through every layer
(pool -> proxy / connection wrapper -> protocol connection).  The repository's convention is completely regular -
parameter `K`, field `self._K`, keyword `K=` - which makes every link checkable:

  store link    a class whose __init__ takes K either stores it once, unguarded, as `self._K = K` (or through one of the
                enumerated normalisers) or forwards it as `K=K` to `super().__init__` / an inner constructor; a parameter
                that is accepted and then neither stored nor forwarded is configuration silently dropped
  pass link     every internal constructor call of a class taking K passes `K=` the caller's own carrier of the value
                (`self._K`, the parameter `K`, or an enumerated renaming such as remote_origin=origin), on every
                provenance alternative; a caller that holds K but does not pass it is reported unless the omission is an
                enumerated, explained one
The rule is instantiated per property with the parameters that property depends on."""
from __future__ import annotations

import ast
import typing as T

from ..context import Context
from ..guards import guards_of
from ..load import ClassInfo, FuncInfo, chain, norm, own_nodes
from ..norm import guard_atoms
from .common import fkey, trees, where

# keyword -> additional acceptable carriers (normalised source terms) besides `self._K` and the parameter `K`
CARRIERS: dict[str, set[str]] = {
    "origin": {"origin", "self._origin", "self._remote_origin", "proxy_origin"},
    "remote_origin": {"origin"},
    "proxy_origin": {"self._proxy.url.origin", "self._proxy_url.origin"},
    "proxy_headers": {"self._proxy.headers", "self._proxy_headers"},
    "proxy_ssl_context": {"self._proxy.ssl_context", "self._proxy_ssl_context"},
    "proxy_auth": {"self._proxy.auth", "self._proxy_auth"},
}
# (caller function, callee class, keyword) -> carrier accepted at that one site, with the reason
SITE_CARRIERS: dict[tuple[str, str, str], tuple[str, str]] = {
    ("AsyncForwardHTTPConnection.__init__", "AsyncHTTPConnection", "ssl_context"): ("proxy_ssl_context", "the inner connection is the hop to the proxy: it uses the proxy's TLS configuration"),
    ("AsyncTunnelHTTPConnection.__init__", "AsyncHTTPConnection", "ssl_context"): ("proxy_ssl_context", "the inner connection is the hop to the proxy: it uses the proxy's TLS configuration"),
}
# omissions confirmed by reading, with the reason; at these sites the keyword must NOT be passed either
OMITTED_OK: dict[tuple[str, str, str], str] = {
    ("AsyncTunnelHTTPConnection.__init__", "AsyncHTTPConnection", "http1"): "the hop to the proxy always speaks HTTP/1.1 (CONNECT); the flags apply to the tunnelled connection",
    ("AsyncTunnelHTTPConnection.__init__", "AsyncHTTPConnection", "http2"): "the hop to the proxy always speaks HTTP/1.1 (CONNECT); the flags apply to the tunnelled connection",
}
# value normalisers accepted in the store link: field <- term (normalised), K is substituted
NORMALISERS: dict[str, set[str]] = {
    "network_backend": {"AutoBackend()ifnetwork_backendisNoneelsenetwork_backend", "SyncBackend()ifnetwork_backendisNoneelsenetwork_backend"},
    "max_connections": {"sys.maxsizeifmax_connectionsisNoneelsemax_connections"},
    "proxy_headers": {"enforce_headers(proxy_headers,name='proxy_headers')"},
    "proxy_origin": {"enforce_url(proxy_url,name='proxy_url').origin"},
}


def _classes(ctx: Context, tree: str) -> dict[str, ClassInfo]:
    out = {}
    for m in ctx.names(tree).modules():
        for c in m.classes.values():
            out[c.name] = c
    return out


def _fields(c: ClassInfo) -> set[str]:
    out: set[str] = set()
    seen: set[str] = set()
    stack = [c]
    while stack:
        k = stack.pop()
        if k.name in seen:
            continue
        seen.add(k.name)
        for f in k.methods.values():
            for n in own_nodes(f.node):
                if isinstance(n, ast.Attribute) and isinstance(n.ctx, ast.Store) and isinstance(n.value, ast.Name) and n.value.id == "self":
                    out.add(n.attr)
        for b in k.bases:
            if isinstance(b, ClassInfo):
                stack.append(b)
    return out


def _async_name(ctx: Context, tree: str, name: str) -> str:
    """Role name (async spelling) of a class / function name of either tree."""
    if tree == "async":
        return name
    N = ctx.names("sync")
    inv = getattr(N, "_inv", None)
    if inv is None:
        inv = {}
        for cname in _classes(ctx, "async"):
            inv[N.t(cname)] = cname
        N._inv = inv  # type: ignore[attr-defined]
    parts = name.split(".")
    parts[0] = inv.get(parts[0], parts[0])
    if len(parts) > 1:
        parts[1] = {"handle_request": "handle_async_request"}.get(parts[1], parts[1])
    return ".".join(parts)


def plumbing(ctx: Context, rule: str, params: T.Iterable[str]) -> None:
    rep = ctx.rep
    params = list(params)
    nstore = npass = 0
    for tree, N in trees(ctx):
        classes = _classes(ctx, tree)
        for cname, c in classes.items():
            init = c.methods.get("__init__")
            if init is None:
                continue
            ipars = [a for a in init.param_names() if a != "self"]
            for K in params:
                if K not in ipars:
                    continue
                # ---- store link
                stores = [n for n in own_nodes(init.node) if isinstance(n, (ast.Assign, ast.AnnAssign))
                          and norm(n.targets[0] if isinstance(n, ast.Assign) else n.target) == f"self._{K}" and getattr(n, "value", None) is not None]
                fwd = []
                for n in own_nodes(init.node):
                    if isinstance(n, ast.Call):
                        ch = chain(n.func)
                        is_super = isinstance(n.func, ast.Attribute) and n.func.attr == "__init__" and isinstance(n.func.value, ast.Call) and norm(n.func.value.func) == "super"
                        if is_super or (ch and ch[-1] in classes):
                            for k in n.keywords:
                                if k.arg is not None and any(isinstance(x, ast.Name) and x.id == K for x in ast.walk(k.value)):
                                    fwd.append((n, k))
                key = fkey(tree, init, f"store:{K}")
                nstore += 1
                if not stores and not fwd:
                    used = any(isinstance(x, ast.Name) and x.id == K and isinstance(x.ctx, ast.Load) for x in own_nodes(init.node))
                    rep.ob(rule, key, used, where(init), f"{cname}.__init__ uses `{K}` in another way (no same-named field)" if used else
                           f"{cname}.__init__ accepts `{K}` but neither stores nor forwards it: the configured value is silently dropped")
                    continue
                problems = []
                for st in stores:
                    g = guard_atoms(guards_of(st))
                    v = norm(st.value)
                    if g:
                        problems.append(f"`self._{K}` is stored only under {sorted(g)}")
                    if v != K and v not in NORMALISERS.get(K, set()):
                        problems.append(f"`self._{K}` <- `{ast.unparse(st.value)[:60]}` is not the parameter `{K}`")
                if len(stores) > 1:
                    problems.append(f"`self._{K}` is stored {len(stores)} times")
                for n, k in fwd:
                    if norm(k.value) != K and norm(k.value) not in NORMALISERS.get(K, set()):
                        problems.append(f"forwarded as `{k.arg}={ast.unparse(k.value)[:50]}` (not the unchanged parameter)")
                rep.ob(rule, key, not problems, where(init, stores[0] if stores else fwd[0][0]),
                       f"{cname}.__init__ keeps `{K}` unchanged ({'field' if stores else 'forwarded'})" if not problems else f"{cname}.__init__: " + "; ".join(problems))
        # ---- pass link
        for m in N.modules():
            for f in m.all_functions():
                for n in own_nodes(f.node):
                    if not isinstance(n, ast.Call):
                        continue
                    ch = chain(n.func)
                    if not (ch and ch[-1] in classes and (n.keywords or n.args)):
                        continue
                    callee = classes[ch[-1]]
                    cinit = callee.methods.get("__init__")
                    if cinit is None or f.cls is None:
                        continue
                    cpars = [a for a in cinit.param_names() if a != "self"]
                    passed = {k.arg: k.value for k in n.keywords if k.arg}
                    for i, a in enumerate(n.args):
                        if i < len(cpars):
                            passed[cpars[i]] = a
                    fl = _fields(f.cls)
                    local = set(f.param_names())
                    site = (_async_name(ctx, tree, f.short), _async_name(ctx, tree, callee.name))
                    for K in params:
                        if K not in cpars:
                            continue
                        key = fkey(tree, f, f"pass:{callee.name}:{K}")
                        if K not in passed:
                            if f"_{K}" in fl or K in local:
                                npass += 1
                                why = OMITTED_OK.get((site[0], site[1], K))
                                rep.ob(rule, key, why is not None, where(f, n), f"`{K}` deliberately not passed to {callee.name}: {why}" if why else
                                       f"{f.short} builds a {callee.name} without `{K}=` although it holds the configured value ({'self._' + K if '_' + K in fl else K}): "
                                       f"the new connection silently runs with the default `{K}`")
                            continue
                        npass += 1
                        must_omit = OMITTED_OK.get((site[0], site[1], K))
                        if must_omit is not None:
                            rep.ob(rule, key, False, where(f, n), f"{f.short} passes `{K}=` to {callee.name}, which must keep its default there: {must_omit}")
                            continue
                        ok_terms = {f"self._{K}", K} | CARRIERS.get(K, set())
                        sc = SITE_CARRIERS.get((site[0], site[1], K))
                        if sc:
                            ok_terms = {sc[0]}
                        alts = [norm(a) for a in ctx.prov.expand(passed[K], f, n, depth=1)] or [norm(passed[K])]
                        bad = [a for a in alts if a not in ok_terms]
                        # a parameter-named carrier must be this function's own parameter / a value held by the class
                        rep.ob(rule, key, not bad, where(f, n), f"{callee.name}({K}={alts[0]}) carries the configured value" if not bad else
                               f"{f.short} passes `{K}={bad[0][:60]}` to {callee.name}; expected one of {sorted(ok_terms)}: the configured `{K}` does not reach the connection")
    rep.floor(rule, "constructor parameters checked (store link)", nstore, 2)
    rep.floor(rule, "constructor call keywords checked (pass link)", npass, 2)


IDENTITY = ("scheme", "host", "port")


def derived_identity(ctx: Context, rule: str) -> None:
    """A URL / Origin that is built from the components of another one (`URL(scheme=x.scheme, host=x.host, ...)`) must copy ALL
    identity components - scheme, host and port - each from the same-named component of the same source object: the pool keys
    connections by (scheme, host, port), so a rebuild that loses one of them sends the request to a different endpoint."""
    rep = ctx.rep
    funcs: list[tuple[str, FuncInfo]] = []
    for tree, N in trees(ctx):
        funcs += [(tree, f) for f in N.functions()]
    funcs += [("shared", f) for f in ctx.prog.module("httpcore._models").all_functions()]
    n = 0
    for tree, f in funcs:
        for c in own_nodes(f.node):
            if not (isinstance(c, ast.Call) and norm(c.func) in ("URL", "Origin")):
                continue
            kws = {k.arg: k.value for k in c.keywords if k.arg}
            # source objects: `<X>.<field>` with field an identity component
            srcs: dict[str, set[str]] = {}
            for K, v in kws.items():
                for a in ast.walk(v):
                    if isinstance(a, ast.Attribute) and a.attr in IDENTITY and K in IDENTITY:
                        srcs.setdefault(norm(a.value), set()).add(K)
            if not srcs:
                continue
            n += 1
            problems = []
            if len(srcs) > 1:
                problems.append(f"identity components come from different objects {sorted(srcs)}")
            src = sorted(srcs)[0]
            for K in IDENTITY:
                v = kws.get(K)
                if v is None:
                    problems.append(f"`{K}` is not copied (falls back to the constructor default)")
                elif not any(isinstance(a, ast.Attribute) and a.attr == K and norm(a.value) == src for a in ast.walk(v)):
                    problems.append(f"`{K}={ast.unparse(v)[:40]}` is not `{src}.{K}`")
            rep.ob(rule, fkey(tree, f, f"derived:{norm(c.func)}:{src}"), not problems, where(f, c),
                   f"{norm(c.func)}(...) rebuilt from `{src}` copies scheme, host and port" if not problems else
                   f"{norm(c.func)}(...) rebuilt from `{src}`: " + "; ".join(problems) + " - the request then travels on a connection for a different (scheme, host, port)")
    rep.floor(rule, "URL / Origin objects derived from another one", n, 4)
