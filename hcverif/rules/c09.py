"""C09 - keep-alive reuse, limits and expiry."""
from __future__ import annotations

import ast

from ..context import Context
from ..guards import guards_of
from ..load import AnalysisError, FuncInfo, Names, chain, norm, own_nodes, parent
from ..norm import UNKNOWN, Sym, canon_atom, conj_atoms, guard_atoms, peval
from .c01 import const_name, expanded_return, state_stores
from .common import calls_named, fkey, trees, where


def _filtered_by(ctx: Context, e: ast.AST, f: FuncInfo, at: ast.AST, method: str, over: str = "self._connections") -> tuple[bool, str]:
    """Is `e` (after expansion) a collection of the elements of `over` that satisfy `<elt>.<method>()`?"""
    alts = ctx.prov.expand(e, f, at)
    if not alts:
        return False, "no expansion"
    msgs = []
    for alt in alts:
        if isinstance(alt, (ast.ListComp, ast.GeneratorExp, ast.SetComp)) and len(alt.generators) == 1:
            g = alt.generators[0]
            var = norm(g.target)
            conds = {canon_atom(a, p) for c in g.ifs for a, p in conj_atoms(c, True)}
            if norm(g.iter) in (over, f"list({over})") and f"{var}.{method}()" in conds:
                msgs.append(f"filtered by {method}()")
                continue
            return False, f"`{ast.unparse(alt)[:90]}` does not filter `{over}` by {method}() (it counts every element)"
        return False, f"`{ast.unparse(alt)[:90]}` is not a comprehension over `{over}`"
    return True, "; ".join(msgs)


def run(ctx: Context) -> None:
    rep = ctx.rep
    rep.explanation = (
        "On the pool's assignment pass and the connection state machines: R1 every creation of a connection is control-dependent on "
        "there being no available connection for the origin (reuse first); R2 the clean-up loop (closed / expired / surplus idle) "
        "dominates every hand-out in the same atomic pass, so an expired connection is never in the candidate list; R3 census of the "
        "sites that evict a pooled connection with the guard each needs (has_expired(); is_idle() and idle-count > keep-alive limit where "
        "the counted collection must be filtered by is_idle(); limit reached and an idle connection chosen from an is_idle()-filtered list; "
        "pool close); R4 every IDLE store arms the expiry deadline (monotonic now + keepalive_expiry when configured), every ACTIVE store "
        "clears it, and has_expired() evaluates (truth table) to 'deadline set and now > deadline' (or idle-and-readable for HTTP/1.1); "
        "R5 the keep-alive limit folds to min(max_connections, max_keepalive_connections) with None = unlimited. Clock behaviour is not decided."
    )
    for r, t in (("C09.R1", "create_connection only when no available connection exists for the origin"),
                 ("C09.R2", "clean-up of closed/expired/surplus connections dominates every assignment"),
                 ("C09.R3", "connections are evicted only for expiry, idle surplus (idle count > limit), room at the limit, or pool close"),
                 ("C09.R4", "expiry deadline armed on IDLE, cleared on ACTIVE; has_expired() truth table"),
                 ("C09.R5", "keep-alive limit = min(max_connections, max_keepalive_connections), None = unlimited")):
        rep.rule(r, t)
    for tree, N in trees(ctx):
        f = N.func("connection_pool", "AsyncConnectionPool._assign_requests_to_connections")
        cfg = ctx.cfg(f)
        # R1
        creates = calls_named(f, "create_connection")
        rep.floor("C09.R1", f"create_connection sites ({tree})", len(creates), 1)
        for i, c in enumerate(creates):
            at = guard_atoms(guards_of(c))
            ok = "not:available_connections" in at
            if ok:
                ok2, why = _filtered_by(ctx, ast.Name(id="available_connections", ctx=ast.Load()), f, c, "is_available")
                ok = ok2
            rep.ob("C09.R1", fkey(tree, f, f"create-{i}"), ok, where(f, c),
                   "creation is reached only when the available-connection list for the origin is empty" if ok else
                   f"connection created although an available one may exist (guards: {sorted(at)})")
        # R2
        cleanup = [n for n in own_nodes(f.node) if isinstance(n, ast.For) and any(
            isinstance(c, ast.Call) and (chain(c.func) or [''])[-1] == "has_expired" for c in ast.walk(n))]
        if not cleanup:
            rep.ob("C09.R2", fkey(tree, f, "cleanup-loop"), False, where(f), "no loop tests has_expired() in the assignment pass: expired connections are never evicted")
        else:
            cl = cfg._by_ast[id(cleanup[0])][0]
            iter_ok = norm(cleanup[0].iter) in ("list(self._connections)", "self._connections[:]", "tuple(self._connections)")
            rep.ob("C09.R2", fkey(tree, f, "cleanup-iterates-all"), iter_ok, where(f, cleanup[0]), f"clean-up iterates a snapshot of all pooled connections: `{ast.unparse(cleanup[0].iter)}`")
            for i, c in enumerate(calls_named(f, "assign_to_connection")):
                nd = cfg.nodes_for(c)
                rep.ob("C09.R2", fkey(tree, f, f"cleanup-dominates-assign-{i}"), bool(nd) and cfg.dominates(cl, nd[0]), where(f, c),
                       "the clean-up loop dominates this hand-out")
            # the candidate list is computed after the clean-up, from the live list
            for n in own_nodes(f.node):
                if isinstance(n, ast.Assign) and norm(n.targets[0]) == "available_connections":
                    nd = cfg.nodes_for(n)
                    rep.ob("C09.R2", fkey(tree, f, "candidates-after-cleanup"), bool(nd) and cfg.dominates(cl, nd[0]) and nd[0] is not cl, where(f, n),
                           "candidate list is computed after the clean-up loop")
        # R3 evictions: removes of a connection that are followed by closing_connections.append
        evictions = [c for c in calls_named(f, "append") if norm(c.func.value) == "closing_connections"]
        rep.floor("C09.R3", f"eviction sites ({tree})", len(evictions), 2)
        for i, c in enumerate(evictions):
          from ..norm import guard_alternatives

          reasons_all = []
          details_all = []
          for at in guard_alternatives(guards_of(c)):   # a merged `A or B` condition: every way to get here needs a reason
            reason = None
            detail = f"guards {sorted(at)}"
            arg = norm(c.args[0]) if c.args else "?"
            if f"{arg}.has_expired()" in at:
                reason = "expired"
            elif f"{arg}.is_idle()" in at:
                # surplus idle: the comparison with the keep-alive limit must count idle connections only
                cmp = None
                for test, pol in guards_of(c):
                    for atom in ast.walk(test):
                        if isinstance(atom, ast.Compare) and "_max_keepalive_connections" in norm(atom) and canon_atom(atom, True) in at:
                            cmp = atom
                if cmp is None:
                    detail = "idle connection evicted without comparing the idle count with the keep-alive limit"
                else:
                    counted = cmp.left if "_max_keepalive_connections" in norm(cmp.comparators[0]) else cmp.comparators[0]
                    counted_src = counted
                    stale = None
                    if isinstance(counted, ast.Name):
                        # a count kept in a local: it must be (re)computed inside the clean-up loop, after the removals of earlier iterations
                        nodes_ = cfg.nodes_for(c)
                        defs_ = ctx.prov.rd(f).defs(counted.id, nodes_[0]) if nodes_ else []
                        loop_ids = {id(x) for lp in cleanup for x in ast.walk(lp)}
                        vals = [d.ast.value for d in defs_ if isinstance(d.ast, ast.Assign)]
                        if len(vals) == len(defs_) == 1:
                            counted = vals[0]
                            if id(defs_[0].ast) not in loop_ids:
                                stale = f"the idle count `{counted_src.id}` is computed once before the clean-up loop and is stale after earlier iterations removed connections"
                        else:
                            stale = f"the idle count `{counted_src.id}` has {len(defs_)} definitions (not a fresh count per iteration)"
                    inner = counted.args[0] if isinstance(counted, ast.Call) and norm(counted.func) in ("len", "sum") and counted.args else counted
                    okf, why = _filtered_by(ctx, inner, f, c, "is_idle")
                    if stale is not None:
                        okf, why = False, stale
                    if not okf and isinstance(counted, ast.Call) and norm(counted.func) == "sum" and isinstance(inner, (ast.GeneratorExp, ast.ListComp)) \
                            and len(inner.generators) == 1 and norm(inner.generators[0].iter) == "self._connections" \
                            and norm(inner.elt) in (f"{norm(inner.generators[0].target)}.is_idle()", f"int({norm(inner.generators[0].target)}.is_idle())"):
                        okf, why = True, "sum of is_idle() booleans"
                    tt = {k: peval(cmp, {norm(counted_src): k, "self._max_keepalive_connections": 2}) for k in (1, 2, 3)}
                    strict = tt == {1: False, 2: False, 3: True}
                    if okf and strict:
                        reason = "idle surplus"
                    else:
                        detail = (f"surplus test `{ast.unparse(cmp)}`: " + (why if not okf else f"comparison over counts 1,2,3 vs limit 2 gives {tt}; must be count > limit"))
            elif "not:available_connections" in at and "idle_connections" in at:
                okf, why = _filtered_by(ctx, ast.Name(id="idle_connections", ctx=ast.Load()), f, c, "is_idle")
                src = [norm(a) for a in ctx.prov.expand(c.args[0], f, c)] if c.args else []
                from_idle = bool(src) and all(s.endswith("[0]") and "is_idle()" in s for s in src)
                at_limit = any("len(self._connections)" in a and "_max_connections" in a for a in at)
                if okf and from_idle and at_limit:
                    reason = "room at the limit"
                else:
                    detail = f"eviction to make room: idle list {why}; victim from idle list: {from_idle}; limit reached: {at_limit}"
            reasons_all.append(reason)
            details_all.append(detail)
          if True:
            reason = None if (not reasons_all or any(r is None for r in reasons_all)) else " / ".join(sorted(set(reasons_all)))
            detail = next((d for r, d in zip(reasons_all, details_all) if r is None), "no guard")
            arg = norm(c.args[0]) if c.args else "?"
            rep.ob("C09.R3", fkey(tree, f, f"evict-{i}"), reason is not None, where(f, c),
                   f"eviction reason: {reason}" if reason else f"pooled connection closed without one of the allowed reasons - {detail}")
            # the evicted connection is removed from the pool in the same block
            blk = parent(parent(c)) if isinstance(parent(c), ast.Expr) else None
            removed = blk is not None and any(isinstance(x, ast.Call) and norm(x.func) == "self._connections.remove" and [norm(a) for a in x.args] == [arg]
                                              for st in getattr(blk, "body", []) + getattr(blk, "orelse", []) for x in ast.walk(st))
            rep.ob("C09.R3", fkey(tree, f, f"evict-{i}-removed"), removed, where(f, c), "evicted connection is removed from the pool list in the same block")
        _r4(ctx, tree, N)
        _r5(ctx, tree, N)


def _r4(ctx: Context, tree: str, N: Names) -> None:
    rep = ctx.rep
    for mod, cname in (("http11", "AsyncHTTP11Connection"), ("http2", "AsyncHTTP2Connection")):
        c = N.cls(mod, cname)
        nidle = nact = 0
        for f in c.methods.values():
            if f.name == "__init__":
                continue
            for st in state_stores(f):
                if not isinstance(st, ast.Assign):
                    continue
                val = const_name(st.value)
                blk = parent(st)
                sibs = [x for x in ast.walk(blk) if isinstance(x, ast.Assign) and norm(x.targets[0]) == "self._expire_at"] if blk is not None else []
                if val == "IDLE":
                    nidle += 1
                    ok = False
                    detail = "no store to _expire_at next to the IDLE store: the connection would never expire"
                    for s in sibs:
                        at = guard_atoms(guards_of(s))
                        terms = [norm(a) for a in ctx.prov.expand(s.value, f, s)]
                        good_val = all(t in ("time.monotonic()+self._keepalive_expiry", "self._keepalive_expiry+time.monotonic()") for t in terms)
                        guarded = "self._keepalive_expiry!=None" in at or "None!=self._keepalive_expiry" in at
                        same_guards = guard_atoms(guards_of(st)) <= at
                        ok = good_val and guarded and same_guards
                        detail = f"_expire_at <- {terms} under {sorted(at - guard_atoms(guards_of(st)))}"
                    rep.ob("C09.R4", fkey(tree, f, "arm-expiry"), ok, where(f, st), detail)
                    # the connection becomes idle (and starts its keep-alive clock) exactly when its last exchange ends:
                    # HTTP/1.1 - both h11 sides DONE; HTTP/2 - the open-stream table (the one the allocation/close pair maintains) is empty
                    got = guard_atoms(guards_of(st))
                    if "11" in cname:
                        need = {"h11.DONE==self._h11_state.our_state", "h11.DONE==self._h11_state.their_state"}
                        gok = need <= got
                    else:
                        need = {"not:self._events", "HTTPConnectionState.ACTIVE==self._state"}
                        gok = need <= got
                    rep.ob("C09.R4", fkey(tree, f, "idle-when-last-exchange-ends"), gok, where(f, st),
                           f"IDLE store (start of the keep-alive clock) under {sorted(got)}" if gok else
                           f"IDLE store guarded by {sorted(got)}, needs {sorted(need)}: the connection would not become idle (no expiry, no keep-alive accounting) when its last request ends, or would while one is still open")
                elif val == "ACTIVE":
                    nact += 1
                    ok = any(isinstance(s.value, ast.Constant) and s.value.value is None and guard_atoms(guards_of(s)) == guard_atoms(guards_of(st)) for s in sibs)
                    rep.ob("C09.R4", fkey(tree, f, "clear-expiry"), ok, where(f, st),
                           "ACTIVE store clears the expiry deadline" if ok else "ACTIVE store does not clear _expire_at: a busy connection could be evicted as expired")
        rep.floor("C09.R4", f"IDLE stores in {cname} ({tree})", nidle, 1)
        rep.floor("C09.R4", f"ACTIVE stores in {cname} ({tree})", nact, 1)
        he = c.methods["has_expired"]
        e = expanded_return(ctx, he)
        rows = {}
        ok = True
        for exp_at in (None, 5):
            for now in (4, 5, 6):
                for state in ("IDLE", "ACTIVE"):
                    for readable in (False, True):
                        env = {"self._expire_at": exp_at, "time.monotonic()": now, "self._state": Sym("HTTPConnectionState." + state),
                               "self._network_stream.get_extra_info('is_readable')": readable}
                        got = peval(e, env)
                        want = (exp_at is not None and now > exp_at) or (cname.endswith("11Connection") and state == "IDLE" and readable)
                        if got is UNKNOWN or bool(got) != want:
                            ok = False
                            rows[f"expire_at={exp_at},now={now},{state},readable={readable}"] = f"{got} (want {want})"
        rep.ob("C09.R4", fkey(tree, he, "has_expired-table"), ok, where(he),
               "has_expired() == (deadline set and now > deadline)" + (" or (IDLE and socket readable)" if "11" in cname else "") if ok else f"has_expired() deviates: {rows}")
    # the direct connection delegates the predicates to the established connection
    d = N.cls("connection", "AsyncHTTPConnection")
    for name in ("has_expired", "is_idle", "is_closed", "is_available"):
        m = d.methods[name]
        rets = [norm(r.value) for r in own_nodes(m.node) if isinstance(r, ast.Return) and r.value is not None]
        rep.ob("C09.R4", fkey(tree, m, "delegates"), f"self._connection.{name}()" in rets, where(m), f"{d.name}.{name} returns {rets}")


def _r5(ctx: Context, tree: str, N: Names) -> None:
    rep = ctx.rep
    init = N.func("connection_pool", "AsyncConnectionPool.__init__")
    INF = 10**9
    ok = True
    rows = {}
    for mc in (None, 1, 10):
        for mk in (None, 0, 5, 20):
            env: dict[str, object] = {"max_connections": mc, "max_keepalive_connections": mk, "sys.maxsize": INF}
            for st in init.node.body:
                if isinstance(st, ast.Assign) and isinstance(st.targets[0], ast.Attribute) and norm(st.targets[0]) in ("self._max_connections", "self._max_keepalive_connections"):
                    env[norm(st.targets[0])] = peval(st.value, env)
                elif isinstance(st, ast.Assign) and len(st.targets) == 1 and isinstance(st.targets[0], ast.Name):
                    env[st.targets[0].id] = peval(st.value, env)        # a local that carries an intermediate value
            got = env.get("self._max_keepalive_connections", UNKNOWN)
            want = min(INF if mc is None else mc, INF if mk is None else mk)
            if got is UNKNOWN or got != want:
                ok = False
                rows[f"max_connections={mc},max_keepalive={mk}"] = f"{got} (want {want})"
    rep.ob("C09.R5", fkey(tree, init, "keepalive-limit"), ok, where(init),
           "keep-alive limit folds to min(max_connections, max_keepalive_connections) over 12 configurations" if ok else f"keep-alive limit deviates: {rows}")

_core_run = run


def run(ctx: Context) -> None:  # noqa: F811
    _core_run(ctx)
    from . import backend

    ctx.rep.rule('C09.R6', "the readability probe behind has_expired() polls the transport's OS socket on every backend, TLS or not")
    backend.extra_info_agreement(ctx, 'C09.R6')
    ctx.rep.explanation = (ctx.rep.explanation or '') + " R6 (transport layer): get_extra_info('is_readable') is a poll of the OS socket on every backend."
    from . import plumb

    ctx.rep.rule('C09.R7', 'the configured keepalive_expiry reaches every protocol connection unchanged (store link + pass link at every constructor call)')
    plumb.plumbing(ctx, 'C09.R7', ['keepalive_expiry'])


def pending_visible_to_idle_transition(ctx: Context, rule: str) -> None:
    """HTTP/2: the IDLE transition (`_response_closed`) decides "no request in flight" from the open-stream table.  A request
    is in flight from the moment the gate stores ACTIVE, but it enters the table only at stream allocation.  Every
    suspension point (async) between the two - or, on the sync tree, the mere fact that the two are not in one critical
    section of the state lock - is a window in which the last open stream can close and declare the connection IDLE
    (keep-alive clock started, counted as idle, evictable) with a request pending on it."""
    from .c05 import node_calls

    rep = ctx.rep
    for tree, N in trees(ctx):
        h2c = N.cls("http2", "AsyncHTTP2Connection")
        f = h2c.methods[N.t("handle_async_request")] if N.t("handle_async_request") in h2c.methods else h2c.methods.get("handle_async_request") or h2c.methods["handle_request"]
        cfg = ctx.cfg(f)
        gate = [n for n in cfg.nodes if n.kind == "stmt" and isinstance(n.ast, ast.Assign) and norm(n.ast.targets[0]) == "self._state" and const_name(n.ast.value) == "ACTIVE"]
        reg = [n for n in cfg.nodes if n.kind == "stmt" and isinstance(n.ast, ast.Assign) and norm(n.ast.targets[0]) == "self._events[stream_id]"]
        if not gate:
            raise AnalysisError("anchor vanished: ACTIVE gate in the HTTP/2 request routine")
        if not reg:
            rep.ob(rule, fkey(tree, f, "pending-request-visible-to-idle-transition"), False, where(f, gate[0].ast),
                   "the request never registers its stream in the open-stream table: it is invisible to the IDLE transition for its whole life")
            continue
        r1 = cfg.reachable([e.dst for e in gate[0].succ if e.kind != "exc"], follow=lambda e: e.kind != "exc", stop=lambda n: n is reg[0])
        if tree == "async":
            between = [n for n in cfg.nodes if n.id in r1 and n is not reg[0] and n.may_cancel()]
            ok = not between
            wit = [n.text() for n in between[:4]]
        else:
            from ..guards import enclosing_withs
            def region(n):
                return [id(w) for w, it in enclosing_withs(n.ast) if norm(it.context_expr) == "self._state_lock"]
            ok = bool(region(gate[0])) and region(gate[0]) == region(reg[0])
            wit = [] if ok else ["the ACTIVE store and the stream registration are not in one `with self._state_lock` region"]
        rep.ob(rule, fkey(tree, f, "pending-request-visible-to-idle-transition"), ok, where(f, gate[0].ast),
               "a request is registered in the open-stream table in the same atomic step that stores ACTIVE" if ok else
               f"between the ACTIVE gate and `self._events[stream_id] = []` the request is invisible to the IDLE transition ({wit}): if the last open stream closes there the connection is "
               "declared IDLE (expiry armed, evictable) with this request pending - the pool may close it under a request to a healthy server", wit)


_core_run5 = run


def run(ctx: Context) -> None:  # noqa: F811
    _core_run5(ctx)
    ctx.rep.rule("C09.R8", "HTTP/2: a request that passed the ACTIVE gate is visible to the IDLE transition (it is never counted idle / expired while a request is pending on it)")
    pending_visible_to_idle_transition(ctx, "C09.R8")



_core_run_r9 = run


def run(ctx: Context) -> None:  # noqa: F811
    _core_run_r9(ctx)
    if ctx.rep._borrow is not None:
        return          # already running as a lender: no chains
    from . import c05

    with ctx.rep.borrow({"C05.R4": ("C09.R9", "a connection with no exchange in flight becomes idle, expires and can be evicted: the recovery path of a failed / cancelled request - which gives "
                                              "back whatever keeps the connection ACTIVE (stream entry, slot, in-flight count) - must not be abandoned by a second cancellation:",
                                    lambda key, detail: "HTTP2Connection" in key or "HTTP11Connection" in key)}):
        c05.run(ctx)
