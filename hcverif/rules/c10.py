"""C10 - requests travel only on connections made for their origin, TLS per scheme."""
from __future__ import annotations

import ast

from ..context import Context
from ..guards import guards_of
from ..load import AnalysisError, FuncInfo, Names, chain, norm, own_nodes, parent
from ..norm import UNKNOWN, Sym, conj_atoms, guard_atoms, peval
from .common import calls_named, effective_body, fkey, net_sites, trees, where

CONN_CLASSES = [("connection", "AsyncHTTPConnection", "_origin"), ("http11", "AsyncHTTP11Connection", "_origin"), ("http2", "AsyncHTTP2Connection", "_origin"),
                ("http_proxy", "AsyncForwardHTTPConnection", "_remote_origin"), ("http_proxy", "AsyncTunnelHTTPConnection", "_remote_origin"),
                ("socks_proxy", "AsyncSocks5Connection", "_remote_origin")]
SCHEMES = [b"http", b"https", b"ws", b"wss"]


def kwargs_of(ctx: Context, call: ast.Call, callee: FuncInfo, owner: FuncInfo) -> dict[str, list[str]]:
    b = ctx.prov.bind(call, callee, owner)
    return {k: sorted({norm(a) for x in v for a in ctx.prov.expand(x, owner, call)}) for k, v in b.items()}


def dispatch(ctx: Context, f: FuncInfo, env: dict) -> str | None:
    """Partially evaluate create_connection's branch structure for one cell; returns the class constructed."""
    def walk(stmts: list[ast.stmt]) -> str | None:
        for st in stmts:
            if isinstance(st, ast.If):
                v = peval(st.test, env)
                if v is UNKNOWN:
                    raise AnalysisError(f"cannot decide `{ast.unparse(st.test)}` in {f.qual} for cell {env}")
                r = walk(st.body if v else st.orelse)
                if r is not None:
                    return r
            elif isinstance(st, ast.Return) and isinstance(st.value, ast.Call):
                return (chain(st.value.func) or ["?"])[-1]
        return None
    return walk(f.node.body)


def run(ctx: Context) -> None:
    rep = ctx.rep
    rep.explanation = (
        "R1 origin gates: each connection class answers can_handle_request(origin) with `origin == <its remote origin field>` (never the "
        "proxy origin) and the protocol / direct request routines start with that gate. R2 provenance of establishment arguments: host and "
        "port of every connect / negotiation / CONNECT target / inner connection come from the right origin field, and the pool passes its "
        "`origin` parameter as the remote origin with the configured http1/http2 switches in all branches. R3 TLS decision: the pool's "
        "dispatch is partially evaluated over scheme x proxy (12 cells) to the class serving each cell, and the guard dominating that class's "
        "start_tls is evaluated for the cell's scheme: TLS iff scheme in {https, wss}. R4 SNI: server_hostname == sni_hostname extension or "
        "the remote host. R5 ALPN offers h2 iff HTTP/2 is enabled. R6 every HTTP/2 connection construction is guarded by "
        "`negotiated h2 or (http2 and not http1)` (truth table over 16 rows)."
    )
    for r, t in (("C10.R1", "origin gate on every connection type"), ("C10.R2", "establishment arguments come from the right origin"),
                 ("C10.R3", "TLS iff scheme in {https, wss} over the scheme x proxy matrix"), ("C10.R4", "SNI = sni_hostname or remote host"),
                 ("C10.R5", "ALPN offers h2 iff http2"), ("C10.R6", "HTTP/2 only when negotiated or HTTP/1.1 disabled")):
        rep.rule(r, t)
    for tree, N in trees(ctx):
        t = N.t
        # ---- R1
        for mod, cn, field in CONN_CLASSES:
            c = N.cls(mod, cn)
            m = c.methods["can_handle_request"]
            rets = [norm(r.value) for r in own_nodes(m.node) if isinstance(r, ast.Return) and r.value is not None]
            ok = rets in ([f"origin==self.{field}"], [f"self.{field}==origin"])
            rep.ob("C10.R1", fkey(tree, m, "gate"), ok, where(m), f"{c.name}.can_handle_request returns {rets}; must compare with self.{field}")
            init = c.methods["__init__"]
            src = {"_origin": "origin", "_remote_origin": "remote_origin"}[field]
            st = [norm(n.value) for n in own_nodes(init.node) if isinstance(n, ast.Assign) and norm(n.targets[0]) == f"self.{field}"]
            rep.ob("C10.R1", fkey(tree, init, f"self.{field}"), st == [src], where(init), f"self.{field} <- {st}")
        for mod, cn in (("connection", "AsyncHTTPConnection"), ("http11", "AsyncHTTP11Connection"), ("http2", "AsyncHTTP2Connection")):
            f = N.func(mod, f"{cn}.handle_async_request")
            first = next(iter(effective_body(f.node.body)), None)
            from .common import entry_gate

            ok = entry_gate(f.node.body, "self.can_handle_request(request.url.origin)", "RuntimeError")
            rep.ob("C10.R1", fkey(tree, f, "entry-gate"), ok, where(f, first), "request routine starts with the origin gate raising RuntimeError")
        # ---- R2
        _r2(ctx, tree, N)
        # ---- R3 / R4 / R5 / R6
        _tls(ctx, tree, N)
    # R7: TLS contexts are mutated (set_alpn_protocols) right before each handshake: the default context must be a fresh object
    # per call, never a cached / module-level instance shared by pools with different settings
    sslm = ctx.prog.module("httpcore._ssl")
    dsc = sslm.functions.get("default_ssl_context")
    if dsc is None:
        raise AnalysisError("anchor vanished: default_ssl_context")
    cached = [d for d in dsc.decorators if "cache" in d]
    creates = [c for c in own_nodes(dsc.node) if isinstance(c, ast.Call) and norm(c.func) in ("ssl.create_default_context", "ssl.SSLContext")]
    rets = [r for r in own_nodes(dsc.node) if isinstance(r, ast.Return) and r.value is not None]
    fresh = bool(creates) and not cached and all(isinstance(r.value, (ast.Name, ast.Call)) and (not isinstance(r.value, ast.Name) or any(
        isinstance(a, ast.Assign) and norm(a.targets[0]) == r.value.id and a.value in creates for a in own_nodes(dsc.node))) for r in rets)
    module_ctx = [k for k, v in sslm.assigns.items() if isinstance(v, ast.Call) and "SSLContext" in norm(v.func) or isinstance(v, ast.Call) and "create_default_context" in norm(v.func)]
    rep.ob("C10.R7", "shared|default_ssl_context|fresh-per-call", fresh and not module_ctx, where(dsc),
           "default_ssl_context() builds a new SSLContext on every call" if fresh and not module_ctx else
           f"default_ssl_context() hands out a shared SSLContext (decorators {dsc.decorators}, module-level contexts {module_ctx}): ALPN set for one pool's handshake leaks into another pool's - "
           "h2 is offered (and spoken) where HTTP/2 is disabled")
    rep.rule("C10.R7", "the default TLS context is a fresh object per call (it is mutated before each handshake)")
    rep.assume("Origin equality covers scheme, host and port (C19.R2)")


def connect_target_eval(ctx: Context, tf) -> tuple[bool, str, ast.AST | None]:
    """The CONNECT target decided by evaluation: with distinct hosts / ports for the remote origin, the proxy and the caller's URL, the value bound to `target` is
    `<remote host>:<remote port>` (how it is formatted - helper, conditional bracketing of IPv6 literals - is not judged here)."""
    from ..norm import run_to

    tg = [x for x in own_nodes(tf.node) if isinstance(x, ast.Assign) and norm(x.targets[0]) == "target"]
    if not tg:
        return False, "CONNECT target <- ? (no `target` binding located)", None
    outs = []
    for st in tg:
        env: dict = {}
        for x in own_nodes(tf.node):
            if isinstance(x, ast.Attribute) and x.attr in ("host", "port", "scheme"):
                base = norm(x.value)
                who = "remote" if "remote" in base else ("proxy" if "proxy" in base else "caller")
                env[norm(x)] = {"host": {"remote": b"origin.example", "proxy": b"proxy.example", "caller": b"caller.example"}[who],
                                "port": {"remote": 8443, "proxy": 3128, "caller": 9999}[who], "scheme": b"https"}[x.attr]
        if run_to(list(tf.node.body), st, env) != "hit":
            outs.append(UNKNOWN)
            continue
        outs.append(peval(st.value, env))
    ok = all(v == b"origin.example:8443" for v in outs)
    return ok, f"CONNECT target <- {ast.unparse(tg[0].value)[:90]} = {outs[0]!r} for remote origin origin.example:8443" + ("" if ok else " - must name the remote origin's host and port"), tg[0]


def _ctor_calls(f: FuncInfo, names: set[str]) -> list[ast.Call]:
    return sorted([c for c in own_nodes(f.node) if isinstance(c, ast.Call) and (chain(c.func) or [""])[-1] in names], key=lambda c: c.lineno)


def _r2(ctx: Context, tree: str, N: Names) -> None:
    rep = ctx.rep
    t = N.t
    n = 0
    expected = {
        ("connection", "AsyncHTTPConnection._connect"): ("self._origin", "self._origin"),
        ("socks_proxy", "AsyncSocks5Connection.handle_async_request"): ("self._proxy_origin", "self._remote_origin"),
    }
    for (mod, q), (conn_origin, remote) in expected.items():
        f = N.func(mod, q)
        for s, op in net_sites(ctx, [f]):
            if op != "connect_tcp":
                continue
            n += 1
            callee = next(c.func for c in s.callees if c.func is not None and c.func.name == op)
            kw = kwargs_of(ctx, s.node, callee, f)
            ok = kw.get("host") == [f"{conn_origin}.host.decode('ascii')"] and kw.get("port") == [f"{conn_origin}.port"]
            rep.ob("C10.R2", fkey(tree, f, "connect_tcp(host,port)"), ok, where(f, s.node), f"connect_tcp host={kw.get('host')} port={kw.get('port')}; must come from {conn_origin}")
        for c in _ctor_calls(f, {t("AsyncHTTP11Connection"), t("AsyncHTTP2Connection")}):
            n += 1
            o = [norm(k.value) for k in c.keywords if k.arg == "origin"]
            rep.ob("C10.R2", fkey(tree, f, f"{(chain(c.func) or ['?'])[-1]}(origin)"), o == [remote], where(f, c), f"protocol connection bound to origin {o}; must be {remote}")
    d = N.func("connection", "AsyncHTTPConnection.handle_async_request")
    for c in _ctor_calls(d, {t("AsyncHTTP11Connection"), t("AsyncHTTP2Connection")}):
        n += 1
        o = [norm(k.value) for k in c.keywords if k.arg == "origin"]
        rep.ob("C10.R2", fkey(tree, d, f"{(chain(c.func) or ['?'])[-1]}(origin)"), o == ["self._origin"], where(d, c), f"protocol connection bound to origin {o}")
    # SOCKS negotiation names the remote origin
    sf = N.func("socks_proxy", "AsyncSocks5Connection.handle_async_request")
    init = N.func("socks_proxy", "_init_socks5_connection")
    for c in calls_named(sf, "_init_socks5_connection"):
        n += 1
        kw = kwargs_of(ctx, c, init, sf)
        ok = kw.get("host") == ["self._remote_origin.host.decode('ascii')"] and kw.get("port") == ["self._remote_origin.port"]
        rep.ob("C10.R2", fkey(tree, sf, "socks-negotiation(host,port)"), ok, where(sf, c), f"SOCKS negotiation host={kw.get('host')} port={kw.get('port')}")
    # tunnel
    tf = N.func("http_proxy", "AsyncTunnelHTTPConnection.handle_async_request")
    ok, detail, node = connect_target_eval(ctx, tf)
    n += 1
    rep.ob("C10.R2", fkey(tree, tf, "connect-target"), ok, where(tf, node), detail)
    for c in _ctor_calls(tf, {t("AsyncHTTP11Connection"), t("AsyncHTTP2Connection")}):
        n += 1
        o = [norm(k.value) for k in c.keywords if k.arg == "origin"]
        rep.ob("C10.R2", fkey(tree, tf, f"{(chain(c.func) or ['?'])[-1]}(origin)"), o == ["self._remote_origin"], where(tf, c), f"tunnelled protocol connection bound to origin {o}")
    for mod, cn in (("http_proxy", "AsyncForwardHTTPConnection"), ("http_proxy", "AsyncTunnelHTTPConnection")):
        i = N.func(mod, f"{cn}.__init__")
        for c in _ctor_calls(i, {t("AsyncHTTPConnection")}):
            n += 1
            o = [norm(k.value) for k in c.keywords if k.arg == "origin"]
            rep.ob("C10.R2", fkey(tree, i, "inner-connection(origin)"), o == ["proxy_origin"], where(i, c), f"proxy hop connection made for {o}; must be proxy_origin")
    # pool dispatch
    for mod, q in (("connection_pool", "AsyncConnectionPool.create_connection"), ("http_proxy", "AsyncHTTPProxy.create_connection"), ("socks_proxy", "AsyncSOCKSProxy.create_connection")):
        f = N.func(mod, q)
        for c in _ctor_calls(f, {t(x[1]) for x in CONN_CLASSES}):
            n += 1
            kw = {k.arg: norm(k.value) for k in c.keywords}
            name = (chain(c.func) or ["?"])[-1]
            ok = (kw.get("remote_origin") == "origin" or kw.get("origin") == "origin")
            if "http1" in kw or "http2" in kw or name != t("AsyncForwardHTTPConnection"):
                ok = ok and kw.get("http1", "self._http1") == "self._http1" and kw.get("http2", "self._http2") == "self._http2" and ("http2" in kw) == ("http1" in kw)
                ok = ok and ("http2" in kw or name == t("AsyncForwardHTTPConnection"))
            if "proxy_origin" in kw:
                ok = ok and kw["proxy_origin"] in ("self._proxy.url.origin", "self._proxy_url.origin")
            rep.ob("C10.R2", fkey(tree, f, f"{name}()"), ok, where(f, c), f"{name}({kw})")
    rep.floor("C10.R2", f"establishment argument sites ({tree})", n, 12)


def _tls(ctx: Context, tree: str, N: Names) -> None:
    rep = ctx.rep
    t = N.t
    sites = {}
    for mod, q, origin_field in (("connection", "AsyncHTTPConnection._connect", "self._origin"),
                                 ("socks_proxy", "AsyncSocks5Connection.handle_async_request", "self._remote_origin"),
                                 ("http_proxy", "AsyncTunnelHTTPConnection.handle_async_request", "self._remote_origin")):
        f = N.func(mod, q)
        tls = [(s, op) for s, op in net_sites(ctx, [f]) if op == "start_tls"]
        if len(tls) != 1:
            raise AnalysisError(f"expected one start_tls site in {f.qual}, found {len(tls)}")
        sites[f.cls.name] = (f, tls[0][0], origin_field)
    rep.floor("C10.R3", f"TLS upgrade sites ({tree})", len(sites), 3)

    def tls_for(cls_name: str, scheme: bytes) -> object:
        f, s, field = sites[cls_name]
        res: object = True
        for test, pol in guards_of(s.node):
            if ".scheme" not in norm(test):
                continue
            v = peval(test, {f"{field}.scheme": scheme})
            if v is UNKNOWN:
                return UNKNOWN
            if bool(v) != pol:
                res = False
        return res

    pool_cc = N.func("connection_pool", "AsyncConnectionPool.create_connection")
    cells = 0
    for proxy in ("none", "http", "https", "socks5"):
        for scheme in SCHEMES:
            env = {"self._proxy": None if proxy == "none" else Sym("Proxy"), "self._proxy.url.scheme": proxy.encode() if proxy != "none" else UNKNOWN,
                   "origin.scheme": scheme}
            env = {k: v for k, v in env.items() if v is not UNKNOWN}
            cls_name = dispatch(ctx, pool_cc, env)
            cells += 1
            want = scheme in (b"https", b"wss")
            if cls_name == t("AsyncForwardHTTPConnection"):
                got: object = False  # the forward connection never upgrades the origin hop
            elif cls_name in sites:
                got = tls_for(cls_name, scheme)
            else:
                raise AnalysisError(f"dispatch for proxy={proxy} scheme={scheme!r} gives unknown class {cls_name}")
            f, s, _ = sites.get(cls_name, (pool_cc, None, None))
            rep.ob("C10.R3", f"{tree}|{cls_name}|cell:proxy={proxy},scheme={scheme.decode()}", got is not UNKNOWN and bool(got) == want,
                   where(f, s.node if s is not None else None),
                   f"proxy={proxy}, scheme={scheme.decode()} is served by {cls_name}: TLS={got}, expected {want}" +
                   ("" if got is not UNKNOWN and bool(got) == want else (" - request sent in clear" if want else " - plain-text scheme is TLS-wrapped")))
    rep.stat(f"matrix_cells_{tree}", cells)
    # R4 SNI, R5 ALPN at each TLS site
    for cls_name, (f, s, field) in sites.items():
        callee = next(c.func for c in s.callees if c.func is not None and c.func.name == "start_tls")
        kw = kwargs_of(ctx, s.node, callee, f)
        want = f"request.extensions.get('sni_hostname')or{field}.host.decode('ascii')"
        rep.ob("C10.R4", fkey(tree, f, "server_hostname"), kw.get("server_hostname") == [want], where(f, s.node),
               f"server_hostname <- {kw.get('server_hostname')}; must be [{want}]")
        alpn_calls = calls_named(f, "set_alpn_protocols")
        ok = False
        vals = {}
        if alpn_calls:
            from ..norm import run_to

            for h2 in (True, False):
                # interpret the routine up to the call (handles `x = [..]; if self._http2: x.append("h2")` as well as a conditional expression)
                env: dict = {"self._http2": h2}
                if run_to(f.node.body, alpn_calls[0], env) == "hit":
                    v = peval(alpn_calls[0].args[0], env)
                    vals[h2] = [list(v) if isinstance(v, (list, tuple)) else v]
                else:
                    alts = ctx.prov.expand(alpn_calls[0].args[0], f, alpn_calls[0])
                    vals[h2] = [peval(a, {"self._http2": h2}) for a in alts]
            ok = vals.get(True) == [["http/1.1", "h2"]] and vals.get(False) == [["http/1.1"]]
            # the context that is configured is the context that is handed to the handshake (same variable)
            recv = norm(alpn_calls[0].func.value)
            handed = {norm(v_) for d_ in ast.walk(f.node) if isinstance(d_, ast.Dict) for k_, v_ in zip(d_.keys, d_.values)
                      if isinstance(k_, ast.Constant) and k_.value == "ssl_context"} | \
                     {norm(k_.value) for k_ in s.node.keywords if k_.arg == "ssl_context"}
            ctx_same = kw.get("ssl_context") is not None and handed == {recv}
            ok = ok and ctx_same
        rep.ob("C10.R5", fkey(tree, f, "alpn"), ok, where(f, alpn_calls[0] if alpn_calls else None), f"ALPN offered with http2 on/off: {vals}")
        # the (possibly shared) context is configured immediately before the handshake: nothing that can block or suspend
        # on the network lies between set_alpn_protocols and start_tls
        if alpn_calls:
            cfg = ctx.cfg(f)
            sn = cfg.nodes_for(alpn_calls[0])
            tn = cfg.nodes_for(s.node)
            between = []
            if sn and tn:
                reach = cfg.reachable([e.dst for e in sn[0].succ if e.kind != "exc"], follow=lambda e: e.kind != "exc", stop=lambda n: n is tn[0])
                blocking_ids = {id(s2.node) for s2, op2 in net_sites(ctx, [f])}
                for n in cfg.nodes:
                    if n.id in reach and n is not tn[0] and n.ast is not None and n.kind == "stmt":
                        if any(id(x) in blocking_ids for x in ast.walk(n.ast)):
                            between.append(n)
            okb = bool(sn) and bool(tn) and cfg.dominates(sn[0], tn[0]) and not between
            rep.ob("C10.R5", fkey(tree, f, "alpn-set-before-handshake"), okb, where(f, alpn_calls[0]),
                   "ALPN is set on the context right before its handshake (no network operation in between)" if okb else
                   (f"a network operation ({between[0].text()}) lies between set_alpn_protocols and start_tls: another connection sharing the SSLContext can "
                    "overwrite the ALPN list meanwhile, so h2 is offered (and spoken) although HTTP/2 is disabled") if between else
                   "set_alpn_protocols does not run on every path to the handshake: the context keeps whatever ALPN list an earlier user left on it")
    # R6 HTTP/2 selection
    nsel = 0
    for mod, q in (("connection", "AsyncHTTPConnection.handle_async_request"), ("socks_proxy", "AsyncSocks5Connection.handle_async_request"),
                   ("http_proxy", "AsyncTunnelHTTPConnection.handle_async_request")):
        f = N.func(mod, q)
        for c in _ctor_calls(f, {t("AsyncHTTP2Connection")}):
            nsel += 1
            conds = [(test, pol) for test, pol in guards_of(c) if "http2" in norm(test) or "http1" in norm(test)]
            expanded = [(alt, pol) for test, pol in conds for alt in ctx.prov.expand(test, f, c)]
            # a selection variable bound once per branch (TLS hop: ALPN result consulted; plain-text hop: nothing was negotiated): each binding is judged on its own
            # rows - the plain-text one, which never looks at an SSL object, on the rows without one
            per_branch = [[(alt, pol) for alt in ctx.prov.expand(test, f, c)] for test, pol in conds]
            multi = [g for g in per_branch if len(g) > 1]
            ssl_terms = sorted({norm(x) for alt, _ in expanded for x in ast.walk(alt)
                                if isinstance(x, ast.Call) and isinstance(x.func, ast.Attribute) and x.func.attr == "get_extra_info" and [norm(a) for a in x.args] == ["'ssl_object'"]})
            rows_bad = []
            alts_ok = bool(expanded)
            for ssl_present in (False, True):
                for alpn in ("h2", "http/1.1"):
                    for h2 in (False, True):
                        for h1 in (False, True):
                            env = {"self._http2": h2, "self._http1": h1}
                            for st_ in ssl_terms:
                                env[st_] = Sym("SSLObject") if ssl_present else None
                                env[st_ + ".selected_alpn_protocol()"] = alpn
                            want = (ssl_present and alpn == "h2") or (h2 and not h1)
                            if len(multi) == 1 and len(per_branch) == 1:
                                for alt, pol in multi[0]:
                                    uses_ssl = any(st_ in norm(alt) for st_ in ssl_terms) or "ssl_object" in norm(alt)
                                    if not uses_ssl and ssl_present:
                                        continue        # this binding belongs to the hop without TLS
                                    v = peval(alt, env)
                                    if v is UNKNOWN:
                                        alts_ok = False
                                    elif (bool(v) == pol) != want:
                                        rows_bad.append(f"tls={ssl_present},alpn={alpn},http2={h2},http1={h1}: chosen={bool(v) == pol} want={want} (binding `{ast.unparse(alt)[:50]}`)")
                                continue
                            got: object = True
                            for alt, pol in expanded:
                                v = peval(alt, env)
                                if v is UNKNOWN:
                                    alts_ok = False
                                elif bool(v) != pol:
                                    got = False
                            if bool(got) != want:
                                rows_bad.append(f"tls={ssl_present},alpn={alpn},http2={h2},http1={h1}: chosen={got} want={want}")
            h1_else = _ctor_calls(f, {t("AsyncHTTP11Connection")})
            rep.ob("C10.R6", fkey(tree, f, "http2-selection"), not rows_bad and alts_ok and bool(h1_else), where(f, c),
                   "HTTP/2 is constructed exactly when h2 was negotiated over TLS or HTTP/1.1 is disabled (16 rows)" if not rows_bad and alts_ok else f"HTTP/2 selection deviates: {rows_bad[:4] or 'guard not evaluable'}")
            # the TLS object inspected is the one of the stream handed to the protocol connection
            cfgn = ctx.cfg(f).nodes_for(c)
            defs = ctx.prov.rd(f).defs("ssl_object", cfgn[0]) if cfgn else []
            src = [norm(d.ast.value) for d in defs if isinstance(d.ast, ast.Assign)]
            sarg = [norm(k.value) for k in c.keywords if k.arg == "stream"]
            rep.ob("C10.R6", fkey(tree, f, "ssl_object-source"), src == ["stream.get_extra_info('ssl_object')"] and sarg == ["stream"], where(f, c),
                   f"ssl_object <- {src}; connection built on stream={sarg}")
    rep.floor("C10.R6", f"HTTP/2 connection constructions ({tree})", nsel, 2)


_core_run = run


def run(ctx: Context) -> None:  # noqa: F811
    _core_run(ctx)
    from . import plumb

    ctx.rep.rule('C10.R8', 'TLS configuration, protocol flags, origins and the connect target (uds / local_address) reach every connection unchanged (store link + pass link at every constructor call)')
    plumb.plumbing(ctx, 'C10.R8', ['ssl_context', 'proxy_ssl_context', 'http1', 'http2', 'origin', 'remote_origin', 'proxy_origin', 'uds', 'local_address'])
    ctx.rep.rule('C10.R9', 'a URL / Origin rebuilt from another one copies scheme, host and port from the same-named components of the same object')
    plumb.derived_identity(ctx, 'C10.R9')
    from . import backend

    ctx.rep.rule('C10.R10', 'the default async backend is a pure delegation: host, port, local address, socket options and timeout reach the running library backend unchanged')
    backend.auto_delegation(ctx, 'C10.R10')



_core_run_r11 = run


def run(ctx: Context) -> None:  # noqa: F811
    _core_run_r11(ctx)
    from .c03 import _request_immutable

    ctx.rep.rule("C10.R11", "the TLS server name of a later handshake cannot be changed by an earlier request: nothing modifies a Request or the extensions mapping it "
                            "shares with the caller (the `sni_hostname` override lives there)")
    _request_immutable(ctx, "C10.R11", "the mapping is the caller's own - a later handshake that reads `sni_hostname` (or the timeouts) from it sees the modified value, "
                                       "so the connection is authenticated against a different name than the one the caller asked for")



_core_run_r12 = run


def run(ctx: Context) -> None:  # noqa: F811
    _core_run_r12(ctx)
    from . import c11

    if ctx.rep._borrow is not None:
        return          # already running as a lender: no chains
    with ctx.rep.borrow({"C11.R3": ("C10.R12", "TLS to the origin and the origin request go onto the tunnel stream only after the proxy said 2xx - otherwise that stream is a plain "
                                                "connection to the PROXY, and the request is sent to a host it was never meant for:")}):
        c11.run(ctx)



_core_run_r13 = run


def run(ctx: Context) -> None:  # noqa: F811
    _core_run_r13(ctx)
    if ctx.rep._borrow is not None:
        return
    from . import support

    ctx.rep.rule("C10.R13", "what a connection offers in its TLS handshake depends on its own configuration only: the establishing modules modify no per-process object "
                            "(class-level / module-level container, mutable default argument) in place - checked on the source as written, before constants are inlined")
    support.no_shared_mutable_state(
        ctx, "C10.R13",
        tuple(f"httpcore._{t}.{n}" for t in ("async", "sync") for n in ("connection", "http_proxy", "socks_proxy", "connection_pool")) + ("httpcore._ssl", "httpcore._utils", "httpcore._models"),
        "the object is shared by every connection of the process, so the ALPN list / TLS settings / headers one connection (http2=True) builds are what the next one (http2=False) starts from")
