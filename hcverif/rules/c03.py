"""C03 - requests are serialised faithfully on the wire (the glue is faithful; h11/h2 output not decided)."""
from __future__ import annotations

import ast

from ..context import Context
from ..guards import enclosing_withs, guards_of
from ..load import AnalysisError, FuncInfo, Names, chain, norm, own_nodes, parent
from ..norm import guard_atoms
from .c05 import node_calls
from .common import calls_named, effective_body, fkey, trees, where
from .lf import call_sink, loops_of, passthrough, split_lossless


def run(ctx: Context) -> None:
    rep = ctx.rep
    rep.explanation = (
        "What h11 / h2 emit for an event is their behaviour (not decided). Decided: R1 the h11.Request event is built from exactly "
        "request.method / request.url.target / request.headers; R2 every chunk of request.stream becomes one h11.Data event that is sent, "
        "followed by exactly one EndOfMessage, and every non-None result of h11's send() is written; R3 the HTTP/2 header block is the "
        "four pseudo-headers from request.method / Host value / request.url.scheme / request.url.target followed by the lower-cased "
        "headers minus exactly {host, transfer-encoding}, in order; R4 END_STREAM on HEADERS and the early return of the body routine use "
        "the same predicate; R5 every body chunk goes through the frame splitter, the split is lossless, the stream is ended after the "
        "loop and the state machine's output is written once per step; R6 default headers: Host only if absent (prepended), "
        "Content-Length / Transfer-Encoding only if both absent (appended), lower-cased key set of the input; R7 the head is validated "
        "(LocalProtocolError mapping) before the first write."
    )
    for r, t in (("C03.R1", "h11.Request arguments"), ("C03.R2", "HTTP/1.1 body: one Data per chunk, one EndOfMessage, all bytes written"),
                 ("C03.R3", "HTTP/2 header block shape"), ("C03.R4", "END_STREAM predicate agreement"), ("C03.R5", "HTTP/2 body: lossless chunks and splits"),
                 ("C03.R6", "default header insertion"), ("C03.R7", "head rejected before any write"),
                 ("C03.R8", "the Request object and its header list are never modified after construction (every transmission attempt sends the same request)")):
        rep.rule(r, t)
    for tree, N in trees(ctx):
        t = N.t
        h11 = N.cls("http11", "AsyncHTTP11Connection")
        h2 = N.cls("http2", "AsyncHTTP2Connection")
        # R1
        sh = h11.methods["_send_request_headers"]
        reqs = [c for c in own_nodes(sh.node) if isinstance(c, ast.Call) and norm(c.func) == "h11.Request"]
        rep.floor("C03.R1", f"h11.Request construction ({tree})", len(reqs), 1)
        for c in reqs:
            kw = {k.arg: norm(k.value) for k in c.keywords}
            rep.ob("C03.R1", fkey(tree, sh, "h11.Request"), kw == {"method": "request.method", "target": "request.url.target", "headers": "request.headers"} and not c.args, where(sh, c), f"h11.Request({kw})")
            # R7
            maps = [norm(i.context_expr) for w, i in enclosing_withs(c)]
            rep.ob("C03.R7", fkey(tree, sh, "mapped"), "map_exceptions({h11.LocalProtocolError:LocalProtocolError})" in maps, where(sh, c), f"head construction runs under {maps}")
            cfg = ctx.cfg(sh)
            cn = cfg.nodes_for(c)
            writes = [n for n in cfg.nodes if node_calls(n, lambda x: norm(x.func) == "self._send_event")]
            rep.ob("C03.R7", fkey(tree, sh, "before-write"), bool(writes) and all(cfg.dominates(cn[0], w) and w is not cn[0] for w in writes), where(sh, c), "the head is built (validated) before anything is written")
            ev = [norm(a) for w in writes for x in ast.walk(w.ast) if isinstance(x, ast.Call) and norm(x.func) == "self._send_event" for a in x.args[:1]]
            rep.ob("C03.R1", fkey(tree, sh, "event-sent"), ev == ["event"] and any(isinstance(s, ast.Assign) and norm(s.targets[0]) == "event" and s.value is c for s in own_nodes(sh.node)), where(sh), "the constructed event is the one sent")
        # R2
        sb = h11.methods["_send_request_body"]
        ls = [l for l in loops_of(sb) if isinstance(l, (ast.For, ast.AsyncFor))]
        rep.floor("C03.R2", f"HTTP/1.1 body loop ({tree})", len(ls), 1)
        for l in ls:
            rep.ob("C03.R2", fkey(tree, sb, "iterates-request-stream"), norm(l.iter) == "request.stream", where(sb, l), f"body loop iterates {norm(l.iter)}")
            passthrough(ctx, "C03.R2", tree, sb, l, call_sink("Data", kw="data", argpos=0), "chunk->h11.Data")
            sends = [c for c in ast.walk(l) if isinstance(c, ast.Call) and norm(c.func) == "self._send_event"]
            datas = [s for s in ast.walk(l) if isinstance(s, ast.Assign) and isinstance(s.value, ast.Call) and norm(s.value.func) == "h11.Data"]
            direct = [c for c in ast.walk(l) if isinstance(c, ast.Call) and norm(c.func) == "h11.Data"]
            sent_arg = sends[0].args[0] if len(sends) == 1 and sends[0].args else None
            is_event = sent_arg is not None and ((len(datas) == 1 and norm(sent_arg) == norm(datas[0].targets[0])) or (len(direct) == 1 and sent_arg is direct[0] and not datas))
            ok = len(sends) == 1 and is_event and not guard_atoms(guards_of(sends[0])) - guard_atoms(guards_of(l))
            rep.ob("C03.R2", fkey(tree, sb, "data-event-sent"), ok, where(sb, l), "each Data event is sent once, unconditionally")
        eoms = [c for c in own_nodes(sb.node) if isinstance(c, ast.Call) and norm(c.func) == "h11.EndOfMessage"]
        inloop = {id(x) for l in ls for x in ast.walk(l)}
        ok = len(eoms) == 1 and id(eoms[0]) not in inloop and bool(ls) and eoms[0].lineno > ls[0].end_lineno and isinstance(parent(eoms[0]), ast.Call) and norm(parent(eoms[0]).func) == "self._send_event" \
            and not guard_atoms(guards_of(eoms[0]))
        rep.ob("C03.R2", fkey(tree, sb, "one-end-of-message"), ok, where(sb, eoms[0] if eoms else None), "exactly one EndOfMessage is sent, after the body loop, unconditionally")
        se = h11.methods["_send_event"]
        ws = [c for c in own_nodes(se.node) if isinstance(c, ast.Call) and norm(c.func) == "self._network_stream.write"]
        okw = len(ws) == 1 and [norm(a) for a in ws[0].args[:1]] == ["bytes_to_send"] and guard_atoms(guards_of(ws[0])) <= {"None!=bytes_to_send", "bytes_to_send!=None", "bytes_to_send"}
        src = [norm(a) for a in ctx.prov.expand(ws[0].args[0], se, ws[0], depth=1)] if ws else []
        rep.ob("C03.R2", fkey(tree, se, "writes-all"), okw and src == ["self._h11_state.send(event)"], where(se), f"bytes written <- {src}, guarded only by `is not None`")
        # R3
        s2 = h2.methods["_send_request_headers"]
        shc = [c for c in own_nodes(s2.node) if isinstance(c, ast.Call) and norm(c.func) == "self._h2_state.send_headers"]
        rep.floor("C03.R3", f"send_headers call ({tree})", len(shc), 1)
        for c in shc:
            alts = ctx.prov.expand(c.args[1], s2, c, depth=1) if len(c.args) > 1 else []
            ok = False
            detail = "header block not located"
            if len(alts) == 1 and isinstance(alts[0], ast.BinOp) and (isinstance(alts[0].left, ast.Name) or isinstance(alts[0].right, ast.Name)):
                # the pseudo-header list / the regular-header comprehension bound to a name of its own
                sides = []
                for side, kind in ((alts[0].left, ast.List), (alts[0].right, ast.ListComp)):
                    if isinstance(side, ast.Name):
                        la = ctx.prov.expand(side, s2, c, depth=1)
                        if len(la) == 1 and isinstance(la[0], kind):
                            side = la[0]
                    sides.append(side)
                alts = [ast.BinOp(left=sides[0], op=alts[0].op, right=sides[1])]
            if len(alts) == 1 and isinstance(alts[0], ast.BinOp) and isinstance(alts[0].left, ast.List) and isinstance(alts[0].right, ast.ListComp):
                pseudo = [norm(e) for e in alts[0].left.elts]
                lc = alts[0].right
                g = lc.generators[0]
                excl = set()
                for cond in g.ifs:
                    if isinstance(cond, ast.Compare) and isinstance(cond.ops[0], ast.NotIn) and norm(cond.left) == "k.lower()" and isinstance(cond.comparators[0], (ast.Tuple, ast.List, ast.Set)):
                        excl = {e.value for e in cond.comparators[0].elts if isinstance(e, ast.Constant)}
                # the :authority value may be a local of any name or the expression itself: judged below (obligation `authority`)
                auth_expr = alts[0].left.elts[1].elts[1] if len(alts[0].left.elts) > 1 and isinstance(alts[0].left.elts[1], ast.Tuple) and len(alts[0].left.elts[1].elts) == 2 else None
                if auth_expr is not None:
                    pseudo[1] = f"({norm(alts[0].left.elts[1].elts[0])},authority)"
                ok = pseudo == ["(b':method',request.method)", "(b':authority',authority)", "(b':scheme',request.url.scheme)", "(b':path',request.url.target)"] and \
                    norm(lc.elt) == "(k.lower(),v)" and norm(g.iter) == "request.headers" and norm(g.target) == "(k,v)" and excl == {b"host", b"transfer-encoding"} and len(g.ifs) == 1
                detail = f"pseudo={pseudo} rest={norm(lc.elt)} for {norm(g.target)} in {norm(g.iter)} excluding {sorted(excl)}"
            rep.ob("C03.R3", fkey(tree, s2, "header-block"), ok, where(s2, c), detail)
            auth_src = locals().get("auth_expr")
            auth = [norm(a) for a in ctx.prov.expand(auth_src, s2, c, depth=2)] if auth_src is not None else []
            rep.ob("C03.R3", fkey(tree, s2, "authority"), bool(auth) and all("request.headers" in a and "b'host'" in a and (a.endswith("[0]") or (a.startswith("next(") and a.endswith(",None)"))) for a in auth), where(s2, c), f":authority <- {auth}")
            rep.ob("C03.R3", fkey(tree, s2, "stream-id"), norm(c.args[0]) == "stream_id", where(s2, c), "headers are sent on the routine's stream id")
            es = [norm(k.value) for k in c.keywords if k.arg == "end_stream"]
            esrc = [norm(a) for k in c.keywords if k.arg == "end_stream" for a in ctx.prov.expand(k.value, s2, c)]
            body = h2.methods["_send_request_body"]
            from .common import early_return_atom

            early = early_return_atom(body.node.body) == "not:has_body_headers(request)"
            rep.ob("C03.R4", fkey(tree, s2, "end-stream-agreement"), esrc == ["nothas_body_headers(request)"] and early, where(s2, c),
                   f"END_STREAM <- {esrc}; body routine returns early on the same predicate: {early}" + ("" if esrc == ["nothas_body_headers(request)"] and early else " - data on a closed stream or a stream that is never ended"))
        # R5
        b2 = h2.methods["_send_request_body"]
        ls2 = [l for l in loops_of(b2) if isinstance(l, (ast.For, ast.AsyncFor))]
        rep.floor("C03.R5", f"HTTP/2 body loop ({tree})", len(ls2), 1)
        for l in ls2:
            rep.ob("C03.R5", fkey(tree, b2, "iterates-request-stream"), norm(l.iter) == "request.stream", where(b2, l), f"body loop iterates {norm(l.iter)}")
            passthrough(ctx, "C03.R5", tree, b2, l, call_sink("_send_stream_data", argpos=2, kw="data"), "chunk->_send_stream_data")
        ends = [c for c in own_nodes(b2.node) if isinstance(c, ast.Call) and norm(c.func) == "self._send_end_stream"]
        inl = {id(x) for l in ls2 for x in ast.walk(l)}
        rep.ob("C03.R5", fkey(tree, b2, "end-stream-after-loop"), len(ends) == 1 and id(ends[0]) not in inl and bool(ls2) and ends[0].lineno > ls2[0].end_lineno, where(b2), "the stream is ended exactly once after the body loop")
        sd = h2.methods["_send_stream_data"]
        split_lossless(ctx, "C03.R5", tree, sd, "data", "frame split")
        wl = [l for l in loops_of(sd) if isinstance(l, ast.While)]
        # leaving the loop loses what is left of the chunk; a `continue` BEFORE anything was cut off the chunk (wait again for credit) loses nothing
        cut = min([x.lineno for x in ast.walk(wl[0]) if isinstance(x, ast.Assign) and any(isinstance(t_, ast.Name) and t_.id == "data" for tg_ in x.targets for t_ in ast.walk(tg_))] or [0]) if wl else 0
        oks = bool(wl) and norm(wl[0].test) == "data" and not [x for x in ast.walk(wl[0]) if isinstance(x, (ast.Break, ast.Return)) or (isinstance(x, ast.Continue) and not (0 < x.lineno < cut))]
        snd = [c for c in own_nodes(sd.node) if isinstance(c, ast.Call) and norm(c.func) == "self._h2_state.send_data"]
        oks = oks and len(snd) == 1 and [norm(a) for a in snd[0].args] == ["stream_id", "chunk"]
        rep.ob("C03.R5", fkey(tree, sd, "split-loop"), oks, where(sd), "the split loop runs until the chunk is consumed and sends every piece on the stream")
        wo = h2.methods["_write_outgoing_data"]
        ws = [c for c in own_nodes(wo.node) if isinstance(c, ast.Call) and norm(c.func) == "self._network_stream.write"]
        src = [norm(a) for a in ctx.prov.expand(ws[0].args[0], wo, ws[0], depth=1)] if ws else []
        rep.ob("C03.R5", fkey(tree, wo, "flush"), len(ws) == 1 and src == ["self._h2_state.data_to_send()"], where(wo), f"flushed bytes <- {src}")
        if tree == "async" and ws:
            # draining h2's buffer commits the HPACK encoder state: the drained bytes must not be droppable by a cancellation
            cfgw = ctx.cfg(wo)
            dn = [n for n in cfgw.nodes if node_calls(n, lambda x: norm(x.func) == "self._h2_state.data_to_send")]
            wn = [n for n in cfgw.nodes if node_calls(n, lambda x: norm(x.func) == "self._network_stream.write")]
            between = []
            if dn and wn:
                r = cfgw.reachable([e.dst for e in dn[0].succ if e.kind != "exc"], follow=lambda e: e.kind != "exc", stop=lambda n: n is wn[0])
                between = [n for n in cfgw.nodes if n.id in r and n is not wn[0] and n.may_cancel()]
            rep.ob("C03.R5", fkey(tree, wo, "drain-to-write-atomic"), bool(dn) and bool(wn) and not between, where(wo, dn[0].ast if dn else None),
                   "no cancellation point between draining h2's output buffer and writing it" if not between else
                   f"cancellation point `{between[0].text()}` lies between data_to_send() and the write: a request cancelled there drops frames the HPACK encoder has already accounted for - "
                   "every later header block on the connection decodes to different headers at the server")
    _request_immutable(ctx)
    # R6 (shared)
    inc = ctx.prog.func("httpcore._models", "include_request_headers")
    hs = [n for n in own_nodes(inc.node) if isinstance(n, ast.Assign) and norm(n.targets[0]) == "headers_set"]
    ok = bool(hs) and norm(hs[0].value) in ("set((k.lower()fork,vinheaders))", "{k.lower()fork,vinheaders}")
    rep.ob("C03.R6", "shared|include_request_headers|key-set", ok, where(inc, hs[0] if hs else None), "headers_set is the lower-cased key set of the input list")
    augs = [n for n in own_nodes(inc.node) if isinstance(n, ast.AugAssign) and norm(n.target) == "headers"]
    need = {"None!=content", "b'content-length'notinheaders_set", "b'transfer-encoding'notinheaders_set"}
    okf = len(augs) == 2 and all(need <= guard_atoms(guards_of(a)) for a in augs)
    cl = [a for a in augs if "Content-Length" in ast.unparse(a)]
    te = [a for a in augs if "Transfer-Encoding" in ast.unparse(a)]
    okf = okf and len(cl) == 1 and len(te) == 1 and "isinstance(content,bytes)" in guard_atoms(guards_of(cl[0])) and "not:isinstance(content,bytes)" in guard_atoms(guards_of(te[0]))
    # the appended Content-Length value, through a temporary of any name or written in place
    clx = None
    if cl and isinstance(cl[0].value, (ast.List, ast.Tuple)) and len(cl[0].value.elts) == 1 and isinstance(cl[0].value.elts[0], ast.Tuple) and len(cl[0].value.elts[0].elts) == 2:
        clx = cl[0].value.elts[0].elts[1]
    clv = [norm(a) for a in ctx.prov.expand(clx, inc, cl[0])] if clx is not None else []
    rep.ob("C03.R6", "shared|include_request_headers|framing", okf and clv == ["str(len(content)).encode('ascii')"], where(inc),
           "Content-Length (bytes body, = len) / Transfer-Encoding: chunked (iterator body) are appended only when both are absent and a body is given")
    rets = [norm(r.value) for r in own_nodes(inc.node) if isinstance(r, ast.Return) and r.value is not None]
    rep.ob("C03.R6", "shared|include_request_headers|returns", rets == ["headers"], where(inc), "the (possibly extended) list is returned")
    # the helper extends its argument in place (`headers += ...`): the argument must be a fresh list, never the caller's own object
    enf = ctx.prog.func("httpcore._models", "enforce_headers")
    stale = []
    for r in own_nodes(enf.node):
        if isinstance(r, ast.Return) and r.value is not None:
            v = r.value
            fresh = isinstance(v, (ast.ListComp, ast.List)) or (isinstance(v, ast.Call) and norm(v.func) == "list")
            if not fresh:
                stale.append(r)
    rep.ob("C03.R6", "shared|enforce_headers|returns-fresh-list", not stale, where(enf, stale[0] if stale else None),
           "enforce_headers returns a new list on every path" if not stale else
           f"enforce_headers can return `{ast.unparse(stale[0].value)[:60]}` - the caller's own container: include_request_headers then appends the framing header to it IN PLACE, "
           "so a header list reused for a second request carries the previous request's Content-Length")
    for tree in ("async", "sync"):
        N = ctx.names(tree)
        for m in ("request", "stream"):
            f = N.func("interfaces", f"AsyncRequestInterface.{m}")
            calls = [c for c in own_nodes(f.node) if isinstance(c, ast.Call) and norm(c.func) == "include_request_headers"]
            def src1(e: ast.AST, at: ast.AST) -> list[str]:
                """where the value comes from, one step back (the locals may re-use the parameter names or have names of their own)"""
                if isinstance(e, ast.Call):
                    return [norm(e)]
                return sorted({norm(a) for a in ctx.prov.expand(e, f, at, depth=1)})
            URLSRC = ["enforce_url(url,name='url')"]
            ok = len(calls) == 1 and len(calls[0].args) == 1 and sorted(k.arg for k in calls[0].keywords) == ["content", "url"] and \
                all((k.arg == "url" and src1(k.value, calls[0]) == URLSRC) or (k.arg == "content" and norm(k.value) == "content") for k in calls[0].keywords)
            if ok:
                # the list handed over is the fresh one made by enforce_headers (directly, or through a local of any name)
                a0 = calls[0].args[0]
                src = [norm(a0)] if isinstance(a0, ast.Call) else [norm(a) for a in ctx.prov.expand(a0, f, calls[0], depth=1)]
                ok = src == ["enforce_headers(headers,name='headers')"]
            rq = [c for c in own_nodes(f.node) if isinstance(c, ast.Call) and norm(c.func) == "Request"]
            okq = len(rq) == 1 and sorted(k.arg for k in rq[0].keywords) == ["content", "extensions", "headers", "method", "url"]
            if okq:
                kv = {k.arg: k.value for k in rq[0].keywords}
                hsrc = src1(kv["headers"], rq[0])
                okq = src1(kv["method"], rq[0]) == ["enforce_bytes(method,name='method')"] and src1(kv["url"], rq[0]) == URLSRC and norm(kv["content"]) == "content" \
                    and norm(kv["extensions"]) == "extensions" and len(hsrc) == 1 and hsrc[0].startswith("include_request_headers(") and len(calls) == 1 and \
                    hsrc[0] == norm(calls[0])
            rep.ob("C03.R6", fkey(tree, f, "request-assembly"), ok and okq, where(f), "the request is assembled from the enforced arguments with the default headers included")


LIST_MUTATORS = {"append", "extend", "insert", "remove", "pop", "clear", "sort", "reverse", "__setitem__", "__delitem__", "update", "setdefault"}


def _request_immutable(ctx: Context, rule: str = "C03.R8", consequence: str | None = None) -> None:
    """Census: no store to an attribute of a Request, no in-place mutation of request.headers / request.extensions, anywhere
    outside Request.__init__ (the pool may transmit the same Request object again)."""
    rep = ctx.rep
    sites = 0
    funcs = []
    for tree in ("async", "sync"):
        funcs += [(tree, f) for f in ctx.names(tree).functions()]
    funcs += [("shared", f) for f in ctx.prog.module("httpcore._models").all_functions() if f.short != "Request.__init__"]
    funcs += [("shared", f) for f in ctx.prog.module("httpcore._trace").all_functions()]
    for tree, f in funcs:
        for n in own_nodes(f.node):
            target = None
            what = ""
            if isinstance(n, ast.Attribute) and isinstance(n.ctx, (ast.Store, ast.Del)):
                target, what = n.value, f"store to .{n.attr}"
            elif isinstance(n, ast.Call) and isinstance(n.func, ast.Attribute) and n.func.attr in LIST_MUTATORS:
                target, what = n.func.value, f".{n.func.attr}()"
            elif isinstance(n, ast.AugAssign) and isinstance(n.target, (ast.Attribute, ast.Subscript)):
                target, what = n.target, "augmented assignment"
            elif isinstance(n, ast.Subscript) and isinstance(n.ctx, (ast.Store, ast.Del)):
                target, what = n.value, "item store"
            if target is None:
                continue
            ty = ctx.types.expr_type(target, f)
            is_req = ty[0] == "cls" and ty[1].name == "Request"
            txt = norm(target)
            on_fields = any(txt == f"{r}.{fld}" or txt.startswith(f"{r}.{fld}.") or txt.startswith(f"{r}.{fld}[") for r in ("request", "self._request", "pool_request.request", "proxy_request", "connect_request")
                            for fld in ("headers", "extensions", "url", "stream"))
            if what.startswith("store") and not is_req:
                continue
            if not what.startswith("store") and not on_fields:
                continue
            sites += 1
            rep.ob(rule, fkey(tree, f, f"mutates-request:{norm(n)[:50]}"), False, where(f, n),
                   f"`{ast.unparse(n)[:70]}` ({what}) modifies a Request after construction: " +
                   (consequence or "a transparent re-send (or the caller's next use of the same objects) transmits a different request"))
    if not sites:
        rep.ob(rule, "both|*|request-immutable", True, "httpcore/", "no code modifies a Request object, its header list, URL or extensions after construction")


def drain_write_atomic(ctx: Context, rule: str, consequence: str) -> None:
    """Async tree: no cancellation point between draining h2's output buffer (which commits the HPACK encoder and the stream /
    window accounting) and handing the bytes to the network."""
    rep = ctx.rep
    N = ctx.names("async")
    h2 = N.cls("http2", "AsyncHTTP2Connection")
    wo = h2.methods["_write_outgoing_data"]
    cfgw = ctx.cfg(wo)
    dn = [n for n in cfgw.nodes if node_calls(n, lambda x: norm(x.func) == "self._h2_state.data_to_send")]
    wn = [n for n in cfgw.nodes if node_calls(n, lambda x: norm(x.func) == "self._network_stream.write")]
    rep.floor(rule, "data_to_send / write pair in _write_outgoing_data (async)", min(len(dn), len(wn)), 1)
    between = []
    if dn and wn:
        r = cfgw.reachable([e.dst for e in dn[0].succ if e.kind != "exc"], follow=lambda e: e.kind != "exc", stop=lambda n: n is wn[0])
        between = [n for n in cfgw.nodes if n.id in r and n is not wn[0] and n.may_cancel()]
    rep.ob(rule, fkey("async", wo, "drain-to-write-atomic"), bool(dn) and bool(wn) and not between, where(wo, dn[0].ast if dn else None),
           "no cancellation point between draining h2's output buffer and writing it" if not between else
           f"cancellation point `{between[0].text()}` lies between data_to_send() and the write: " + consequence)

_core_run = run


def run(ctx: Context) -> None:  # noqa: F811
    _core_run(ctx)
    from . import backend

    ctx.rep.rule('C03.R9', "each real backend's write() hands every byte of the buffer to the OS exactly once (write-all primitive, or a `while buffer` loop advanced by the count a partial send returns)")
    backend.write_all(ctx, 'C03.R9')
    ctx.rep.explanation = (ctx.rep.explanation or '') + " R9 (transport layer): every real backend stream's write() delivers the whole buffer - a write-all primitive, or a partial send inside a loop advanced by the returned count."


_core_run_r10 = run


def run(ctx: Context) -> None:  # noqa: F811
    _core_run_r10(ctx)
    from .c14 import _send_may_precede, _sent_before_entry, send_reaching

    rep = ctx.rep
    rep.rule("C03.R10", "a transmission attempt is repeated (ConnectionNotAvailable -> the pool sends the SAME Request object again) only from a point where nothing of "
                        "the request can have been sent yet: the body of a request is an iterator that an earlier attempt has consumed, so a re-send after a send "
                        "transmits a complete request with a shorter body")
    n = 0
    for tree, N in trees(ctx):
        reach = send_reaching(ctx, N)
        sent_before = _sent_before_entry(ctx, N, reach)
        for f in N.functions():
            for r in own_nodes(f.node):
                if isinstance(r, ast.Raise) and r.exc is not None and "ConnectionNotAvailable" in norm(r.exc):
                    n += 1
                    may, why = _send_may_precede(ctx, f, r, reach, sent_before)
                    occ = sum(1 for x in own_nodes(f.node) if isinstance(x, ast.Raise) and x.exc is not None and "ConnectionNotAvailable" in norm(x.exc) and x.lineno < r.lineno)
                    rep.ob("C03.R10", fkey(tree, f, f"resend-after-send:{occ}"), not may, where(f, r),
                           "no request-sending call can precede this raise within the call" if not may else
                           f"request data - body chunks drawn from the caller's iterator included - may already have been sent here ({why}); the pool answers this exception by "
                           "sending the same Request object on another connection: the iterator does not start again, so that attempt carries only what is left of the body "
                           "(possibly nothing) and the caller receives the server's answer to the truncated request")
    rep.floor("C03.R10", "raise sites of ConnectionNotAvailable (both trees)", n, 8)



_core_run_r11 = run


def run(ctx: Context) -> None:  # noqa: F811
    _core_run_r11(ctx)
    from . import c19

    if ctx.rep._borrow is not None:
        return          # already running as a lender: no chains
    with ctx.rep.borrow({"C19.R6": ("C03.R11", "the Host header (and the HTTP/2 :authority derived from it) that is supplied when the caller gave none names the URL's authority - "
                                                "host alone iff the port is absent or the scheme's own default:"),
                         "C19.R8": ("C03.R12", "the request line / :path of EVERY transmission carries the caller's target: URL and Origin objects are never written to after construction - "
                                               "`enforce_url` hands the caller's own URL instance through, so a store into it (e.g. the `target` extension) changes the target of every "
                                               "later request built from the same object:")}):
        c19.run(ctx)
