"""Rules over the transport layer itself: the real network backends (httpcore/_backends/{sync,anyio,trio}.py) and the
synchronisation primitives (httpcore/_synchronization.py).  The protocol-level rules treat `write`, `read`, `aclose`,
`Event.set`, ... as boundary operations with a contract; the rules here decide the structural half of that contract
on the httpcore side of the boundary:

 write_all          every byte of `buffer` is handed to the OS: one write-all primitive on the whole buffer, or a
                    partial-send primitive inside `while buffer: n = send(buffer); buffer = buffer[n:]`
 read_passthrough   `read` returns the bytes of exactly one receive primitive, unmodified (b"" only for end-of-stream)
 close_releases     `close`/`aclose` reaches the release of the OS resource on every path (nothing that can raise before it
                    unless the release sits in a `finally`), unconditionally
 primitives         Lock / Event / Semaphore (thread and async flavours) are guard-free delegations to one underlying
                    primitive that is created exactly once (thread flavour: in the constructor; async flavour: in the
                    synchronous `setup()`), so a `set()` can never miss a waiter and an acquire/release pair always
                    talks to the same object
 shield             the cancellation shield enters/exits a CancelScope(shield=True)

The mock backend is the test double, not a transport: it is not covered (its `write` discards bytes by design)."""
from __future__ import annotations

import ast
import typing as T

from ..context import Context
from ..guards import guards_of
from ..load import AnalysisError, ClassInfo, FuncInfo, chain, norm, own_nodes, parent, strip_await
from ..norm import guard_atoms
from .common import fkey, is_noise, where

BACKEND_MODULES = ("httpcore._backends.sync", "httpcore._backends.anyio", "httpcore._backends.trio")
STREAM_BASES = ("NetworkStream", "AsyncNetworkStream")

# (module leaf, last attribute of the callee) -> contract of the third-party / stdlib primitive, from its documentation
SEND_ALL = {("sync", "sendall"), ("anyio", "send"), ("trio", "send_all")}
SEND_PARTIAL = {("sync", "send"), ("sync", "write")}          # socket.send / SSLObject.write return the number of bytes taken
RECEIVE = {("sync", "recv"), ("sync", "read"), ("anyio", "receive"), ("trio", "receive_some")}
RELEASE = {("sync", "close"), ("anyio", "aclose"), ("trio", "aclose")}
EOF_EXC = ("EndOfStream",)
PURE_WRAPPERS = ("cast", "partial", "_perform_io", "bytes")   # value-preserving wrappers around a primitive call


def _leaf(modname: str) -> str:
    return modname.rsplit(".", 1)[-1]


def stream_classes(ctx: Context) -> list[tuple[str, ClassInfo]]:
    out = []
    for mn in BACKEND_MODULES:
        m = ctx.prog.module(mn)
        for c in m.classes.values():
            if any((chain(b) or [""])[-1] in STREAM_BASES for b in c.node.bases):
                out.append((_leaf(mn), c))
    if len(out) < 4:
        raise AnalysisError(f"anchor vanished: expected at least 4 real backend stream classes, found {[c.name for _, c in out]}")
    return out


def _uses(e: ast.AST, name: str) -> bool:
    return any(isinstance(n, ast.Name) and n.id == name for n in ast.walk(e))


def _prim_calls(f: FuncInfo, leaf: str, table: set[tuple[str, str]]) -> list[ast.Call]:
    """Calls of (or `functools.partial` references to) a primitive of `table` on an attribute of self."""
    out = []
    for n in own_nodes(f.node):
        if isinstance(n, ast.Call):
            ch = chain(n.func)
            if ch and len(ch) >= 3 and ch[0] == "self" and (leaf, ch[-1]) in table:
                out.append(n)
            elif ch and ch[-1] == "partial" and n.args:
                ch2 = chain(n.args[0])
                if ch2 and len(ch2) >= 3 and ch2[0] == "self" and (leaf, ch2[-1]) in table:
                    out.append(n)
    return out


def _args_of(call: ast.Call) -> list[ast.AST]:
    ch = chain(call.func)
    args = list(call.args) + [k.value for k in call.keywords]
    if ch and ch[-1] == "partial":
        args = args[1:]
    return args


def _enclosing_stmt_value_call(call: ast.Call) -> tuple[ast.stmt | None, ast.AST]:
    """The statement containing `call`, and the outermost value-preserving expression around the call."""
    cur: ast.AST = call
    while True:
        p = parent(cur)
        if p is None or isinstance(p, ast.stmt):
            return (p if isinstance(p, ast.stmt) else None), cur
        if isinstance(p, ast.Await):
            cur = p
            continue
        if isinstance(p, ast.Call) and (chain(p.func) or [""])[-1] in PURE_WRAPPERS:
            cur = p
            continue
        if isinstance(p, ast.keyword):
            cur = p
            continue
        return None, cur


def write_all(ctx: Context, rule: str) -> None:
    rep = ctx.rep
    n = 0
    for leaf, c in stream_classes(ctx):
        f = c.methods.get("write")
        if f is None:
            rep.ob(rule, fkey("backend", c.methods.get("__init__") or next(iter(c.methods.values())), f"{c.name}.write"), False, f"{c.module.relpath}", f"{c.name} has no write()")
            continue
        par = [a for a in f.param_names() if a != "self"]
        buf = par[0] if par else "buffer"
        alls = _prim_calls(f, leaf, SEND_ALL)
        parts = [x for x in _prim_calls(f, leaf, SEND_PARTIAL) if x not in alls]
        key = fkey("backend", f, "write-all")
        n += 1
        if not alls and not parts:
            rep.ob(rule, key, False, where(f), f"{c.name}.write hands `{buf}` to no known send primitive ({sorted(SEND_ALL | SEND_PARTIAL)}): the bytes never reach the socket")
            continue
        problems: list[str] = []
        at: ast.AST | None = None
        for call in alls:
            at = call
            args = _args_of(call)
            if not any(norm(a) == buf for a in args):
                problems.append(f"`{ast.unparse(call)[:60]}` is not given the whole `{buf}`")
            extra = {a for a in guard_atoms(guards_of(call)) if a not in (buf, f"not:not{buf}", f"len({buf})>0")}
            if extra:
                problems.append(f"`{ast.unparse(call)[:60]}` only runs under {sorted(extra)}")
            if any(isinstance(a, (ast.For, ast.While)) for a in _anc(call, f)):
                problems.append(f"`{ast.unparse(call)[:60]}` sits in a loop (bytes may be sent twice)")
        for call in parts:
            at = call
            st, _outer = _enclosing_stmt_value_call(call)
            loop = next((a for a in _anc(call, f) if isinstance(a, ast.While)), None)
            if not any(norm(a) == buf for a in _args_of(call)):
                problems.append(f"`{ast.unparse(call)[:60]}` is not given `{buf}`")
            if loop is None or norm(loop.test) not in (buf, f"len({buf}) > 0", f"len({buf})>0", f"{buf} != b''", f"len({buf})"):
                problems.append(f"partial send `{ast.unparse(call)[:50]}` is not inside `while {buf}:` - whatever the OS did not take in one call is dropped")
                continue
            if not (isinstance(st, ast.Assign) and len(st.targets) == 1 and isinstance(st.targets[0], ast.Name)):
                problems.append(f"the count returned by `{ast.unparse(call)[:50]}` is not kept: the unsent tail cannot be retried")
                continue
            cnt = st.targets[0].id
            tails = [s for s in ast.walk(loop) if isinstance(s, ast.Assign) and norm(s.targets[0]) == buf]
            good = [s for s in tails if isinstance(s.value, ast.Subscript) and norm(s.value.value) == buf and isinstance(s.value.slice, ast.Slice)
                    and s.value.slice.upper is None and s.value.slice.step is None and s.value.slice.lower is not None and norm(s.value.slice.lower) == cnt]
            if len(tails) != 1 or len(good) != 1:
                problems.append(f"`{buf}` is not advanced by exactly the sent count (`{buf} = {buf}[{cnt}:]` expected once in the loop, found {[ast.unparse(s) for s in tails]})")
            elif good[0].lineno < st.lineno:
                problems.append(f"`{buf}` is advanced before the send")
            exits = [x for x in ast.walk(loop) if isinstance(x, (ast.Break, ast.Continue, ast.Return))]
            if exits or loop.orelse:
                problems.append(f"the send loop has early exits {[type(x).__name__ for x in exits]}")
        if len(alls) + len(parts) > 1:
            problems.append(f"{len(alls) + len(parts)} send sites for one buffer (bytes may be duplicated)")
        # the only tolerated early return is `if not buffer: return`
        for r in own_nodes(f.node):
            if isinstance(r, ast.Return):
                g = guard_atoms(guards_of(r))
                if g - {f"not:{buf}", f"len({buf})==0", f"0==len({buf})"} or not g:
                    if at is not None and r.lineno < at.lineno:
                        problems.append(f"early return under {sorted(g)} skips the send")
        rep.ob(rule, key, not problems, where(f, at),
               f"{c.name}.write delivers the whole `{buf}`: " + ("write-all primitive" if alls else f"`while {buf}:` loop over a partial send, advanced by the returned count") if not problems else
               f"{c.name}.write can lose or duplicate request bytes: " + "; ".join(problems))
    rep.floor(rule, "real backend stream write() implementations", n, 4)


def _anc(node: ast.AST, f: FuncInfo) -> list[ast.AST]:
    out = []
    p = parent(node)
    while p is not None and p is not f.node:
        out.append(p)
        p = parent(p)
    return out


def read_passthrough(ctx: Context, rule: str) -> None:
    rep = ctx.rep
    n = 0
    for leaf, c in stream_classes(ctx):
        f = c.methods.get("read")
        if f is None:
            continue
        n += 1
        key = fkey("backend", f, "read-passthrough")
        par = [a for a in f.param_names() if a != "self"]
        size = par[0] if par else "max_bytes"
        recvs = _prim_calls(f, leaf, RECEIVE)
        problems: list[str] = []
        if len(recvs) != 1:
            problems.append(f"{len(recvs)} receive primitives (exactly one expected: one read() = one receive)")
        rets = [r for r in own_nodes(f.node) if isinstance(r, ast.Return)]
        if not rets:
            problems.append("no return")
        for r in rets:
            if r.value is None:
                problems.append("returns None")
                continue
            alts = ctx.prov.expand(r.value, f, r)
            for alt in alts or [r.value]:
                e = strip_await(alt)
                # unwrap value-preserving wrappers
                while isinstance(e, ast.Call) and (chain(e.func) or [""])[-1] in ("cast",) and len(e.args) == 2:
                    e = strip_await(e.args[1])
                if isinstance(e, ast.Constant) and e.value == b"":
                    hs = [a for a in _anc(r, f) if isinstance(a, ast.ExceptHandler)]
                    def _only_eof(h: ast.ExceptHandler) -> bool:
                        if h.type is None:
                            return False
                        elts = h.type.elts if isinstance(h.type, ast.Tuple) else [h.type]
                        return all((chain(e) or [""])[-1] in EOF_EXC for e in elts)
                    if not hs or not _only_eof(hs[0]):
                        problems.append(f"returns b'' (= orderly end of stream) at line {r.lineno} " + (f"for `except {ast.unparse(hs[0].type) if hs[0].type is not None else ''}`" if hs else "outside a handler") +
                                        f": only {list(EOF_EXC)} means the peer finished; a broken / reset connection reported as b'' ends a close-delimited body early without error")
                    continue
                ok = False
                if isinstance(e, ast.Call):
                    inner = e
                    if (chain(inner.func) or [""])[-1] == "_perform_io" and inner.args and isinstance(inner.args[0], ast.Call):
                        inner = inner.args[0]
                    ok = any(inner is x or norm(inner) == norm(x) for x in recvs)
                    if ok and not any(_uses(a, size) for a in _args_of(inner)):
                        problems.append(f"receive `{ast.unparse(inner)[:60]}` ignores `{size}`")
                if not ok:
                    problems.append(f"returns `{ast.unparse(alt)[:70]}`, not the unmodified result of the receive primitive")
        rep.ob(rule, key, not problems, where(f, recvs[0] if recvs else None),
               f"{c.name}.read returns the bytes of one receive primitive unmodified (b'' only at end of stream)" if not problems else
               f"{c.name}.read does not pass the received bytes through: " + "; ".join(problems))
    rep.floor(rule, "real backend stream read() implementations", n, 4)


def close_releases(ctx: Context, rule: str) -> None:
    rep = ctx.rep
    n = 0
    for leaf, c in stream_classes(ctx):
        f = c.methods.get("close") or c.methods.get("aclose")
        if f is None:
            continue
        n += 1
        key = fkey("backend", f, "close-releases")
        rel = [x for x in _prim_calls(f, leaf, RELEASE) if not (chain(x.func) or [""])[-1] == "partial"]
        if not rel:
            rep.ob(rule, key, False, where(f), f"{c.name}.{f.name} never calls the release primitive of its socket/stream: the descriptor stays open")
            continue
        call = rel[0]
        problems: list[str] = []
        in_finally = False
        cur: ast.AST = call
        for a in [parent(call)] + _anc(parent(call), f) + [f.node] if parent(call) is not None else []:
            if a is None:
                break
            # which block of `a` holds `cur`?
            for field in ("body", "orelse", "finalbody", "handlers"):
                blk = getattr(a, field, None)
                if isinstance(blk, list) and any(cur is s for s in blk):
                    if isinstance(a, ast.Try) and field == "finalbody":
                        in_finally = True
                    if isinstance(a, (ast.If, ast.For, ast.AsyncFor, ast.While)) or field in ("orelse", "handlers") or isinstance(a, ast.ExceptHandler):
                        if not in_finally or a is not None:
                            problems.append(f"the release is conditional (inside `{type(a).__name__}` at line {a.lineno})")
                    if not in_finally or not isinstance(a, ast.Try):
                        for s in blk:
                            if s is cur:
                                break
                            if not is_noise(s) and any(isinstance(x, (ast.Call, ast.Await)) for x in ast.walk(s)):
                                if not in_finally:
                                    problems.append(f"`{ast.unparse(s)[:50]}` runs before the release and can raise: the release is skipped (and a suppressing/handling scope turns that into a silent leak)")
            cur = a
            if in_finally:
                break
        rep.ob(rule, key, not problems, where(f, call),
               f"{c.name}.{f.name} reaches `{ast.unparse(call)}` on every path" if not problems else
               f"{c.name}.{f.name} can return without releasing the socket: " + "; ".join(sorted(set(problems))))
    rep.floor(rule, "real backend stream close() implementations", n, 4)


# ---------------------------------------------------------------------------------------------------------------------
# synchronisation primitives

THREAD_PRIMS = {
    # class: (constructor of the underlying primitive, {method: delegated method})
    "Lock": ("threading.Lock", {"__enter__": "acquire", "__exit__": "release"}),
    "ThreadLock": ("threading.Lock", {"__enter__": "acquire", "__exit__": "release"}),
    "Event": ("threading.Event", {"set": "set", "wait": "wait"}),
    "Semaphore": ("threading.Semaphore", {"acquire": "acquire", "release": "release"}),
}
ASYNC_PRIMS = {
    "AsyncLock": ({"trio": "trio.Lock", "asyncio": "anyio.Lock"}, {"__aenter__": "acquire", "__aexit__": "release"}, ("__aenter__",)),
    "AsyncEvent": ({"trio": "trio.Event", "asyncio": "anyio.Event"}, {"set": "set", "wait": "wait"}, ("set", "wait")),
    "AsyncSemaphore": ({"trio": "trio.Semaphore", "asyncio": "anyio.Semaphore"}, {"acquire": "acquire", "release": "release"}, ("acquire",)),
}


def _attr_stores(c: ClassInfo) -> dict[str, list[tuple[FuncInfo, ast.stmt]]]:
    out: dict[str, list[tuple[FuncInfo, ast.stmt]]] = {}
    for f in c.methods.values():
        for n in own_nodes(f.node):
            tg = None
            if isinstance(n, ast.Assign) and len(n.targets) == 1:
                tg = n.targets[0]
            elif isinstance(n, (ast.AnnAssign, ast.AugAssign)):
                tg = n.target
            if isinstance(tg, ast.Attribute) and isinstance(tg.value, ast.Name) and tg.value.id == "self":
                out.setdefault(tg.attr, []).append((f, n))
    return out


def _ctor_name(st: ast.stmt) -> str | None:
    v = getattr(st, "value", None)
    if isinstance(v, ast.Call):
        ch = chain(v.func)
        return ".".join(ch) if ch else None
    return None


def _backend_only(g: set[str], be: str) -> bool:
    """The guard set selects exactly backend `be`: one `'<be>'==self._backend` atom, every other atom excludes another backend."""
    eq = {a for a in g if "==" in a and not a.startswith("not:")}
    rest = g - eq
    return len(eq) == 1 and be in next(iter(eq)) and "self._backend" in next(iter(eq)) and \
        all("self._backend" in a and be not in a and ("!=" in a or a.startswith("not:")) for a in rest)


def _delegations(f: FuncInfo, attr: str, meth: str) -> list[ast.Call]:
    return [n for n in own_nodes(f.node) if isinstance(n, ast.Call) and chain(n.func) == ["self", attr, meth]]


def primitives(ctx: Context, rule: str, classes: T.Iterable[str] | None = None) -> None:
    rep = ctx.rep
    syn = ctx.prog.module("httpcore._synchronization")
    want = set(classes) if classes else None
    n = 0
    for cn, (ctor, ops) in THREAD_PRIMS.items():
        if want is not None and cn not in want:
            continue
        c = syn.classes.get(cn)
        if c is None:
            raise AnalysisError(f"anchor vanished: class {cn} in _synchronization.py")
        stores = _attr_stores(c)
        prim = [(a, lst) for a, lst in stores.items() if any(_ctor_name(st) == ctor for _, st in lst)]
        init = c.methods.get("__init__")
        anyf = init or next(iter(c.methods.values()))
        n += 1
        if len(prim) != 1:
            rep.ob(rule, fkey("sync", anyf, f"{cn}:primitive"), False, where(anyf), f"{cn} does not hold exactly one `{ctor}()` (found {[a for a, _ in prim]})")
            continue
        attr, lst = prim[0]
        bad = [(f, st) for f, st in lst if f.name != "__init__" or guard_atoms(guards_of(st))]
        other = [(f, st) for f, st in lst if _ctor_name(st) != ctor]
        rep.ob(rule, fkey("sync", anyf, f"{cn}:created-once"), not bad and not other and len(lst) == 1, where(*(bad[0] if bad else (other[0] if other else lst[0]))),
               f"{cn}.{attr} is the one `{ctor}()` created unconditionally in the constructor" if not bad and not other and len(lst) == 1 else
               f"{cn}.{attr} is (re)bound outside the constructor or conditionally ({[(f.name, ast.unparse(st)[:50]) for f, st in lst]}): two threads can end up on different primitives - "
               "a set()/release() on one is never seen by a wait()/acquire() on the other")
        if cn == "Semaphore":
            st = lst[0][1]
            v = st.value
            arg = (v.args[0] if v.args else next((k.value for k in v.keywords if k.arg == "value"), None)) if isinstance(v, ast.Call) else None
            rep.ob(rule, fkey("sync", anyf, f"{cn}:bound"), arg is not None and norm(arg) == "bound", where(anyf, st), f"semaphore initial value is `{norm(arg) if arg is not None else None}` (the `bound` parameter expected)")
        for m, dm in ops.items():
            f = c.methods.get(m)
            if f is None:
                rep.ob(rule, fkey("sync", anyf, f"{cn}.{m}"), False, where(anyf), f"{cn}.{m} missing")
                continue
            calls = _delegations(f, attr, dm)
            ok = len(calls) == 1 and not guard_atoms(guards_of(calls[0])) and not any(isinstance(a, (ast.For, ast.While, ast.Try, ast.ExceptHandler)) for a in _anc(calls[0], f))
            early = [r for r in own_nodes(f.node) if isinstance(r, (ast.Return, ast.Raise)) and calls and r.lineno < calls[0].lineno]
            ok = ok and not early
            detail = f"{cn}.{m} always calls self.{attr}.{dm}() exactly once"
            if ok and cn == "Event" and m == "wait":
                # the timeout parameter bounds the wait and an unsuccessful wait raises PoolTimeout
                call = calls[0]
                targ = [a for a in _args_of(call)]
                tmo = bool(targ) and all(isinstance(x, ast.Name) and x.id == "timeout" for x in targ)
                if len(targ) == 1:
                    # decided on the value: what reaches the primitive is the caller's timeout (an infinite one may become None,
                    # which means the same to threading.Event.wait) - however the routine spells that
                    from ..norm import UNKNOWN as _U, peval as _pe, run_to as _rt

                    agree = True
                    for tv in (None, 0, 0.5, 5, float("inf")):
                        env_ = {"timeout": tv}
                        if _rt(f.node.body, call, env_) != "hit":
                            agree = False
                            break
                        got_ = _pe(targ[0], env_)
                        if got_ is _U or not (got_ == tv or (tv == float("inf") and got_ is None)) or (got_ is None) != (tv is None or tv == float("inf")):
                            agree = False
                            break
                    tmo = agree
                st, _ = _enclosing_stmt_value_call(call)
                tested = isinstance(parent(call), ast.UnaryOp) and isinstance(parent(parent(call)), ast.If)
                raises = tested and any(isinstance(x, ast.Raise) and "PoolTimeout" in ast.unparse(x) for x in parent(parent(call)).body)
                if not tested and isinstance(st, ast.Assign) and len(st.targets) == 1 and isinstance(st.targets[0], ast.Name):
                    # the result kept in a local first: `ok = self._event.wait(..)` / `if not ok: raise PoolTimeout()`
                    v = st.targets[0].id
                    ifs = [x for x in own_nodes(f.node) if isinstance(x, ast.If) and norm(x.test) in (f"not{v}", f"{v}isFalse", f"{v}==False") and x.lineno > st.lineno]
                    raises = len(ifs) == 1 and any(isinstance(x, ast.Raise) and "PoolTimeout" in ast.unparse(x) for x in ifs[0].body)
                ok = tmo and raises
                detail = f"Event.wait: timeout passed={tmo}, unsuccessful wait raises PoolTimeout={raises}"
                if not tmo:
                    rep.ob(rule, fkey("sync", f, f"{cn}.{m}:timeout-domain"), False, where(f, call),
                           "the value handed to threading.Event.wait() is not the caller's timeout over {None, 0, 0.5, 5, inf} with inf -> None: the async Event takes `inf` as "
                           "`no limit` (anyio / trio fail_after), threading.Event.wait(inf) raises OverflowError - a queued sync request with an infinite pool timeout fails where the "
                           "async one waits")
                    continue
            rep.ob(rule, fkey("sync", f, f"{cn}.{m}->{dm}"), ok, where(f, calls[0] if calls else None),
                   detail if ok else f"{cn}.{m} does not unconditionally delegate to self.{attr}.{dm}() (calls: {len(calls)}, guards: {sorted(guard_atoms(guards_of(calls[0]))) if calls else '-'}, "
                   f"early exits: {[type(x).__name__ for x in early]}): a wake-up or a release can be skipped")
    for cn, (ctors, ops, lazy) in ASYNC_PRIMS.items():
        if want is not None and cn not in want:
            continue
        c = syn.classes.get(cn)
        if c is None:
            raise AnalysisError(f"anchor vanished: class {cn} in _synchronization.py")
        stores = _attr_stores(c)
        setup = c.methods.get("setup")
        anyf = setup or next(iter(c.methods.values()))
        n += 1
        attrs: dict[str, str] = {}
        for be, ctor in ctors.items():
            cands = [(a, lst) for a, lst in stores.items() if any(_ctor_name(st) == ctor for _, st in lst)]
            ok = len(cands) == 1 and len(cands[0][1]) == 1 and cands[0][1][0][0].name in ("setup", "__init__") and not cands[0][1][0][0].is_async
            if ok:
                f0, st0 = cands[0][1][0]
                g = guard_atoms(guards_of(st0))
                ok = _backend_only(g, be)
                attrs[be] = cands[0][0]
            rep.ob(rule, fkey("async", anyf, f"{cn}:{be}:created-once"), ok, where(anyf),
                   f"{cn}: the {be} primitive `{ctor}()` is created at exactly one site, in the synchronous setup, under backend == {be!r}" if ok else
                   f"{cn}: `{ctor}()` is not created at exactly one site in the synchronous setup under backend == {be!r} (found {[(a, [f.name for f, _ in l]) for a, l in cands]})")
        # the backend tag is written only by setup/__init__
        bst = stores.get("_backend", [])
        okb = all(f.name in ("setup", "__init__") for f, _ in bst) and bool(bst)
        rep.ob(rule, fkey("async", anyf, f"{cn}:backend-tag"), okb, where(anyf), f"{cn}._backend written in {sorted({f.name for f, _ in bst})} (setup/__init__ only)")
        if cn == "AsyncSemaphore" and setup is not None:
            for be, ctor in ctors.items():
                for f0, st0 in [x for a, l in stores.items() for x in l if _ctor_name(x[1]) == ctor]:
                    v = st0.value
                    iv = next((k.value for k in v.keywords if k.arg == "initial_value"), v.args[0] if v.args else None)
                    rep.ob(rule, fkey("async", f0, f"{cn}:{be}:bound"), iv is not None and norm(iv) == "self._bound", where(f0, st0),
                           f"{be} semaphore initial value `{norm(iv) if iv is not None else None}` (self._bound expected)")
        for m, dm in ops.items():
            f = c.methods.get(m)
            if f is None:
                rep.ob(rule, fkey("async", anyf, f"{cn}.{m}"), False, where(anyf), f"{cn}.{m} missing")
                continue
            if m in lazy:
                # lazy creation: first statement is `if not self._backend: self.setup()`; no suspension before the primitive call
                first = next((s for s in f.node.body if not is_noise(s)), None)
                okl = isinstance(first, ast.If) and norm(first.test) in ("not self._backend", "notself._backend") and len(first.body) == 1 and "self.setup()" in ast.unparse(first.body[0]) and not first.orelse
                rep.ob(rule, fkey("async", f, f"{cn}.{m}:lazy-setup"), okl, where(f, first), f"{cn}.{m} starts with `if not self._backend: self.setup()`" if okl else
                       f"{cn}.{m} does not create its primitive on first use (`if not self._backend: self.setup()` expected as the first statement)")
            for be in ctors:
                attr = attrs.get(be)
                if attr is None:
                    continue
                calls = _delegations(f, attr, dm)
                ok = len(calls) == 1
                g: set[str] = set()
                if ok:
                    g = guard_atoms(guards_of(calls[0]))
                    ok = _backend_only(g, be)
                    ok = ok and not any(isinstance(a, (ast.For, ast.While, ast.Try)) for a in _anc(calls[0], f))
                    # nothing suspends before the delegated call
                    aw = [x for x in own_nodes(f.node) if isinstance(x, ast.Await) and x.lineno < calls[0].lineno and not any(x is y or calls[0] in list(ast.walk(x)) for y in [x])]
                    aw = [x for x in aw if calls[0] not in list(ast.walk(x)) and not any("self._backend" in a and be not in a and not a.startswith("not:") for a in guard_atoms(guards_of(x)))]
                    ok = ok and not aw
                rep.ob(rule, fkey("async", f, f"{cn}.{m}:{be}->{dm}"), ok, where(f, calls[0] if calls else None),
                       f"{cn}.{m} under backend {be!r} calls self.{attr}.{dm}() exactly once, guarded by the backend tag only" if ok else
                       f"{cn}.{m} under backend {be!r}: delegation to self.{attr}.{dm}() is missing, repeated, conditional on more than the backend tag, or preceded by a suspension (calls {len(calls)}, guards {sorted(g)})")
    if want is None or "AsyncEvent" in want:
        _async_event_outcome(ctx, rule)
    rep.floor(rule, "synchronisation primitive classes checked", n, 1)


def _async_event_outcome(ctx: Context, rule: str) -> None:
    """AsyncEvent.wait reports PoolTimeout only when the wait itself was interrupted by the deadline: the only source of
    PoolTimeout is the mapping of the runtime's timeout error raised by `fail_after` around the primitive's wait (fail_after
    raises only if its cancellation was actually delivered; a deadline that passes after the event was set is not a timeout).
    An explicit `raise PoolTimeout` (for instance after `move_on_after` + `cancel_called`) fails a request that has just been
    given a connection."""
    from ..escape import Ctx as ECtx

    rep = ctx.rep
    c = ctx.prog.module("httpcore._synchronization").classes.get("AsyncEvent")
    if c is None or "wait" not in c.methods:
        return
    f = c.methods["wait"]
    raises = [r for r in own_nodes(f.node) if isinstance(r, ast.Raise)]
    problems = []
    if raises:
        problems.append(f"explicit `{ast.unparse(raises[0])[:50]}`")
    for be, lib, tmo in (("trio", "trio", "trio.TooSlowError"), ("asyncio", "anyio", "TimeoutError")):
        waits = [x for x in own_nodes(f.node) if isinstance(x, ast.Call) and isinstance(x.func, ast.Attribute) and x.func.attr == "wait" and lib in norm(x.func.value)]
        if len(waits) != 1:
            problems.append(f"{be}: {len(waits)} waits")
            continue
        scopes = []
        maps = []
        for a in _anc(waits[0], f):
            if isinstance(a, (ast.With, ast.AsyncWith)):
                for it in a.items:
                    ce = it.context_expr
                    if isinstance(ce, ast.Call) and (chain(ce.func) or [""])[-1] in ("fail_after", "move_on_after", "CancelScope"):
                        scopes.append(norm(ce.func))
                    m = ctx.escape._map_of(it, ECtx(f))
                    if m is not None:
                        maps.append(m)
        if scopes != [f"{lib}.fail_after"]:
            problems.append(f"{be}: the wait is bounded by {scopes or 'nothing'} (exactly `{lib}.fail_after` expected)")
        if len(maps) != 1 or [tuple(x) for x in maps[0]] != [(tmo, "PoolTimeout")]:
            problems.append(f"{be}: exception map around the wait is {maps} (exactly {{{tmo}: PoolTimeout}} expected)")
    rep.ob(rule, fkey("async", f, "AsyncEvent.wait:outcome"), not problems, where(f, raises[0] if raises else None),
           "AsyncEvent.wait raises PoolTimeout only as the mapped expiry of fail_after around the wait" if not problems else
           "AsyncEvent.wait can report PoolTimeout although the event was set: " + "; ".join(problems))


def shield(ctx: Context, rule: str) -> None:
    """AsyncShieldCancellation enters and leaves a CancelScope(shield=True) of the running backend."""
    rep = ctx.rep
    syn = ctx.prog.module("httpcore._synchronization")
    c = syn.classes.get("AsyncShieldCancellation")
    if c is None:
        raise AnalysisError("anchor vanished: AsyncShieldCancellation")
    stores = _attr_stores(c)
    init = c.methods["__init__"]
    for be, lib in (("trio", "trio"), ("asyncio", "anyio")):
        cands = [(a, st, f) for a, lst in stores.items() for f, st in lst if _ctor_name(st) == f"{lib}.CancelScope"]
        ok = len(cands) == 1
        attr = cands[0][0] if cands else None
        if ok:
            v = cands[0][1].value
            sh = next((k.value for k in v.keywords if k.arg == "shield"), None)
            ok = isinstance(sh, ast.Constant) and sh.value is True and cands[0][2].name == "__init__"
        rep.ob(rule, fkey("async", init, f"shield:{be}:scope"), ok, where(init, cands[0][1] if cands else None),
               f"{lib}.CancelScope(shield=True) created in the constructor" if ok else f"the {be} shield is not a `{lib}.CancelScope(shield=True)` created in the constructor")
        from ..norm import UNKNOWN as _U, peval as _pe

        def _active(node: ast.AST) -> bool:
            """the statement runs when the backend is `be` (every enclosing test evaluated for self._backend == be)"""
            for test, pol in guards_of(node):
                v_ = _pe(test, {"self._backend": be})
                if v_ is _U or bool(v_) != pol:
                    return False
            return True
        if ok and attr:
            # the same field may serve both backends (one store per branch): under THIS backend it holds this backend's scope
            others = [st for f2, st in stores.get(attr, []) if st is not cands[0][1] and _active(st)]
            ok = _active(cands[0][1]) and not others
        for m in ("__enter__", "__exit__"):
            f = c.methods.get(m)
            calls = [c_ for c_ in (_delegations(f, attr, m) if (f is not None and attr) else []) if _active(c_)]
            okm = len(calls) == 1
            if okm:
                okm = _backend_only(guard_atoms(guards_of(calls[0])), be) or _active(calls[0])
                if m == "__exit__":
                    okm = okm and [norm(a) for a in calls[0].args] == [a for a in f.param_names() if a != "self"]
            rep.ob(rule, fkey("async", f or init, f"shield:{be}:{m}"), okm, where(f or init, calls[0] if calls else None),
                   f"shield {m} delegates to the {be} scope" if okm else f"shield {m} does not delegate (exactly once, unconditionally for backend {be!r}, same arguments) to the {be} cancel scope: recovery code is cancellable")


# ---------------------------------------------------------------------------------------------------------------------
# every raw OS / runtime call of a backend operation lies inside a map_exceptions scope

RAW_ROOTS = (["self", "_sock"], ["self", "_stream"], ["self", "ssl_obj"], ["self", "_ssl_obj"], ["self", "_incoming"], ["self", "_outgoing"],
             ["socket"], ["anyio"], ["trio"], ["ssl_context"], ["sock"], ["stream"], ["ssl_stream"])
OP_METHODS = ("read", "write", "close", "aclose", "start_tls", "connect_tcp", "connect_unix_socket", "sleep")
# raw calls that need no mapping, with the reason
RAW_EXEMPT = {
    "sleep": "sleeping fails only by cancellation",
    "fail_after": "creating the timeout scope raises nothing (its exit does, and C15.R5 places it inside the map)",
    "CancelScope": "scope construction",
    "MemoryBIO": "in-memory buffer construction",
    "SSLStream": "trio.SSLStream(...) only builds the object; the handshake is the separate do_handshake() call (inside the map)",
}


def _is_raw(call: ast.Call) -> bool:
    ch = chain(call.func)
    if not ch or len(ch) < 2:
        return False
    return any(ch[:len(r)] == r for r in RAW_ROOTS)


def _in_map(node: ast.AST, f: FuncInfo) -> bool:
    for a in _anc(node, f):
        if isinstance(a, (ast.With, ast.AsyncWith)):
            for it in a.items:
                ce = it.context_expr
                if isinstance(ce, ast.Call) and (chain(ce.func) or [""])[-1] == "map_exceptions":
                    return True
    return False


def raw_calls_mapped(ctx: Context, rule: str) -> None:
    """In the real backends, every call on the socket / runtime stream made by a network operation - directly or through a
    helper of the same module - lies inside a `with map_exceptions(...)` scope; the single exception is the release call that
    is the whole body of close()/aclose() (the OS close of an open descriptor; the protocol code calls it from handlers)."""
    rep = ctx.rep
    n = 0
    for mn in BACKEND_MODULES:
        m = ctx.prog.module(mn)
        leaf = _leaf(mn)
        classes = [c for c in m.classes.values()]
        # helpers: non-operation methods containing unmapped raw calls
        unmapped: dict[tuple[str, str], list[ast.Call]] = {}
        for c in classes:
            for f in c.methods.values():
                if f.name == "get_extra_info":
                    continue
                raws = [x for x in own_nodes(f.node) if isinstance(x, ast.Call) and _is_raw(x) and not _in_map(x, f)
                        and (chain(x.func) or [""])[-1] not in RAW_EXEMPT]
                unmapped[(c.name, f.name)] = raws
        helper_keys = {k for k, v in unmapped.items() if v and k[1] not in OP_METHODS}
        # fixpoint: a helper calling an unmapped helper outside a map is itself an unmapped helper
        for c in classes:
            for f in c.methods.values():
                if f.name == "get_extra_info":
                    continue
                is_op = f.name in OP_METHODS
                problems: list[tuple[ast.AST, str]] = []
                for x in unmapped.get((c.name, f.name), []):
                    ch = chain(x.func) or [""]
                    if is_op:
                        if f.name in ("close", "aclose") and (leaf, ch[-1]) in RELEASE and ch[0] == "self" and len(ch) == 3:
                            continue   # the release itself
                        problems.append((x, f"`{ast.unparse(x)[:60]}` is a raw socket/runtime call outside every map_exceptions scope"))
                for x in own_nodes(f.node):
                    if not isinstance(x, ast.Call) or _in_map(x, f):
                        continue
                    ch = chain(x.func) or [""]
                    callee = None
                    if len(ch) == 2 and ch[0] == "self" and (c.name, ch[1]) in helper_keys:
                        callee = (c.name, ch[1])
                    elif len(ch) == 1 and (ch[0], "__init__") in helper_keys:
                        callee = (ch[0], "__init__")
                    if callee is None:
                        continue
                    if is_op:
                        problems.append((x, f"`{ast.unparse(x)[:50]}` runs the raw calls of {callee[0]}.{callee[1]} outside every map_exceptions scope"))
                    elif (c.name, f.name) not in helper_keys:
                        helper_keys.add((c.name, f.name))
                if is_op and not any(isinstance(s, ast.Raise) and "NotImplementedError" in ast.unparse(s) for s in f.node.body):
                    n += 1
                    rep.ob(rule, fkey("backend", f, "raw-calls-mapped"), not problems, where(f, problems[0][0] if problems else None),
                           f"every raw socket/runtime call of {c.name}.{f.name} is inside a map_exceptions scope" if not problems else
                           f"{c.name}.{f.name}: " + "; ".join(p for _, p in problems) + " - a failure there reaches the caller as the runtime's own exception class (OSError, ...), also from inside the protocol code's exception handlers")
    rep.floor(rule, "backend operations checked for unmapped raw calls", n, 20)


# ---------------------------------------------------------------------------------------------------------------------
# get_extra_info: the readability probe (used by has_expired() to detect a peer close on an idle connection)

def extra_info_agreement(ctx: Context, rule: str) -> None:
    """All real streams answer the same info keys, and "is_readable" probes the OS socket of the transport - for every
    transport alike (plain or TLS): `is_socket_readable(<raw socket>)` or trio's `<socket>.is_readable()`."""
    rep = ctx.rep
    keysets: dict[str, set[str]] = {}
    n = 0
    for leaf, c in stream_classes(ctx):
        f = c.methods.get("get_extra_info")
        if f is None:
            continue
        keys: set[str] = set()
        for t in own_nodes(f.node):
            if isinstance(t, ast.Compare) and isinstance(t.left, ast.Name) and t.left.id == "info" and len(t.comparators) == 1 and isinstance(t.comparators[0], ast.Constant):
                keys.add(t.comparators[0].value)
        keysets[c.name] = keys
        rets = [r for r in own_nodes(f.node) if isinstance(r, ast.Return) and r.value is not None and "'is_readable'==info" in guard_atoms(guards_of(r))]
        problems = []
        if not rets:
            problems.append("no answer for 'is_readable'")
        for r in rets:
            g = guard_atoms(guards_of(r)) - {"'is_readable'==info"}
            g = {a for a in g if not (a.endswith("!=info") and a.startswith("'"))}
            if g:
                problems.append(f"the probe depends on {sorted(g)} (every transport must be probed the same way)")
            ok = False
            for alt in ctx.prov.expand(r.value, f, r):
                e = alt
                if isinstance(e, ast.Call):
                    ch = chain(e.func) or [""]
                    if ch[-1] == "is_socket_readable" and len(e.args) == 1:
                        src = norm(e.args[0])
                        ok = src in ("self._sock",) or "raw_socket" in src
                    elif isinstance(e.func, ast.Attribute) and e.func.attr == "is_readable" and not e.args:
                        ok = "socket" in norm(e.func.value)
                if not ok:
                    problems.append(f"'is_readable' answers `{ast.unparse(alt)[:60]}` - not a readability probe of the transport's OS socket: a peer close of an idle connection goes unnoticed (or is noticed only on this backend)")
        n += 1
        rep.ob(rule, fkey("backend", f, "is_readable"), not problems, where(f, rets[0] if rets else None),
               f"{c.name}: 'is_readable' polls the OS socket of the transport" if not problems else f"{c.name}: " + "; ".join(problems))
    ref = None
    for cn, ks in keysets.items():
        if ref is None:
            ref = ks
        rep.ob(rule, f"backend|{cn}.get_extra_info|keys", ks == ref, "httpcore/_backends/", f"{cn} answers {sorted(ks)}" + ("" if ks == ref else f" - other backends answer {sorted(ref)}"))
    rep.floor(rule, "get_extra_info implementations", n, 4)


# ---------------------------------------------------------------------------------------------------------------------
# which runtime failures become ConnectError / ConnectTimeout (the only retried classes)

NETWORK_FAILURE_CLASSES = {
    "OSError": "errno-carrying failure of a socket call", "socket.timeout": "socket timeout", "TimeoutError": "fail_after expiry / socket timeout",
    "anyio.BrokenResourceError": "connection broken", "anyio.ClosedResourceError": "stream closed", "anyio.EndOfStream": "peer closed",
    "trio.TooSlowError": "fail_after expiry", "trio.BrokenResourceError": "connection broken", "trio.ClosedResourceError": "stream closed",
    "ssl.SSLError": "TLS failure (an OSError)", "ConnectionError": "an OSError", "socket.gaierror": "name resolution (an OSError)",
}


def connect_map_keys(ctx: Context, rule: str) -> None:
    """Only failures of the network itself are reported as ConnectError / ConnectTimeout (and therefore retried)."""
    from ..escape import Ctx as ECtx

    rep = ctx.rep
    esc = ctx.escape
    n = 0
    for mn in BACKEND_MODULES:
        for c in ctx.prog.module(mn).classes.values():
            for f in c.methods.values():
                if f.name not in ("connect_tcp", "connect_unix_socket", "start_tls"):
                    continue
                for w in own_nodes(f.node):
                    if not isinstance(w, (ast.With, ast.AsyncWith)):
                        continue
                    for it in w.items:
                        pairs = esc._map_of(it, ECtx(f))
                        if pairs is None:
                            continue
                        n += 1
                        bad = [k for k, v in pairs if v in ("ConnectError", "ConnectTimeout") and k not in NETWORK_FAILURE_CLASSES]
                        rep.ob(rule, fkey("backend", f, "connect-map-keys"), not bad, where(f, w),
                               f"{c.name}.{f.name} reports only network failures {[k for k, _ in pairs]} as connect failures" if not bad else
                               f"{c.name}.{f.name} reports {bad} as ConnectError/ConnectTimeout: that is not a failure of the network, yet it is now retried `retries` times with back-off")
    rep.floor(rule, "connect-family exception maps", n, 8)


# ---------------------------------------------------------------------------------------------------------------------
# AutoBackend: pure delegation to the backend of the running async library

def auto_delegation(ctx: Context, rule: str) -> None:
    rep = ctx.rep
    m = ctx.prog.module("httpcore._backends.auto")
    c = m.classes.get("AutoBackend")
    if c is None:
        raise AnalysisError("anchor vanished: AutoBackend")
    n = 0
    for name in ("connect_tcp", "connect_unix_socket", "sleep"):
        f = c.methods.get(name)
        if f is None:
            rep.ob(rule, f"backend|AutoBackend.{name}|delegates", False, m.relpath, f"AutoBackend.{name} missing")
            continue
        n += 1
        params = [a for a in f.param_names() if a != "self"]
        calls = [x for x in own_nodes(f.node) if isinstance(x, ast.Call) and chain(x.func) == ["self", "_backend", name]]
        problems = []
        if len(calls) != 1:
            problems.append(f"{len(calls)} delegation calls")
        else:
            call = calls[0]
            seen: dict[str, int] = {}
            for i, a in enumerate(call.args):
                if not (isinstance(a, ast.Name) and i < len(params) and a.id == params[i]):
                    problems.append(f"positional argument {i} is `{ast.unparse(a)}`, parameter `{params[i] if i < len(params) else '?'}` expected")
                else:
                    seen[a.id] = seen.get(a.id, 0) + 1
            for k in call.keywords:
                if k.arg is None or not (isinstance(k.value, ast.Name) and k.value.id == k.arg):
                    problems.append(f"keyword `{k.arg}={ast.unparse(k.value)}` is not the same-named parameter")
                else:
                    seen[k.arg] = seen.get(k.arg, 0) + 1
            for p_ in params:
                if seen.get(p_, 0) != 1:
                    problems.append(f"parameter `{p_}` is passed {seen.get(p_, 0)} times")
            if guard_atoms(guards_of(call)):
                problems.append(f"delegation is conditional on {sorted(guard_atoms(guards_of(call)))}")
            rets = [r for r in own_nodes(f.node) if isinstance(r, ast.Return)]
            if not (len(rets) == 1 and rets[0].value is not None and any(call is x for x in ast.walk(rets[0].value))):
                problems.append("the result of the delegation is not what is returned")
            inits = [x for x in own_nodes(f.node) if isinstance(x, ast.Call) and chain(x.func) == ["self", "_init_backend"]]
            if not inits or inits[0].lineno > call.lineno:
                problems.append("`self._init_backend()` does not precede the delegation")
        rep.ob(rule, fkey("backend", f, "delegates"), not problems, where(f, calls[0] if calls else None),
               f"AutoBackend.{name} passes every parameter through unchanged and returns the backend's result" if not problems else f"AutoBackend.{name}: " + "; ".join(problems))
    ib = c.methods.get("_init_backend")
    ok = False
    detail = "AutoBackend._init_backend missing"
    if ib is not None:
        stores = [s_ for s_ in own_nodes(ib.node) if isinstance(s_, (ast.Assign, ast.AnnAssign)) and norm(s_.targets[0] if isinstance(s_, ast.Assign) else s_.target) == "self._backend"]
        table = {}
        for s_ in stores:
            g = guard_atoms(guards_of(s_))
            cls = norm(s_.value.func) if isinstance(s_.value, ast.Call) else norm(s_.value)
            table[cls] = g
        want_trio = {a for a in table.get("TrioBackend", set()) if "trio" in a}
        ok = set(table) == {"TrioBackend", "AnyIOBackend"} and bool(want_trio) and all(any("hasattr(self,'_backend')" in a for a in g) for g in table.values()) \
            and any(a.startswith("'trio'!=") or a.startswith("not:") and "trio" in a for a in table.get("AnyIOBackend", set()))
        detail = f"backend selection: { {k: sorted(v) for k, v in table.items()} }"
    rep.ob(rule, fkey("backend", ib or next(iter(c.methods.values())), "selection"), ok, where(ib) if ib else m.relpath, detail)
    rep.floor(rule, "AutoBackend operations", n, 2)
