"""Helpers shared by the per-property rule modules."""
from __future__ import annotations

import ast
import typing as T

from ..context import Context
from ..load import TREES, FuncInfo, Names, chain, norm, own_nodes, strip_await

NET_OPS = {"read": "read", "write": "write", "start_tls": "connect", "connect_tcp": "connect", "connect_unix_socket": "connect"}


def trees(ctx: Context) -> list[tuple[str, Names]]:
    return [(t, ctx.names(t)) for t in TREES]


def fkey(tree: str, f: FuncInfo, construct: str) -> str:
    return f"{tree}|{f.short}|{construct}"


def where(f: FuncInfo, node: ast.AST | None = None) -> str:
    n = node
    if isinstance(n, ast.withitem):
        n = n.context_expr
    return f"{f.module.relpath}:{getattr(n, 'lineno', f.node.lineno) if n is not None else f.node.lineno}"


def calls_named(f: FuncInfo, last: str) -> list[ast.Call]:
    out = []
    for n in own_nodes(f.node):
        if isinstance(n, ast.Call):
            ch = chain(n.func)
            if ch and ch[-1] == last:
                out.append(n)
            elif isinstance(n.func, ast.Attribute) and n.func.attr == last:
                out.append(n)
    return sorted(out, key=lambda c: (c.lineno, c.col_offset))


def calls_matching(f: FuncInfo, suffix: list[str]) -> list[ast.Call]:
    out = []
    for n in own_nodes(f.node):
        if isinstance(n, ast.Call):
            ch = chain(n.func)
            if ch and ch[-len(suffix):] == suffix:
                out.append(n)
    return sorted(out, key=lambda c: (c.lineno, c.col_offset))


def stores_to_attr(f: FuncInfo, attr: str, base: str = "self") -> list[ast.stmt]:
    """Assign / AugAssign / AnnAssign statements storing to `<base>.<attr>`."""
    out = []
    for n in own_nodes(f.node):
        tgts: list[ast.expr] = []
        if isinstance(n, ast.Assign):
            tgts = list(n.targets)
        elif isinstance(n, (ast.AugAssign, ast.AnnAssign)):
            tgts = [n.target]
        for t in tgts:
            for el in (t.elts if isinstance(t, (ast.Tuple, ast.List)) else [t]):
                if isinstance(el, ast.Attribute) and el.attr == attr and (base is None or norm(el.value) == base):
                    out.append(n)
    return sorted(out, key=lambda s: s.lineno)


def net_sites(ctx: Context, funcs: T.Iterable[FuncInfo]) -> list[T.Any]:
    """Call sites (in the given functions) that resolve to a network-interface operation."""
    esc = ctx.escape
    out = []
    for f in funcs:
        for s in ctx.callgraph.sites_of(f):
            if s.kind != "call":
                continue
            ops = {c.func.name for c in s.callees if c.func is not None and c.func.cls is not None
                   and c.func.cls.qual in esc.net_classes and c.func.name in NET_OPS}
            if ops:
                out.append((s, sorted(ops)[0]))
    return out


def in_net_class(ctx: Context, f: FuncInfo) -> bool:
    return f.cls is not None and f.cls.qual in ctx.escape.net_classes


def is_noise(st: ast.stmt) -> bool:
    """Docstrings, `pass`, and pure logging calls: statements without effect on any property."""
    if isinstance(st, ast.Pass):
        return True
    if isinstance(st, ast.Expr):
        v = st.value
        if isinstance(v, ast.Constant) and isinstance(v.value, str):
            return True
        if isinstance(v, ast.Call):
            ch = chain(v.func)
            if ch and ch[0] in ("logger", "logging", "log") and ch[-1] in ("debug", "info", "warning", "error", "exception", "critical", "log"):
                return True
    return False


def effective_body(stmts: list[ast.stmt]) -> list[ast.stmt]:
    return [s for s in stmts if not is_noise(s)]


def early_return_atom(body: list[ast.stmt]) -> str | None:
    """Canonical atom under which a routine returns at once without doing anything: `if C: return` as the first effective
    statement, or (canonical form) a body that is one `if P:` without else."""
    from ..norm import canon_atom

    eff = effective_body(body)
    if not eff or not isinstance(eff[0], ast.If):
        return None
    first = eff[0]
    if len(first.body) == 1 and isinstance(first.body[0], ast.Return) and first.body[0].value is None and not (len(eff) == 1 and first.orelse):
        t, pol = first.test, True
    elif len(eff) == 1 and not first.orelse:
        t, pol = first.test, False
    else:
        return None
    while isinstance(t, ast.UnaryOp) and isinstance(t.op, ast.Not):
        t, pol = t.operand, not pol
    return canon_atom(t, pol)


def entry_gate(body: list[ast.stmt], test_text: str, exc: str) -> bool:
    """The routine starts with `if not <test_text>: raise <exc>` - in either the guard-clause or the canonical if/else form."""
    eff = effective_body(body)
    if not eff or not isinstance(eff[0], ast.If):
        return False
    first = eff[0]
    t = norm(first.test)
    raises = lambda blk: any(isinstance(x, ast.Raise) and exc in norm(x) for x in blk)
    if t == "not" + test_text:
        return raises(first.body)
    if t == test_text:
        return raises(first.orelse) and len(eff) == 1
    return False
