"""Rules over the support code the anchor files rely on: the convenience API (`request()` / `stream()` of
_async/interfaces.py and httpcore/_api.py), `Response.aclose()` and the pool's context-manager protocol.  These are the
places where "the caller lets go of the request" actually happens for most users; a slip here defeats the clean-up
properties while every pool / connection obligation still holds."""
from __future__ import annotations

import ast

from ..context import Context
from ..guards import guards_of
from ..load import AnalysisError, FuncInfo, chain, norm, own_nodes, parent
from ..norm import guard_atoms
from .c05 import node_calls
from .common import fkey, trees, where


def _closes_response(c: ast.Call) -> bool:
    return norm(c.func) in ("response.aclose", "response.close")


def api_releases(ctx: Context, rule: str) -> None:
    """request(): from the point the response exists, every path - normal, failing read, cancellation - passes
    `response.aclose()`.  stream(): the yield sits in a try whose finally closes the response.  Response.aclose() reaches the
    close of the underlying stream under no condition other than the documented ones."""
    rep = ctx.rep
    for tree, N in trees(ctx):
        f = N.func("interfaces", "AsyncRequestInterface.request")
        cfg = ctx.cfg(f)
        got = [n for n in cfg.nodes if n.kind == "stmt" and isinstance(n.ast, ast.Assign) and norm(n.ast.targets[0]) == "response"
               and node_calls(n, lambda c: (chain(c.func) or [""])[-1] in ("handle_async_request", "handle_request"))]
        if not got:
            raise AnalysisError(f"anchor vanished: `response = ...handle_request(request)` in {f.short}")
        starts = [e.dst for e in got[0].succ if e.kind != "exc"]
        reach = cfg.reachable(starts, stop=lambda n: node_calls(n, _closes_response))
        leak = cfg.exit.id in reach or cfg.exc_exit.id in reach
        rep.ob(rule, fkey(tree, f, "response-closed-on-every-path"), not leak, where(f, got[0].ast),
               "request(): once the response exists every path (normal, failed read, cancellation) passes response.aclose()" if not leak else
               "request(): a path from `response = ...` to the exit does not pass response.aclose(): a body read that fails or is cancelled keeps the connection busy forever "
               "(the caller never saw the response and cannot close it)")
        g = N.func("interfaces", "AsyncRequestInterface.stream")
        ys = [y for y in own_nodes(g.node) if isinstance(y, ast.Yield)]
        ok = len(ys) == 1 and norm(ys[0].value) == "response"
        if ok:
            t = None
            p = parent(ys[0])
            while p is not None and p is not g.node:
                if isinstance(p, ast.Try):
                    t = p
                    break
                p = parent(p)
            ok = t is not None and any(isinstance(c, ast.Call) and _closes_response(c) and not guard_atoms([x for x in guards_of(c) if id(x[0]) in {id(y) for y in ast.walk(t)}])
                                       for s in t.finalbody for c in ast.walk(s))
            if ok:
                # nothing between obtaining the response and entering the try
                body = [s for s in g.node.body]
                idx = next((i for i, s in enumerate(body) if isinstance(s, ast.Assign) and norm(s.targets[0]) == "response"), None)
                ok = idx is not None and idx + 1 < len(body) and body[idx + 1] is t
        rep.ob(rule, fkey(tree, g, "yield-in-try-finally-close"), ok, where(g, ys[0] if ys else None),
               "stream(): the response is yielded inside a try whose finally closes it, entered directly after it was obtained" if ok else
               "stream(): the yielded response is not closed on every exit of the caller's block (exception in the block, cancellation, early break)")
    # Response.aclose / close (shared module)
    models = ctx.prog.module("httpcore._models")
    resp = models.classes.get("Response")
    if resp is None:
        raise AnalysisError("anchor vanished: Response in _models.py")
    for m, callee in (("aclose", "self.stream.aclose"), ("close", "self.stream.close")):
        f = resp.methods.get(m)
        if f is None:
            raise AnalysisError(f"anchor vanished: Response.{m}")
        calls = [c for c in own_nodes(f.node) if isinstance(c, ast.Call) and norm(c.func) == callee]
        ok = len(calls) == 1
        g: set[str] = set()
        if ok:
            g = guard_atoms(guards_of(calls[0]))
            allowed = {f"hasattr(self.stream,'{m}')"}
            extra = {a for a in g - allowed if not (a.startswith("isinstance(self.stream,") or a.startswith("not:notisinstance(self.stream,"))}
            ok = not extra
        rep.ob(rule, fkey("shared", f, "delegates-to-stream"), ok, where(f, calls[0] if calls else None),
               f"Response.{m}() closes the underlying stream (guards: {sorted(g)})" if ok else
               f"Response.{m}() does not always close the underlying stream (calls {len(calls)}, guards {sorted(g)}): the pool never learns that the caller is done")


def pool_scope_closes(ctx: Context, rule: str) -> None:
    """Leaving `with pool:` closes the pool; the one-shot API (httpcore.request / httpcore.stream) runs inside such a scope."""
    rep = ctx.rep
    for tree, N in trees(ctx):
        pool = N.cls("connection_pool", "AsyncConnectionPool")
        ex = pool.methods.get("__aexit__") or pool.methods.get("__exit__")
        if ex is None:
            raise AnalysisError("anchor vanished: pool __aexit__/__exit__")
        calls = [c for c in own_nodes(ex.node) if isinstance(c, ast.Call) and norm(c.func) in ("self.aclose", "self.close")]
        ok = len(calls) == 1 and not guard_atoms(guards_of(calls[0]))
        rep.ob(rule, fkey(tree, ex, "exit-closes-pool"), ok, where(ex), "leaving the pool's context closes the pool unconditionally" if ok else
               "the pool's context-manager exit does not (always) close the pool: connections opened inside `with pool:` stay open")
        en = pool.methods.get("__aenter__") or pool.methods.get("__enter__")
        rets = [norm(r.value) for r in own_nodes(en.node) if isinstance(r, ast.Return) and r.value is not None] if en else []
        rep.ob(rule, fkey(tree, en or ex, "enter-returns-self"), rets == ["self"], where(en or ex), f"entering returns {rets}")
    api = ctx.prog.module("httpcore._api")
    for name in ("request", "stream"):
        f = api.functions.get(name) if hasattr(api, "functions") else None
        if f is None:
            f = next((x for x in api.all_functions() if x.short == name), None)
        if f is None:
            raise AnalysisError(f"anchor vanished: httpcore._api.{name}")
        pools = [w for w in own_nodes(f.node) if isinstance(w, ast.With) and any(isinstance(it.context_expr, ast.Call) and norm(it.context_expr.func) == "ConnectionPool" for it in w.items)]
        inner = [c for c in own_nodes(f.node) if isinstance(c, ast.Call) and norm(c.func) in ("pool.request", "pool.stream")]
        ok = len(pools) == 1 and len(inner) == 1 and any(inner[0] is x for x in ast.walk(pools[0]))
        rep.ob(rule, fkey("shared", f, "one-shot-pool-scoped"), ok, where(f), f"httpcore.{name}() runs its request inside `with ConnectionPool() as pool:` (the pool, and with it every stream, is closed on exit)" if ok else
               f"httpcore.{name}() does not run inside a `with ConnectionPool()` scope: its connection is never closed")


def mapping_helper_faithful(ctx: Context, rule: str) -> None:
    """The escape analysis models `with map_exceptions(m):` as: an Exception raised in the block that is an instance of a key
    leaves as the mapped class, anything else leaves unchanged, nothing is swallowed, BaseExceptions pass.  This rule decides
    that the helper's source still has exactly that meaning (the model would otherwise be silently wrong)."""
    rep = ctx.rep
    mod = ctx.prog.module("httpcore._exceptions")
    f = next((x for x in mod.all_functions() if x.short == "map_exceptions"), None)
    if f is None:
        raise AnalysisError("anchor vanished: map_exceptions in _exceptions.py")
    problems = []
    deco = [norm(d) for d in f.node.decorator_list]
    if deco != ["contextlib.contextmanager"]:
        problems.append(f"decorators {deco}")
    body = [s for s in f.node.body if not (isinstance(s, ast.Expr) and isinstance(s.value, ast.Constant))]
    t = body[0] if len(body) == 1 and isinstance(body[0], ast.Try) else None
    if t is None:
        problems.append("body is not a single try statement")
    else:
        if not (len(t.body) == 1 and isinstance(t.body[0], ast.Expr) and isinstance(t.body[0].value, ast.Yield) and t.body[0].value.value is None):
            problems.append("the try body is not a bare `yield`")
        if t.orelse or t.finalbody:
            problems.append("else / finally clause present")
        if len(t.handlers) != 1 or t.handlers[0].type is None or norm(t.handlers[0].type) != "Exception" or not t.handlers[0].name:
            problems.append("not exactly one `except Exception as <name>` handler (BaseExceptions - cancellation - must pass untouched)")
        else:
            h = t.handlers[0]
            exc = h.name
            loops = [s for s in h.body if isinstance(s, ast.For)]
            last = h.body[-1] if h.body else None
            if not (isinstance(last, ast.Raise) and last.exc is None):
                problems.append("the handler does not end with a bare `raise`: an exception matching no key is swallowed")
            if len(loops) != 1 or len(h.body) != 2:
                problems.append("handler is not `for ... in map.items(): ...` followed by `raise`")
            else:
                lp = loops[0]
                par = [a for a in f.param_names()]
                it_ok = norm(lp.iter) == f"{par[0]}.items()" and isinstance(lp.target, ast.Tuple) and len(lp.target.elts) == 2
                if not it_ok:
                    problems.append(f"loop is over `{ast.unparse(lp.iter)}`")
                else:
                    k, v = norm(lp.target.elts[0]), norm(lp.target.elts[1])
                    ok = len(lp.body) == 1 and isinstance(lp.body[0], ast.If) and norm(lp.body[0].test) == f"isinstance({exc},{k})" and not lp.body[0].orelse and \
                        len(lp.body[0].body) == 1 and isinstance(lp.body[0].body[0], ast.Raise) and norm(lp.body[0].body[0].exc) == f"{v}({exc})" and not lp.orelse
                    if not ok:
                        problems.append("loop body is not `if isinstance(exc, from_exc): raise to_exc(exc) from exc`")
    rep.ob(rule, fkey("shared", f, "model-agreement"), not problems, where(f),
           "map_exceptions: first matching key wins, the mapped class is raised from the original, unmatched exceptions are re-raised, BaseExceptions pass" if not problems else
           "map_exceptions no longer has the meaning the exception analysis assumes: " + "; ".join(problems))


def exits_never_suppress(ctx: Context, rule: str) -> None:
    """No context manager defined by the package suppresses an exception: every __exit__/__aexit__ returns None on every path
    (a truthy return would swallow a network or protocol failure inside the `with` block)."""
    rep = ctx.rep
    n = 0
    mods = [ctx.prog.module(m) for m in ("httpcore._trace", "httpcore._synchronization", "httpcore._models")]
    for tree in ("async", "sync"):
        mods += list(ctx.names(tree).modules())
    for m in mods:
        for c in m.classes.values():
            for name in ("__exit__", "__aexit__"):
                f = c.methods.get(name)
                if f is None:
                    continue
                n += 1
                rets = [r for r in own_nodes(f.node) if isinstance(r, ast.Return) and r.value is not None and not (isinstance(r.value, ast.Constant) and r.value.value in (None, False))]
                rep.ob(rule, fkey("shared" if m.name.count(".") == 1 else ("sync" if "._sync." in m.name else "async"), f, "returns-none"), not rets, where(f, rets[0] if rets else None),
                       f"{c.name}.{name} never returns a value (exceptions in the block propagate)" if not rets else
                       f"{c.name}.{name} can return `{ast.unparse(rets[0].value)[:50]}`: a truthy result swallows the exception raised inside the `with` block")
    rep.floor(rule, "context-manager exits in the package", n, 10)


def establish_test_and_set(ctx: Context, rule: str, tree_filter: tuple[str, ...] = ("async", "sync")) -> None:
    """Lazy establishment is a test-and-set under the establishment lock: every store that installs the inner connection
    (`self._connection = <constructor>`, `self._connected = True`) lies inside a `with self._<lock>` region AND the
    `self._connection is None` / `not self._connected` test that guards it is evaluated inside that same region.  A test
    made before taking the lock (and not repeated under it) lets two requests that were both handed the not-yet-connected
    connection each open a stream: the first stream is overwritten, never closed and no longer counted."""
    rep = ctx.rep
    n = 0
    for tree, N in trees(ctx):
        if tree not in tree_filter:
            continue
        for mod, cn in (("connection", "AsyncHTTPConnection"), ("http_proxy", "AsyncTunnelHTTPConnection"), ("socks_proxy", "AsyncSocks5Connection")):
            c = N.cls(mod, cn)
            for f in c.methods.values():
                if f.name == "__init__":
                    continue
                for st in own_nodes(f.node):
                    if not (isinstance(st, ast.Assign) and norm(st.targets[0]) in ("self._connection", "self._connected")):
                        continue
                    if isinstance(st.value, ast.Constant) and st.value.value in (None, False):
                        continue
                    n += 1
                    lock = None
                    test_inside = False
                    test_seen = False
                    p = parent(st)
                    while p is not None and p is not f.node:
                        if isinstance(p, ast.If) and lock is None:
                            t = norm(p.test)
                            if "self._connection" in t or "self._connected" in t:
                                test_seen = True
                                test_inside = True     # provisional: confirmed when a lock is found further out
                        if isinstance(p, (ast.With, ast.AsyncWith)) and lock is None:
                            for it in p.items:
                                nm = norm(it.context_expr)
                                if nm.startswith("self._") and nm.endswith("_lock"):
                                    lock = nm
                        elif isinstance(p, ast.If) and lock is not None:
                            t = norm(p.test)
                            if ("self._connection" in t or "self._connected" in t) and not test_seen:
                                test_seen = True
                                test_inside = False
                        p = parent(p)
                    ok = lock is not None and test_seen and test_inside
                    rep.ob(rule, fkey(tree, f, f"test-and-set:{norm(st.targets[0])}"), ok, where(f, st),
                           f"`{norm(st.targets[0])}` is installed under `{lock}` and the not-yet-established test is made inside that region" if ok else
                           (f"`{norm(st.targets[0])}` is installed outside any establishment lock" if lock is None else
                            f"the not-yet-established test guarding `{norm(st.targets[0])} = ...` is " + ("missing" if not test_seen else f"made before `{lock}` is taken and not repeated under it") +
                            ": two requests handed the same unconnected connection both establish it - the first stream is overwritten, stays open and is no longer counted"))
    rep.floor(rule, "stores installing a lazily established inner connection", n, 6)


def read_does_not_close(ctx: Context, rule: str) -> None:
    """Reading a response never closes it: only `close()` / `aclose()` (called by the caller's context exit or by the
    convenience API) end the exchange.  For a 101 / CONNECT-2xx response the body is empty and the caller goes on to use the
    network stream: a read that closes the response closes the socket under that stream."""
    rep = ctx.rep
    resp = ctx.prog.module("httpcore._models").classes.get("Response")
    if resp is None:
        raise AnalysisError("anchor vanished: Response")
    n = 0
    for name, f in resp.methods.items():
        if name in ("close", "aclose", "__init__"):
            continue
        n += 1
        closers = [c for c in own_nodes(f.node) if isinstance(c, ast.Call) and isinstance(c.func, ast.Attribute) and c.func.attr in ("close", "aclose")
                   and norm(c.func.value) in ("self", "self.stream")]
        rep.ob(rule, fkey("shared", f, "does-not-close"), not closers, where(f, closers[0] if closers else None),
               f"Response.{name} does not end the exchange" if not closers else
               f"Response.{name} calls `{ast.unparse(closers[0])}`: reading the (empty) body of a 101 / CONNECT response closes the connection under the stream that was handed to the caller")
    rep.floor(rule, "Response methods other than close/aclose", n, 4)


EXTERNAL_COROUTINES = {"sleep", "aclose", "send", "send_all", "receive", "receive_some", "do_handshake", "connect_tcp", "connect_unix", "open_tcp_stream", "open_unix_socket", "wrap",
                       "acquire", "wait", "checkpoint"}


def coroutine_calls_awaited(ctx: Context, rule: str, only: tuple[str, ...] | None = None) -> None:
    """Every call whose callee is a coroutine function (an `async def` of the package that is not an async generator, or one
    of the runtime coroutines of anyio/trio named in the table) is awaited where it is made.  A coroutine that is created and
    returned / dropped never runs: the async API silently skips an operation (a pause, a close, a send) that the synchronous
    twin performs."""
    rep = ctx.rep
    cg = ctx.callgraph
    n = 0
    bad_total = 0
    mods = [m for m in ctx.names("async").modules()] + [ctx.prog.module(x) for x in
            ("httpcore._backends.auto", "httpcore._backends.anyio", "httpcore._backends.trio", "httpcore._backends.mock", "httpcore._synchronization", "httpcore._models", "httpcore._trace")]
    for m in mods:
        for f in m.all_functions():
            if only is not None and f.name not in only:
                continue
            for c in own_nodes(f.node):
                if not isinstance(c, ast.Call):
                    continue
                is_coro = False
                for cs in cg.by_node.get(id(c), []):
                    if cs.kind != "call":
                        continue
                    for t in cs.repo_targets():
                        if t.is_async and not any(isinstance(y, (ast.Yield, ast.YieldFrom)) for y in own_nodes(t.node)) and \
                                not any("asynccontextmanager" in norm(d) for d in t.node.decorator_list):
                            is_coro = True
                if not is_coro and f.is_async and isinstance(c.func, ast.Attribute) and c.func.attr in EXTERNAL_COROUTINES:
                    root = (chain(c.func) or [""])
                    # runtime objects of the async libraries: module functions and the wrapped stream / primitives
                    if root[0] in ("anyio", "trio") or (len(root) >= 3 and root[0] == "self" and root[1] in ("_stream", "_backend", "_anyio_lock", "_trio_lock", "_anyio_event", "_trio_event",
                                                                                                             "_anyio_semaphore", "_trio_semaphore")):
                        is_coro = c.func.attr not in ("release", "set")
                if not is_coro:
                    continue
                n += 1
                p = parent(c)
                if isinstance(p, ast.Await):
                    continue
                bad_total += 1
                rep.ob(rule, fkey("async", f, f"awaited:{norm(c.func)[:50]}"), False, where(f, c),
                       f"`{ast.unparse(c)[:60]}` creates a coroutine that is not awaited here: the operation never runs (or runs at some later, unrelated point)")
    if not bad_total:
        rep.ob(rule, "async|*|coroutine-calls-awaited", True, "httpcore/", f"all {n} calls of coroutine functions are awaited where they are made")
    rep.floor(rule, "coroutine calls examined", n, 20 if only is None else 1)


AWAIT_BENIGN = {
    ("AsyncHTTP2Connection", "_max_streams"): "all writes after connection init are made by the socket reader under the read lock; the one other write (init, under the init lock) happens before the first read",
}


def await_atomicity_census(ctx: Context, rule: str) -> None:
    """Async tree: a test on a field of a task-shared object, then a suspension point, then a write of that field, all inside the
    region guarded by the test, is a test-and-set that other tasks can interleave with - unless the test, the write and every
    other writer of the field hold a common async lock.  (The sync twin of each site is covered by the lockset census C08.R11.)"""
    from .c07 import locks_for
    from .c08 import SHARED_CLASSES

    rep = ctx.rep
    N = ctx.names("async")
    L = locks_for(ctx, "async")
    n = 0

    def fields_in(e: ast.AST) -> set[str]:
        return {x.attr for x in ast.walk(e) if isinstance(x, ast.Attribute) and isinstance(x.value, ast.Name) and x.value.id == "self" and x.attr.startswith("_")}

    for mod, cn in SHARED_CLASSES:
        c = N.cls(mod, cn)
        wl: dict[str, list[frozenset]] = {}
        for f in c.methods.values():
            if f.name == "__init__":
                continue
            for x in own_nodes(f.node):
                if isinstance(x, ast.Attribute) and isinstance(x.value, ast.Name) and x.value.id == "self" and not isinstance(x.ctx, ast.Load):
                    wl.setdefault(x.attr, []).append(frozenset(L.must_hold(x, f)))
        for f in c.methods.values():
            if not f.is_async:
                continue
            cfg = ctx.cfg(f)
            for t in own_nodes(f.node):
                if not isinstance(t, (ast.If, ast.While)):
                    continue
                flds = fields_in(t.test)
                tn = cfg._by_ast.get(id(t))
                if not flds or not tn:
                    continue
                body_ids = {id(x) for s_ in t.body for x in ast.walk(s_)}
                reach_plain = cfg.reachable([e.dst for e in tn[0].succ if e.kind != "exc"], follow=lambda e: e.kind != "exc", stop=lambda m: m.may_cancel())
                susp = [m for m in cfg.nodes if m.id in reach_plain and m.may_cancel() and m.ast is not None
                        and id(m.ast if not isinstance(m.ast, ast.withitem) else m.ast.context_expr) in body_ids]
                if not susp:
                    continue
                after = cfg.reachable([e.dst for s_ in susp for e in s_.succ if e.kind != "exc"], follow=lambda e: e.kind != "exc")
                done: set[str] = set()
                for m in cfg.nodes:
                    if m.id not in after or m.ast is None:
                        continue
                    a = m.ast if not isinstance(m.ast, ast.withitem) else m.ast.context_expr
                    if id(a) not in body_ids or not isinstance(a, (ast.Assign, ast.AugAssign, ast.AnnAssign, ast.Delete, ast.Expr)):
                        continue
                    wf = {x.attr for x in ast.walk(a) if isinstance(x, ast.Attribute) and isinstance(x.value, ast.Name) and x.value.id == "self" and not isinstance(x.ctx, ast.Load)}
                    for F in sorted((wf & flds) - done):
                        done.add(F)
                        n += 1
                        allw = frozenset.intersection(*wl[F]) if wl.get(F) else frozenset()
                        prot = frozenset(L.must_hold(t.test, f)) & frozenset(L.must_hold(a, f)) & allw
                        why = AWAIT_BENIGN.get((c.name, F))
                        ok = bool(prot) or why is not None
                        rep.ob(rule, fkey("async", f, f"test-suspend-set:{F}:{norm(t.test)[:40]}"), ok, where(f, t),
                               (f"`{ast.unparse(t.test)[:50]}` ... suspension ... write of {F}: one critical section of {sorted(x.split('.')[-1] for x in prot)}" if prot else f"accepted: {why}") if ok else
                               f"`{ast.unparse(t.test)[:60]}` is tested, then `{susp[0].text()[:50]}` suspends, then `{ast.unparse(a)[:50]}` writes {F} - with no async lock common to the test, the write and "
                               f"the other writers of {F}: another task can run the same test-and-set in between (both then act on the stale answer)")
    rep.floor(rule, "test / suspend / set sequences on task-shared fields (async)", n, 4)


# ---- Python-level value semantics (round j): shared mutable objects and identity tests ---------------------------------------------
_MUTABLE_CTORS = {"list", "dict", "set", "bytearray", "deque", "defaultdict", "OrderedDict", "collections.deque", "collections.defaultdict", "collections.OrderedDict"}
_MUTATORS = {"append", "extend", "insert", "pop", "remove", "clear", "update", "setdefault", "add", "discard", "popitem", "sort", "reverse", "appendleft", "popleft", "extendleft"}


def _is_mutable_value(v: ast.AST | None) -> bool:
    if isinstance(v, (ast.List, ast.Dict, ast.Set, ast.ListComp, ast.DictComp, ast.SetComp)):
        return True
    return isinstance(v, ast.Call) and norm(v.func) in _MUTABLE_CTORS


def _shared_mutables(tree: ast.Module) -> tuple[set[str], dict[str, set[str]]]:
    """(module-level names, class name -> class-level names) bound to a mutable container object at import time."""
    mod: set[str] = set()
    cls: dict[str, set[str]] = {}

    def binds(body: list[ast.stmt]) -> set[str]:
        out = set()
        for st in body:
            tg, val = None, None
            if isinstance(st, ast.Assign) and len(st.targets) == 1:
                tg, val = st.targets[0], st.value
            elif isinstance(st, ast.AnnAssign):
                tg, val = st.target, st.value
            if isinstance(tg, ast.Name) and _is_mutable_value(val):
                out.add(tg.id)
        return out

    mod |= binds(tree.body)
    for n in ast.walk(tree):
        if isinstance(n, ast.ClassDef):
            b = binds(n.body)
            if b:
                cls[n.name] = b
    return mod, cls


def shared_mutable_findings(src: str) -> tuple[list[tuple[int, str, str]], int, int]:
    """Raw-source scan of one module.  Returns (findings, shared objects, functions scanned); a finding is an IN-PLACE mutation
    (augmented assignment, mutator method, subscript store / delete) of an object that exists once per process: a module-level or
    class-level container, or a mutable default argument - reached directly, through `self.` / `cls.` / the class name, or through a
    local that was bound to it.  Works on the source as written, before constants are inlined."""
    tree = ast.parse(src)
    mod, cls = _shared_mutables(tree)
    out: list[tuple[int, str, str]] = []
    nfun = 0
    nshared = len(mod) + sum(len(v) for v in cls.values())

    def scan(fn: ast.AST, owner: str | None) -> None:
        nonlocal nfun, nshared
        nfun += 1
        own_cls = cls.get(owner or "", set())
        shared_expr: dict[str, str] = {}
        a = fn.args
        pos = a.posonlyargs + a.args
        for arg, d in list(zip(pos[len(pos) - len(a.defaults):], a.defaults)) + [(k, d) for k, d in zip(a.kwonlyargs, a.kw_defaults) if d is not None]:
            if _is_mutable_value(d):
                shared_expr[arg.arg] = f"mutable default of parameter `{arg.arg}`"
                nshared += 1
        assigned_locals = {t.id for n in ast.walk(fn) for t in ([n.target] if isinstance(n, (ast.AugAssign, ast.AnnAssign, ast.For, ast.AsyncFor)) else n.targets if isinstance(n, ast.Assign) else [])
                           if isinstance(t, ast.Name)} | {x.arg for x in pos + a.kwonlyargs}

        def ref(e: ast.AST) -> str | None:
            if isinstance(e, ast.Name):
                if e.id in shared_expr:
                    return shared_expr[e.id]
                if e.id in mod and e.id not in assigned_locals:
                    return f"module-level `{e.id}`"
            if isinstance(e, ast.Attribute) and isinstance(e.value, ast.Name):
                base = e.value.id
                if base in ("self", "cls") and e.attr in own_cls and not instance_bound.get(e.attr):
                    return f"class-level `{owner}.{e.attr}`"
                if base in cls and e.attr in cls[base]:
                    return f"class-level `{base}.{e.attr}`"
            return None

        # attributes the instance rebinds to a FRESH object (then `self.x` no longer names the class-level one)
        instance_bound: dict[str, bool] = {}
        for n in ast.walk(fn):
            if isinstance(n, (ast.Assign, ast.AnnAssign)):
                for t in (n.targets if isinstance(n, ast.Assign) else [n.target]):
                    if isinstance(t, ast.Attribute) and isinstance(t.value, ast.Name) and t.value.id == "self" and n.value is not None:
                        instance_bound[t.attr] = True
        # local aliases (flow-insensitive, to a fixed point)
        changed = True
        while changed:
            changed = False
            for n in ast.walk(fn):
                if isinstance(n, ast.Assign) and len(n.targets) == 1 and isinstance(n.targets[0], ast.Name) and n.targets[0].id not in shared_expr:
                    r = ref(n.value)
                    if r is not None:
                        shared_expr[n.targets[0].id] = r + f" (through the local `{n.targets[0].id}`)"
                        changed = True
        for n in ast.walk(fn):
            tgt, how = None, ""
            if isinstance(n, ast.AugAssign):
                tgt, how = n.target, f"augmented assignment `{ast.unparse(n)[:60]}`"
                if isinstance(tgt, ast.Subscript):
                    tgt = tgt.value
            elif isinstance(n, ast.Call) and isinstance(n.func, ast.Attribute) and n.func.attr in _MUTATORS:
                tgt, how = n.func.value, f"`{ast.unparse(n)[:60]}`"
            elif isinstance(n, ast.Subscript) and isinstance(n.ctx, (ast.Store, ast.Del)):
                tgt, how = n.value, f"subscript store / delete `{ast.unparse(n)[:60]}`"
            if tgt is None:
                continue
            r = ref(tgt)
            if r is not None:
                out.append((n.lineno, (owner + "." if owner else "") + fn.name, f"{how} modifies {r} in place"))

    def visit(body: list[ast.stmt], owner: str | None) -> None:
        for st in body:
            if isinstance(st, (ast.FunctionDef, ast.AsyncFunctionDef)):
                scan(st, owner)
            elif isinstance(st, ast.ClassDef):
                visit(st.body, st.name)

    visit(tree.body, None)
    return out, nshared, nfun


_SHARED_MUT_WITNESS = '''
class K:
    ALPN = ["http/1.1"]
    def f(self, on):
        x = self.ALPN
        if on:
            x += ["h2"]
        return x
def g(a, seen=[]):
    seen.append(a)
'''


def no_shared_mutable_state(ctx: Context, rule: str, modules: tuple[str, ...], why: str) -> None:
    """No object that exists once per process (class-level / module-level container, mutable default) is modified in place by the
    named modules: what one connection or request does must not change what the next one starts from."""
    rep = ctx.rep
    w, _, _ = shared_mutable_findings(_SHARED_MUT_WITNESS)
    if len(w) != 2:
        raise AnalysisError(f"{rule}: the built-in positive example of the shared-mutable scan no longer matches ({w})")
    nf = ns = nm = 0
    for full in modules:
        if True:
            tree = "sync" if "._sync." in full else "async" if "._async." in full else "shared"
            m = ctx.prog.module(full)
            nm += 1
            found, nshared, nfun = shared_mutable_findings(m.src)
            nf += nfun
            ns += nshared
            for line, fn, text in found:
                rep.ob(rule, f"{tree}|{fn}|shared-mutable:{text.split(' modifies ')[1][:60]}", False, f"{m.relpath}:{line}", f"{text}: {why}")
    rep.ob(rule, "both|*|no-shared-mutable-state", True, "httpcore/", f"{nm} modules, {nf} functions scanned on the source as written; {ns} per-process container objects, none modified in place")
    rep.floor(rule, "functions scanned for in-place modification of per-process objects", nf, 20)


def _singleton_operand(e: ast.AST) -> bool:
    if isinstance(e, ast.Constant) and (e.value is None or e.value is True or e.value is False or e.value is Ellipsis):
        return True
    if isinstance(e, ast.Attribute) and e.attr.isupper():
        return True          # h11.NEED_DATA, HTTPConnectionState.IDLE: sentinels and enum members are singletons
    return isinstance(e, ast.Name) and e.id.isupper()


def identity_findings(src: str) -> tuple[list[tuple[int, str]], int]:
    out, n = [], 0
    for c in ast.walk(ast.parse(src)):
        if isinstance(c, ast.Compare):
            ops = [c.left] + c.comparators
            for i, op in enumerate(c.ops):
                if isinstance(op, (ast.Is, ast.IsNot)):
                    n += 1
                    if not (_singleton_operand(ops[i]) or _singleton_operand(ops[i + 1])):
                        out.append((c.lineno, ast.unparse(c)[:70]))
    return out, n


def identity_tests_on_singletons(ctx: Context, rule: str, modules: tuple[str, ...], why: str) -> None:
    """`is` / `is not` only against None / True / False / an UPPER_CASE sentinel or enum member.  Between ordinary values (ints above
    256, bytes, strings) identity is an accident of the interpreter - and the evaluators of this framework read `is` as `==`, which
    is only right for singletons."""
    rep = ctx.rep
    w, _ = identity_findings("def f(url, d):\n    return url.port is None or url.port is d\n")
    if len(w) != 1:
        raise AnalysisError(f"{rule}: the built-in positive example of the identity-test scan no longer matches ({w})")
    total = 0
    for name in modules:
        m = ctx.prog.module(name)
        found, n = identity_findings(m.src)
        total += n
        for line, text in found:
            rep.ob(rule, f"shared|{name.split('.')[-1]}|identity:{text[:50]}", False, f"{m.relpath}:{line}", f"`{text}` compares two ordinary values by identity: {why}")
    rep.ob(rule, "shared|*|identity-tests", True, "httpcore/", f"{total} identity tests in {len(modules)} modules, each against None / True / False / an UPPER_CASE sentinel")
    rep.floor(rule, "identity tests scanned", total, 10)


def scheme_gate_within_origin_table(ctx: Context, rule: str, why: str) -> None:
    """The pool's scheme gate admits only schemes for which `URL.origin` is defined.  `URL.origin` looks the raw scheme bytes up in a
    dict literal (KeyError otherwise) and is evaluated INSIDE `_assign_requests_to_connections`, after expired connections were taken
    off the pool list and before the closing list is returned - an exception there loses them.  So: the value the gate tests is the
    raw scheme (no case folding / stripping - the table lookup does none), and every admitted literal is a key of the table."""
    rep = ctx.rep
    models = ast.parse(ctx.prog.module("httpcore._models").src)
    keys: set[bytes] | None = None
    for c in ast.walk(models):
        if isinstance(c, ast.ClassDef) and c.name == "URL":
            for f in c.body:
                if isinstance(f, ast.FunctionDef) and f.name == "origin":
                    mconsts = {st.targets[0].id: st.value for st in models.body if isinstance(st, ast.Assign) and len(st.targets) == 1 and isinstance(st.targets[0], ast.Name)}
                    mconsts.update({st.target.id: st.value for st in models.body if isinstance(st, ast.AnnAssign) and isinstance(st.target, ast.Name) and st.value is not None})
                    flocals = {st.targets[0].id: st.value for st in ast.walk(f) if isinstance(st, ast.Assign) and len(st.targets) == 1 and isinstance(st.targets[0], ast.Name)}
                    for n in ast.walk(f):
                        if isinstance(n, ast.Subscript) and isinstance(n.value, ast.Name) and isinstance(flocals.get(n.value.id, mconsts.get(n.value.id)), ast.Dict):
                            n = ast.copy_location(ast.Subscript(value=flocals.get(n.value.id, mconsts.get(n.value.id)), slice=n.slice, ctx=n.ctx), n)
                        if isinstance(n, ast.Subscript) and isinstance(n.value, ast.Dict) and norm(n.slice) == "self.scheme":
                            keys = {k.value for k in n.value.keys if isinstance(k, ast.Constant) and isinstance(k.value, bytes)}
                    if keys is None:
                        # a total lookup (.get with a default) cannot raise: nothing to demand of the gate
                        gets = [n for n in ast.walk(f) if isinstance(n, ast.Call) and isinstance(n.func, ast.Attribute) and n.func.attr == "get" and len(n.args) == 2]
                        if gets:
                            rep.ob(rule, "shared|URL.origin|scheme-table", True, "httpcore/_models.py", "URL.origin looks the scheme up with a default: total")
                            rep.floor(rule, "scheme gates compared with the URL.origin table", 2, 2)
                            return
    if keys is None:
        raise AnalysisError(f"{rule}: anchor vanished: the scheme -> default port table of URL.origin")
    gates = 0
    for tree, cls_name, fn_name in (("async", "AsyncConnectionPool", "handle_async_request"), ("sync", "ConnectionPool", "handle_request")):
        m = ctx.prog.module(f"httpcore._{tree}.connection_pool")
        t = ast.parse(m.src)
        fn = next((f for c in ast.walk(t) if isinstance(c, ast.ClassDef) and c.name == cls_name for f in c.body
                   if isinstance(f, (ast.FunctionDef, ast.AsyncFunctionDef)) and f.name == fn_name), None)
        if fn is None:
            raise AnalysisError(f"{rule}: anchor vanished: {cls_name}.{fn_name}")
        binds = {st.targets[0].id: st.value for st in ast.walk(fn) if isinstance(st, ast.Assign) and len(st.targets) == 1 and isinstance(st.targets[0], ast.Name)}
        consts = {st.targets[0].id: st.value for st in t.body if isinstance(st, ast.Assign) and len(st.targets) == 1 and isinstance(st.targets[0], ast.Name)}
        consts.update({st.target.id: st.value for st in t.body if isinstance(st, ast.AnnAssign) and isinstance(st.target, ast.Name) and st.value is not None})
        for n in ast.walk(fn):
            if isinstance(n, ast.If) and isinstance(n.test, ast.Compare) and len(n.test.ops) == 1 and isinstance(n.test.comparators[0], ast.Name):
                lit = consts.get(n.test.comparators[0].id)       # the admitted set as a module-level constant
                if isinstance(lit, ast.Call) and norm(lit.func) in ("frozenset", "set", "tuple") and len(lit.args) == 1:
                    lit = lit.args[0]
                if isinstance(lit, (ast.Tuple, ast.List, ast.Set)):
                    n = ast.copy_location(ast.If(test=ast.copy_location(ast.Compare(left=n.test.left, ops=n.test.ops, comparators=[lit]), n.test), body=n.body, orelse=n.orelse), n)
            if not (isinstance(n, ast.If) and isinstance(n.test, ast.Compare) and len(n.test.ops) == 1 and isinstance(n.test.ops[0], ast.NotIn)
                    and isinstance(n.test.comparators[0], (ast.Tuple, ast.List, ast.Set))
                    and any(isinstance(r, ast.Raise) and "UnsupportedProtocol" in ast.unparse(r) for r in ast.walk(n))):
                continue
            gates += 1
            tested = n.test.left
            src_expr = binds.get(tested.id, tested) if isinstance(tested, ast.Name) else tested
            sn = norm(src_expr)
            raw_ok = sn in ("request.url.scheme.decode()", "request.url.scheme.decode('ascii')", "request.url.scheme", "request.url.scheme.decode('utf-8')")
            lits = [e.value for e in n.test.comparators[0].elts if isinstance(e, ast.Constant)]
            admitted = {x.encode() if isinstance(x, str) else x for x in lits}
            extra = sorted(admitted - keys)
            ok = raw_ok and not extra and len(lits) == len(n.test.comparators[0].elts)
            rep.ob(rule, f"{tree}|{cls_name}.{fn_name}|scheme-gate", ok, f"{m.relpath}:{n.lineno}",
                   f"gate tests `{sn}` against {sorted(admitted)}; URL.origin is defined for {sorted(keys)}" if ok else
                   (f"the scheme gate tests `{sn}`, not the raw scheme: a scheme that passes only after that conversion (e.g. b'HTTP') is not a key of the URL.origin table {sorted(keys)}"
                    if not raw_ok else f"the scheme gate admits {extra}, for which URL.origin has no entry") + f" - KeyError inside the assignment pass: {why}")
    rep.floor(rule, "scheme gates compared with the URL.origin table", gates, 2)
