"""Rules over the support code the anchor files rely on: the convenience API (`request()` / `stream()` of
_async/interfaces.py and httpcore/_api.py), `Response.aclose()` and the pool's context-manager protocol.  These are the
places where "the caller lets go of the request" actually happens for most users; a slip here defeats the clean-up
properties while every pool / connection obligation still holds."""
from __future__ import annotations

import ast

from ..context import Context
from ..guards import guards_of
from ..load import AnalysisError, FuncInfo, chain, norm, own_nodes, parent
from ..norm import guard_atoms
from .c05 import node_calls
from .common import fkey, trees, where


def _closes_response(c: ast.Call) -> bool:
    return norm(c.func) in ("response.aclose", "response.close")


def api_releases(ctx: Context, rule: str) -> None:
    """request(): from the point the response exists, every path - normal, failing read, cancellation - passes
    `response.aclose()`.  stream(): the yield sits in a try whose finally closes the response.  Response.aclose() reaches the
    close of the underlying stream under no condition other than the documented ones."""
    rep = ctx.rep
    for tree, N in trees(ctx):
        f = N.func("interfaces", "AsyncRequestInterface.request")
        cfg = ctx.cfg(f)
        got = [n for n in cfg.nodes if n.kind == "stmt" and isinstance(n.ast, ast.Assign) and norm(n.ast.targets[0]) == "response"
               and node_calls(n, lambda c: (chain(c.func) or [""])[-1] in ("handle_async_request", "handle_request"))]
        if not got:
            raise AnalysisError(f"anchor vanished: `response = ...handle_request(request)` in {f.short}")
        starts = [e.dst for e in got[0].succ if e.kind != "exc"]
        reach = cfg.reachable(starts, stop=lambda n: node_calls(n, _closes_response))
        leak = cfg.exit.id in reach or cfg.exc_exit.id in reach
        rep.ob(rule, fkey(tree, f, "response-closed-on-every-path"), not leak, where(f, got[0].ast),
               "request(): once the response exists every path (normal, failed read, cancellation) passes response.aclose()" if not leak else
               "request(): a path from `response = ...` to the exit does not pass response.aclose(): a body read that fails or is cancelled keeps the connection busy forever "
               "(the caller never saw the response and cannot close it)")
        g = N.func("interfaces", "AsyncRequestInterface.stream")
        ys = [y for y in own_nodes(g.node) if isinstance(y, ast.Yield)]
        ok = len(ys) == 1 and norm(ys[0].value) == "response"
        if ok:
            t = None
            p = parent(ys[0])
            while p is not None and p is not g.node:
                if isinstance(p, ast.Try):
                    t = p
                    break
                p = parent(p)
            ok = t is not None and any(isinstance(c, ast.Call) and _closes_response(c) and not guard_atoms([x for x in guards_of(c) if id(x[0]) in {id(y) for y in ast.walk(t)}])
                                       for s in t.finalbody for c in ast.walk(s))
            if ok:
                # nothing between obtaining the response and entering the try
                body = [s for s in g.node.body]
                idx = next((i for i, s in enumerate(body) if isinstance(s, ast.Assign) and norm(s.targets[0]) == "response"), None)
                ok = idx is not None and idx + 1 < len(body) and body[idx + 1] is t
        rep.ob(rule, fkey(tree, g, "yield-in-try-finally-close"), ok, where(g, ys[0] if ys else None),
               "stream(): the response is yielded inside a try whose finally closes it, entered directly after it was obtained" if ok else
               "stream(): the yielded response is not closed on every exit of the caller's block (exception in the block, cancellation, early break)")
    # Response.aclose / close (shared module)
    models = ctx.prog.module("httpcore._models")
    resp = models.classes.get("Response")
    if resp is None:
        raise AnalysisError("anchor vanished: Response in _models.py")
    for m, callee in (("aclose", "self.stream.aclose"), ("close", "self.stream.close")):
        f = resp.methods.get(m)
        if f is None:
            raise AnalysisError(f"anchor vanished: Response.{m}")
        calls = [c for c in own_nodes(f.node) if isinstance(c, ast.Call) and norm(c.func) == callee]
        ok = len(calls) == 1
        g: set[str] = set()
        if ok:
            g = guard_atoms(guards_of(calls[0]))
            allowed = {f"hasattr(self.stream,'{m}')"}
            extra = {a for a in g - allowed if not (a.startswith("isinstance(self.stream,") or a.startswith("not:notisinstance(self.stream,"))}
            ok = not extra
        rep.ob(rule, fkey("shared", f, "delegates-to-stream"), ok, where(f, calls[0] if calls else None),
               f"Response.{m}() closes the underlying stream (guards: {sorted(g)})" if ok else
               f"Response.{m}() does not always close the underlying stream (calls {len(calls)}, guards {sorted(g)}): the pool never learns that the caller is done")


def pool_scope_closes(ctx: Context, rule: str) -> None:
    """Leaving `with pool:` closes the pool; the one-shot API (httpcore.request / httpcore.stream) runs inside such a scope."""
    rep = ctx.rep
    for tree, N in trees(ctx):
        pool = N.cls("connection_pool", "AsyncConnectionPool")
        ex = pool.methods.get("__aexit__") or pool.methods.get("__exit__")
        if ex is None:
            raise AnalysisError("anchor vanished: pool __aexit__/__exit__")
        calls = [c for c in own_nodes(ex.node) if isinstance(c, ast.Call) and norm(c.func) in ("self.aclose", "self.close")]
        ok = len(calls) == 1 and not guard_atoms(guards_of(calls[0]))
        rep.ob(rule, fkey(tree, ex, "exit-closes-pool"), ok, where(ex), "leaving the pool's context closes the pool unconditionally" if ok else
               "the pool's context-manager exit does not (always) close the pool: connections opened inside `with pool:` stay open")
        en = pool.methods.get("__aenter__") or pool.methods.get("__enter__")
        rets = [norm(r.value) for r in own_nodes(en.node) if isinstance(r, ast.Return) and r.value is not None] if en else []
        rep.ob(rule, fkey(tree, en or ex, "enter-returns-self"), rets == ["self"], where(en or ex), f"entering returns {rets}")
    api = ctx.prog.module("httpcore._api")
    for name in ("request", "stream"):
        f = api.functions.get(name) if hasattr(api, "functions") else None
        if f is None:
            f = next((x for x in api.all_functions() if x.short == name), None)
        if f is None:
            raise AnalysisError(f"anchor vanished: httpcore._api.{name}")
        pools = [w for w in own_nodes(f.node) if isinstance(w, ast.With) and any(isinstance(it.context_expr, ast.Call) and norm(it.context_expr.func) == "ConnectionPool" for it in w.items)]
        inner = [c for c in own_nodes(f.node) if isinstance(c, ast.Call) and norm(c.func) in ("pool.request", "pool.stream")]
        ok = len(pools) == 1 and len(inner) == 1 and any(inner[0] is x for x in ast.walk(pools[0]))
        rep.ob(rule, fkey("shared", f, "one-shot-pool-scoped"), ok, where(f), f"httpcore.{name}() runs its request inside `with ConnectionPool() as pool:` (the pool, and with it every stream, is closed on exit)" if ok else
               f"httpcore.{name}() does not run inside a `with ConnectionPool()` scope: its connection is never closed")
