"""C04 - the connection limit is never exceeded."""
from __future__ import annotations

import ast

from ..context import Context
from ..guards import enclosing_withs, guards_of
from ..load import AnalysisError, FuncInfo, Names, chain, norm, own_nodes, parent
from ..norm import UNKNOWN, conj_atoms, peval
from .common import fkey, net_sites, trees, where

MUTATING_METHODS = {"append", "remove", "insert", "extend", "pop", "clear", "sort", "reverse", "__setitem__", "__delitem__"}
LE, LT = "len<=max", "len<max"


def list_mutations(f: FuncInfo, attr: str) -> list[tuple[ast.AST, str]]:
    """(node, kind) for every mutation of `<anything>.<attr>` in f: method calls, stores, aug-assign, del."""
    out: list[tuple[ast.AST, str]] = []
    for n in own_nodes(f.node):
        if isinstance(n, ast.Call) and isinstance(n.func, ast.Attribute) and n.func.attr in MUTATING_METHODS:
            v = n.func.value
            if isinstance(v, ast.Attribute) and v.attr == attr:
                out.append((n, n.func.attr))
        elif isinstance(n, ast.Attribute) and n.attr == attr and isinstance(n.ctx, (ast.Store, ast.Del)):
            out.append((n, "assign" if isinstance(n.ctx, ast.Store) else "del"))
        elif isinstance(n, ast.Subscript) and isinstance(n.ctx, (ast.Store, ast.Del)) and isinstance(n.value, ast.Attribute) and n.value.attr == attr:
            out.append((n, "setitem"))
    return sorted(out, key=lambda x: (getattr(x[0], "lineno", 0), getattr(x[0], "col_offset", 0)))


def _limit_atoms(test: ast.expr, polarity: bool) -> list[bool]:
    """For every atom of the branch condition that relates len(_connections) to _max_connections:
    does the atom (with this polarity) imply len < max?"""
    out = []
    for atom, pol in conj_atoms(test, polarity):
        txt = norm(atom)
        if "len(self._connections)" in txt and "self._max_connections" in txt:
            strict = True
            for k, m in ((0, 1), (1, 1), (2, 1), (1, 2), (5, 5), (4, 5)):
                v = peval(atom, {"len(self._connections)": k, "self._max_connections": m})
                if v is UNKNOWN:
                    strict = False
                    break
                if bool(v) == pol and not (k < m):
                    strict = False  # the branch can be taken while len >= max
            out.append(strict)
    return out


def count_invariant(ctx: Context, tree: str, f: FuncInfo) -> None:
    rep = ctx.rep
    cfg = ctx.cfg(f)
    violations: list[tuple[ast.AST, str]] = []
    appends = 0

    def node_effect(n, state: str) -> str:
        nonlocal appends
        if n.ast is None or n.kind not in ("stmt", "return", "if", "while", "for", "assert"):
            return state
        target = n.ast
        if n.kind in ("if", "while"):
            target = n.ast.test
        elif n.kind == "for":
            target = n.ast.iter
        for c in ast.walk(target):
            if isinstance(c, ast.Call) and isinstance(c.func, ast.Attribute) and norm(c.func.value) == "self._connections":
                m = c.func.attr
                if m == "append":
                    if state == LT:
                        state = LE
                    else:
                        violations.append((c, f"`{ast.unparse(c)}` reachable with only len(_connections) <= max known: the list can grow past the limit"))
                elif m == "remove":
                    state = LT
                elif m in MUTATING_METHODS:
                    violations.append((c, f"unmodelled mutation `{ast.unparse(c)}` of the connection list"))
            elif isinstance(c, ast.Attribute) and norm(c) == "self._connections" and isinstance(c.ctx, ast.Store):
                p = parent(c)
                if isinstance(p, ast.Assign) and isinstance(p.value, ast.List) and not p.value.elts:
                    state = LE
                else:
                    violations.append((c, f"connection list rebound by `{ast.unparse(p)[:70]}`"))
        return state

    def transfer(n, state: str, e):
        s = node_effect(n, state)
        if e.kind == "exc":
            return s
        if n.kind in ("if", "while") and e.kind in ("t", "f"):
            atoms = _limit_atoms(n.ast.test, e.kind == "t")
            if atoms and all(atoms):
                return LT
        return s

    # count append sites (anchor)
    for n in own_nodes(f.node):
        if isinstance(n, ast.Call) and isinstance(n.func, ast.Attribute) and n.func.attr == "append" and norm(n.func.value) == "self._connections":
            appends += 1
    rep.floor("C04.R1", f"append sites of the connection list ({tree})", appends, 1)
    violations.clear()
    cfg.solve(LE, transfer, lambda a, b: a if a == b else LE)
    # the solver may visit a node several times; collect distinct violations at the fixpoint
    final: dict[int, tuple[ast.AST, str]] = {}
    violations.clear()
    states = cfg.solve(LE, transfer, lambda a, b: a if a == b else LE)
    violations.clear()
    for n in cfg.nodes:
        if n.id in states:
            node_effect(n, states[n.id])
    for node, msg in violations:
        final[id(node)] = (node, msg)
    apps = [n for n in own_nodes(f.node) if isinstance(n, ast.Call) and isinstance(n.func, ast.Attribute)
            and n.func.attr == "append" and norm(n.func.value) == "self._connections"]
    for i, a in enumerate(sorted(apps, key=lambda c: c.lineno)):
        bad = final.get(id(a))
        rep.ob("C04.R1", fkey(tree, f, f"append-{i}"), bad is None, where(f, a),
               bad[1] if bad else "append is dominated by len(_connections) < max (strict) on every path, or follows a remove")
    for node, msg in final.values():
        if node not in apps:
            rep.ob("C04.R1", fkey(tree, f, norm(node)[:60]), False, where(f, node), msg)


def run(ctx: Context) -> None:
    rep = ctx.rep
    rep.level = "other"
    rep.explanation = (
        "R1: abstract interpretation of the pool's assignment pass over the domain {len<=max, len<max}: the true-branch of a test that "
        "relates len(self._connections) to self._max_connections gives the strict fact only if partial evaluation of the atom shows it "
        "implies len<max; append maps strict->non-strict and is a violation on non-strict; remove maps to strict; loop heads join. "
        "R2: whole-program census of mutators of the connection list - only the assignment pass, the pool constructor and pool close. "
        "With C08.R1 (the pass runs under the pool lock) R1+R2 are an inductive argument for len(_connections) <= max_connections under "
        "every schedule. R3: every socket-opening call is guarded by `<inner connection> is None` under the connection's own lock and is "
        "followed on every normal path by the store of the inner connection (one stream per connection object). R4: the handler that "
        "sets the establishment-failure flag covers only fault points inside the establishment region (not waiters on the lock). "
        "R5: the limit is the constructor argument (sys.maxsize when None)."
    )
    rep.rule("C04.R1", "len(_connections) <= max is inductive over the assignment pass (append only under strict len < max or after remove)")
    rep.rule("C04.R2", "only the assignment pass, __init__ and pool close mutate the connection list")
    rep.rule("C04.R3", "socket-opening calls are guarded by `inner connection is None` under the connection lock and followed by the store")
    rep.rule("C04.R4", "the establishment-failure flag is set only for faults inside the establishment region")
    rep.rule("C04.R5", "_max_connections is the constructor's max_connections (sys.maxsize when None)")
    rep.rule("C04.R6", "a connection leaves the count (reports closed) only together with the close of its stream")
    for tree, N in trees(ctx):
        pool = N.cls("connection_pool", "AsyncConnectionPool")
        assign = N.func("connection_pool", "AsyncConnectionPool._assign_requests_to_connections")
        count_invariant(ctx, tree, assign)
        # R2 census
        allowed = {assign.qual, pool.methods["__init__"].qual, N.func("connection_pool", "AsyncConnectionPool.aclose").qual}
        nmut = 0
        for f in N.functions():
            for node, kind in list_mutations(f, "_connections"):
                nmut += 1
                ok = f.qual in allowed
                if ok and f.qual != assign.qual:
                    p = parent(node)
                    ok = kind == "assign" and isinstance(p, (ast.Assign, ast.AnnAssign)) and isinstance(p.value, ast.List) and not p.value.elts
                rep.ob("C04.R2", fkey(tree, f, f"{kind}:{norm(node)[:50]}"), ok, where(f, node),
                       f"mutation `{kind}` of the connection list in {f.short}" + ("" if ok else " - outside the assignment pass / not a reset to []"))
        rep.floor("C04.R2", f"mutation sites of _connections ({tree})", nmut, 3)
        # R5
        init = pool.methods["__init__"]
        stores = [n for n in own_nodes(init.node) if isinstance(n, ast.Assign) and norm(n.targets[0]) == "self._max_connections"]
        ok = len(stores) == 1
        if ok:
            v = stores[0].value
            from ..norm import run_to as _run_to

            def _val(m):
                env_ = {"max_connections": m, "sys.maxsize": 10**9}
                _run_to(init.node.body, stores[0], env_)      # locals that carry the limit to the store
                return peval(v, env_)
            vals = {m: _val(m) for m in (None, 1, 7)}
            ok = vals == {None: 10**9, 1: 1, 7: 7}
        rep.ob("C04.R5", fkey(tree, init, "self._max_connections"), ok, where(init, stores[0] if stores else None),
               f"`self._max_connections` <- {[ast.unparse(s.value) for s in stores]}")
        _one_stream(ctx, tree, N)
        _failure_flag(ctx, tree, N)
        from .c06 import closed_store_paired

        closed_store_paired(ctx, "C04.R6", tree, N)
        from .c06 import _r6 as closed_predicates

        closed_predicates(ctx, tree, N, "C04.R6")


def _one_stream(ctx: Context, tree: str, N: Names) -> None:
    rep = ctx.rep
    n = 0
    for s, op in net_sites(ctx, N.functions()):
        if op not in ("connect_tcp", "connect_unix_socket"):
            continue
        n += 1
        owner = s.owner
        # the guarded region is either around the site itself or around every call of the private helper containing it
        sites: list[tuple[FuncInfo, ast.AST]] = []
        if owner.name.startswith("_") and not owner.name.startswith("__"):
            for cs in ctx.callgraph.callers_of(owner):
                if cs.kind == "call":
                    sites.append((cs.owner, cs.node))
        else:
            sites.append((owner, s.node))
        if not sites:
            rep.ob("C04.R3", fkey(tree, owner, f"{op}"), False, where(owner, s.node), "socket-opening helper has no caller")
        for g, node in sites:
            atoms = set()
            for test, pol in guards_of(node):
                for atom, p in conj_atoms(test, pol):
                    atoms.add((norm(atom), p))
            guarded = ("self._connectionisNone", True) in atoms or ("self._connectionisnotNone", False) in atoms
            locks = [norm(item.context_expr) for w, item in enclosing_withs(node) if "lock" in norm(item.context_expr)]
            ok = guarded and bool(locks)
            detail = f"`{op}` reached in {g.short} with guards {sorted(a for a, p in atoms if p)} under locks {locks}"
            if ok:
                # every normal path from the opening site to the lock release stores the inner connection
                cfg = ctx.cfg(g)
                start = cfg.nodes_for(node)
                lock_items = [item for w, item in enclosing_withs(node) if "lock" in norm(item.context_expr)]
                exits = [x for x in cfg.nodes if x.kind == "with_exit" and x.item is lock_items[0]]
                def is_store(x) -> bool:
                    return x.ast is not None and x.kind == "stmt" and isinstance(x.ast, (ast.Assign, ast.AnnAssign)) and any(
                        isinstance(t, ast.Attribute) and norm(t) == "self._connection" for t in ast.walk(x.ast) if isinstance(getattr(t, "ctx", None), ast.Store))
                reach = cfg.reachable(start, follow=lambda e: e.kind != "exc", stop=is_store)
                leak = [x for x in exits if x.id in reach and not any(e.kind in ("ret",) for e in x.pred)]
                ok = not leak
                detail += "; inner connection stored on every normal path to the lock release" if ok else "; a normal path releases the lock without storing the inner connection (a second caller would open a second socket)"
            rep.ob("C04.R3", fkey(tree, g, f"{op}"), ok, where(g, node), detail)
    rep.floor("C04.R3", f"socket-opening call sites ({tree})", n, 3)


def _failure_flag(ctx: Context, tree: str, N: Names) -> None:
    rep = ctx.rep
    found = 0
    for f in N.functions():
        for n in own_nodes(f.node):
            if isinstance(n, ast.ExceptHandler) and any(
                    isinstance(s, ast.Assign) and norm(s.targets[0]) == "self._connect_failed" and isinstance(s.value, ast.Constant) and s.value.value is True
                    for s in ast.walk(n)):
                found += 1
                cfg = ctx.cfg(f)
                hn = cfg._by_ast.get(id(n))
                if not hn:
                    continue
                # a private helper that is only ever called from inside the establishment region IS part of it
                helper_inside = False
                if f.name.startswith("_") and not f.name.startswith("__"):
                    css = [cs for cs in ctx.callgraph.callers_of(f) if cs.kind == "call"]
                    def _site_inside(cs) -> bool:
                        at = set()
                        for test, pol in guards_of(cs.node):
                            for atom, p in conj_atoms(test, pol):
                                at.add((norm(atom), p))
                        return ("self._connectionisNone", True) in at
                    helper_inside = bool(css) and all(_site_inside(cs) for cs in css)
                # ... but then the flag may be stored only on the way OUT: a store from which the attempt loop is re-entered marks a connection that is still retrying
                loops = [l for l in own_nodes(f.node) if isinstance(l, (ast.While, ast.For)) and any(x is n for x in ast.walk(l))]
                if loops:
                    stores = [x for x in cfg.nodes if x.ast is not None and x.kind == "stmt" and isinstance(x.ast, ast.Assign) and norm(x.ast.targets[0]) == "self._connect_failed"
                              and any(y is x.ast for y in ast.walk(n))]
                    lh = cfg._by_ast.get(id(loops[-1]))
                    again = []
                    if lh:
                        for sn_ in stores:
                            # tests the store itself stands under hold on the way on (same expression, nothing in between re-binds it before the give-up test)
                            held = {(norm(getattr(t_, "_orig", t_)), pol_) for t_, pol_ in guards_of(sn_.ast) if any(y is t_ or y is getattr(t_, "_orig", None) for y in ast.walk(n))}

                            def follow_(e_) -> bool:
                                if e_.kind == "exc":
                                    return False
                                a_ = e_.src.ast
                                if isinstance(a_, ast.If) and e_.kind in ("t", "f"):
                                    tt = norm(a_.test)
                                    if (tt, e_.kind != "t") in held:
                                        return False
                                return True
                            r_ = cfg.reachable([e_.dst for e_ in sn_.succ if e_.kind != "exc"], follow=follow_)
                            if lh[0].id in r_:
                                again.append(sn_)
                    rep.ob("C04.R4", fkey(tree, f, "flag-only-when-giving-up"), not again, where(f, again[0].ast if again else n),
                           "inside the attempt loop the failure flag is stored only on paths that leave the loop" if not again else
                           f"`{again[0].text()}` is followed by another attempt: while the connection is backing off / retrying it reports closed, the pool forgets it - and the attempt that "
                           "then succeeds opens a stream nobody owns")
                outside = []
                for e in ([] if helper_inside else hn[0].pred):
                    src = e.src
                    anchor = src.ast.context_expr if isinstance(src.ast, ast.withitem) else src.ast
                    atoms = set()
                    for test, pol in guards_of(anchor):
                        for atom, p in conj_atoms(test, pol):
                            atoms.add((norm(atom), p))
                    inside = ("self._connectionisNone", True) in atoms
                    if not inside and src.kind in ("with_exc_exit",):
                        # exceptions passing through a lock/trace exit come from nodes that were checked themselves
                        inside = all(_inside(p.src) for p in src.pred if p.kind == "exc") and not any(
                            s.cls == "Cancelled" and "exit" in s.origin for s in [])
                    if not inside:
                        outside.append(src)
                for src in outside:
                    rep.ob("C04.R4", fkey(tree, f, f"flag-covers:{src.kind}:{norm(src.ast.context_expr if isinstance(src.ast, ast.withitem) else src.ast)[:60]}"),
                           False, where(f, src.ast),
                           f"a fault at `{src.text()}` ({sorted(src.raises.classes())}) - outside the `self._connection is None` establishment region - "
                           "sets the connect-failed flag: a cancelled lock waiter marks a connection that another request is still establishing as failed, "
                           "the pool drops it while it is live")
                if not outside:
                    rep.ob("C04.R4", fkey(tree, f, "flag-handler"), True, where(f, n), "failure flag handler covers only establishment fault points")
    rep.floor("C04.R4", f"handlers setting the establishment-failure flag ({tree})", found, 2)


def _inside(node) -> bool:
    anchor = node.ast.context_expr if isinstance(node.ast, ast.withitem) else node.ast
    if anchor is None:
        return False
    for test, pol in guards_of(anchor):
        for atom, p in conj_atoms(test, pol):
            if (norm(atom), p) == ("self._connectionisNone", True):
                return True
    if node.kind == "with_exc_exit":
        return all(_inside(p.src) for p in node.pred if p.kind == "exc")
    return False


_core_run = run


def run(ctx: Context) -> None:  # noqa: F811
    _core_run(ctx)
    from . import support

    ctx.rep.rule('C04.R7', 'lazy establishment is a test-and-set under the establishment lock (the `is None` / `not connected` test is evaluated inside the lock region that installs the connection)')
    support.establish_test_and_set(ctx, 'C04.R7')
    from . import support as _support

    ctx.rep.rule('C04.R8', 'async tree: every test / suspension / write sequence on a field of a task-shared object is one critical section of an async lock that all writers of the field hold')
    _support.await_atomicity_census(ctx, 'C04.R8')


_core_run_r9 = run


def run(ctx: Context) -> None:  # noqa: F811
    _core_run_r9(ctx)
    from .c07 import locks_for

    rep = ctx.rep
    rep.rule("C04.R9", "sync tree: the bound `len(connections) <= max_connections` is checked and consumed in ONE critical section - every run of the "
                       "assignment pass (the only routine that grows the list) holds the pool lock, so two threads cannot both see room for one more")
    tree = "sync"
    N = ctx.names(tree)
    L = locks_for(ctx, tree)
    pool = N.cls("connection_pool", "AsyncConnectionPool")
    lock_name = f"{pool.name}._optional_thread_lock"
    n = 0
    for f in N.functions():
        for c in own_nodes(f.node):
            if isinstance(c, ast.Call) and isinstance(c.func, ast.Attribute) and c.func.attr == "_assign_requests_to_connections":
                n += 1
                held = L.must_hold(c, f)
                ok = lock_name in held
                rep.ob("C04.R9", fkey(tree, f, f"assignment-pass-under-lock:{_occ9(c, f)}"), ok, where(f, c),
                       f"the assignment pass runs holding {sorted(held)}" if ok else
                       f"the assignment pass is called in {f.short} WITHOUT the pool lock `{lock_name}` (held: {sorted(held)}): two threads can each find `len(connections) < max_connections` "
                       "and both append - the pool exceeds its limit")
    rep.floor("C04.R9", "calls of the assignment pass (sync)", n, 3)


def _occ9(node: ast.AST, f: FuncInfo) -> int:
    same = [x for x in own_nodes(f.node) if isinstance(x, ast.Call) and isinstance(x.func, ast.Attribute) and x.func.attr == "_assign_requests_to_connections"]
    same.sort(key=lambda x: (x.lineno, x.col_offset))
    return next((i for i, x in enumerate(same) if x is node), 0)
