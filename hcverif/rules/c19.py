"""C19 - URL, origin and default-header semantics."""
from __future__ import annotations

import ast

from ..context import Context
from ..guards import guards_of
from ..load import AnalysisError, FuncInfo, Names, chain, norm, own_nodes, parent
from ..norm import UNKNOWN, guard_atoms, peval
from .common import fkey, trees, where

REGISTERED = {b"http": 80, b"https": 443, b"ws": 80, b"wss": 443, b"socks5": 1080, b"socks5h": 1080, b"ftp": 21}
# components each stdlib split function separates from the path
PARSER_COMPONENTS = {"urlparse": {"path", "params", "query"}, "urlsplit": {"path", "query"}}
FORBIDDEN_COMPONENTS = {"fragment", "username", "password", "netloc"}


def run(ctx: Context) -> None:
    rep = ctx.rep
    rep.explanation = (
        "R1 table agreement: DEFAULT_PORTS and the origin table are read as literals; they agree on common keys, cover the schemes the pool "
        "accepts and the proxy schemes, and match the registered defaults. R2 field coverage: Origin/URL equality, URL.__bytes__ and "
        "Origin.__str__ reference exactly the fields the constructors set. R3 ASCII enforcement: every text parameter (bytes | str, URL | "
        "bytes | str, header types, credential tuples) of the public model, pool and request-interface entry points is used only as an "
        "argument of enforce_* (or in a None / truthiness test). R4 component coverage: the stdlib split function fixes the component set "
        "(urlparse: path, params, query; urlsplit: path, query); the target expression must read all of them and none of fragment / "
        "userinfo. R5 host-form typestate: `.hostname` yields an unbracketed host, so every authority-formatting sink (Host value, "
        "URL.__bytes__, CONNECT target) needs a bracketing step for hosts containing ':'. R6 the Host header carries the port iff it is set "
        "and differs from the scheme's default (truth table). R7 no lossy container on the value path of the header helpers. RFC 3986 "
        "conformance of urllib and round-trip for all inputs are not decided."
    )
    for r, t in (("C19.R1", "default-port tables agree and cover the supported schemes"), ("C19.R2", "equality / serialisation cover exactly the constructor's fields"),
                 ("C19.R3", "text arguments reach storage only through enforce_*"), ("C19.R4", "request target reads every component the parser separates"),
                 ("C19.R5", "authority formatting brackets IPv6 literals"), ("C19.R6", "Host carries the port iff non-default"),
                 ("C19.R7", "header order and duplicates preserved")):
        rep.rule(r, t)
    models = ctx.prog.module("httpcore._models")
    # ---- R1
    try:
        dp = ast.literal_eval(models.assigns["DEFAULT_PORTS"])
    except Exception as exc:  # noqa: BLE001
        raise AnalysisError(f"DEFAULT_PORTS is not a literal: {exc}") from exc
    origin_f = ctx.prog.func("httpcore._models", "URL.origin")
    tables = [n for n in own_nodes(origin_f.node) if isinstance(n, ast.Dict)]
    if not tables:
        raise AnalysisError("anchor vanished: origin default-port table")
    ot = ast.literal_eval(tables[0])
    common = set(dp) & set(ot)
    rep.ob("C19.R1", "shared|tables|agree", all(dp[k] == ot[k] for k in common) and len(common) >= 4, where(origin_f, tables[0]), f"DEFAULT_PORTS and the origin table agree on {sorted(common)}")
    rep.ob("C19.R1", "shared|tables|registered", all(REGISTERED.get(k) == v for k, v in list(dp.items()) + list(ot.items())), where(origin_f, tables[0]),
           f"ports match the registered defaults: {ot} / {dp}")
    pool_f = ctx.names("async").func("connection_pool", "AsyncConnectionPool.handle_async_request")
    accepted = set()
    for n in own_nodes(pool_f.node):
        if isinstance(n, ast.Compare) and isinstance(n.ops[0], (ast.NotIn, ast.In)) and norm(n.left) == "scheme" and isinstance(n.comparators[0], (ast.Tuple, ast.List, ast.Set)):
            accepted = {e.value.encode() for e in n.comparators[0].elts if isinstance(e, ast.Constant)}
    rep.ob("C19.R1", "shared|tables|cover-pool-schemes", bool(accepted) and accepted <= set(ot) and accepted <= set(dp), where(pool_f), f"schemes accepted by the pool {sorted(accepted)} are in both tables")
    rep.ob("C19.R1", "shared|tables|cover-proxy-schemes", {b"socks5", b"socks5h", b"http", b"https"} <= set(ot), where(origin_f, tables[0]), "proxy schemes have a default port in the origin table")
    val = next((n for n in own_nodes(origin_f.node) if isinstance(n, ast.Call) and norm(n.func) == "Origin"), None)
    okp = val is not None and {k.arg: norm(k.value) for k in val.keywords} == {"scheme": "self.scheme", "host": "self.host", "port": "self.portordefault_port"}
    rep.ob("C19.R1", "shared|URL.origin|fills-default", okp, where(origin_f, val), "origin = (scheme, host, port or default port)")
    # ---- R2
    for cname, fields, meths in (("Origin", ["scheme", "host", "port"], ["__eq__", "__str__"]), ("URL", ["scheme", "host", "port", "target"], ["__eq__", "__bytes__"])):
        c = models.classes[cname]
        init = c.methods["__init__"]
        set_fields = sorted({n.attr for n in own_nodes(init.node) if isinstance(n, ast.Attribute) and isinstance(n.ctx, ast.Store) and norm(n.value) == "self"})
        rep.ob("C19.R2", f"shared|{cname}.__init__|fields", set_fields == sorted(fields), where(init), f"{cname} sets fields {set_fields}")
        for mname in meths:
            m = c.methods[mname]
            used = sorted({n.attr for n in own_nodes(m.node) if isinstance(n, ast.Attribute) and norm(n.value) == "self" and n.attr in set_fields})
            ok = used == set_fields
            if mname == "__eq__":
                other = sorted({n.attr for n in own_nodes(m.node) if isinstance(n, ast.Attribute) and norm(n.value) == "other"})
                pairs = {(norm(cmp.left), norm(cmp.comparators[0])) for cmp in own_nodes(m.node) if isinstance(cmp, ast.Compare) and isinstance(cmp.ops[0], ast.Eq)}
                ok = ok and other == set_fields and all((f"self.{f}", f"other.{f}") in pairs or (f"other.{f}", f"self.{f}") in pairs for f in set_fields)
                ok = ok and any(isinstance(x, ast.Call) and norm(x.func) == "isinstance" for x in own_nodes(m.node))
                ands = [b for b in own_nodes(m.node) if isinstance(b, ast.BoolOp)]
                ok = ok and all(isinstance(b.op, ast.And) for b in ands)
            rep.ob("C19.R2", f"shared|{cname}.{mname}|covers-fields", ok, where(m), f"{cname}.{mname} uses {used}; must cover {set_fields}")
    # ---- R3
    _r3(ctx)
    # ---- R4
    uinit = models.classes["URL"].methods["__init__"]
    parse_calls = [c for c in own_nodes(uinit.node) if isinstance(c, ast.Call) and (chain(c.func) or [""])[-1] in PARSER_COMPONENTS]
    if len(parse_calls) != 1:
        raise AnalysisError(f"anchor vanished: URL parsing call in URL.__init__ ({len(parse_calls)} found)")
    parser = (chain(parse_calls[0].func) or [""])[-1]
    # what is parsed is the WHOLE url argument after the ASCII / type check (a check per kept component would let non-ASCII text
    # through in the parts the parse discards: fragment, userinfo)
    pin = parse_calls[0].args[0] if parse_calls[0].args else None
    psrc = sorted({norm(a) for a in ([pin] if isinstance(pin, ast.Call) else ctx.prov.expand(pin, uinit, parse_calls[0], depth=1))}) if pin is not None else []
    rep.ob("C19.R4", "shared|URL.__init__|parse-input", psrc == ["enforce_bytes(url,name='url')"], where(uinit, parse_calls[0]),
           f"{parser}() is applied to {psrc}" + ("" if psrc == ["enforce_bytes(url,name='url')"] else " - not to the type- and ASCII-checked whole argument `enforce_bytes(url, name='url')`: "
           "text that the parse throws away (fragment, userinfo) is never checked, so a non-ASCII str URL is accepted"))
    # the local that holds the parse result (whatever it is called)
    pa = parent(parse_calls[0])
    pv = norm(pa.targets[0]) if isinstance(pa, ast.Assign) and len(pa.targets) == 1 and isinstance(pa.targets[0], ast.Name) else "parsed"
    # the value stored as the target, with local temporaries (`path = parsed.path or b"/"`) expanded
    cand = [n for n in own_nodes(uinit.node) if isinstance(n, ast.Assign) and norm(n.targets[0]) == "self.target"]
    expanded = {id(n): (ctx.prov.expand(n.value, uinit, n, pure=True) or [n.value]) for n in cand}
    tstore = [n for n in cand if any(pv in norm(a) for a in expanded[id(n)])]
    read = {a.attr for st in tstore for alt in expanded[id(st)] for a in ast.walk(alt) if isinstance(a, ast.Attribute) and norm(a.value) == pv}
    # a target built up by conditional `+=` steps: the components are read by the steps as well
    for st in tstore:
        if isinstance(st.value, ast.Name):
            for au in own_nodes(uinit.node):
                if isinstance(au, ast.AugAssign) and norm(au.target) == norm(st.value):
                    read |= {a.attr for a in ast.walk(au.value) if isinstance(a, ast.Attribute) and norm(a.value) == pv}
                    read |= {a.attr for g_ in guards_of(au) for a in ast.walk(g_[0]) if isinstance(a, ast.Attribute) and norm(a.value) == pv}
    need = PARSER_COMPONENTS[parser]
    ok = bool(tstore) and need <= read and not (read & FORBIDDEN_COMPONENTS)
    rep.ob("C19.R4", "shared|URL.__init__|target-components", ok, where(uinit, tstore[0] if tstore else None),
           f"{parser}() separates {sorted(need)}; the target reads {sorted(read)}" + ("" if ok else f" - missing {sorted(need - read)}: that part of the URL never reaches the request target"))
    if tstore:
        v = expanded[id(tstore[0])][0]
        rows = {}
        from ..norm import run_to as _run_to

        for path, query in ((b"", b""), (b"/p", b""), (b"/p", b"q=1"), (b"", b"q")):
            env_ = {f"{pv}.path": path, f"{pv}.query": query, f"{pv}.params": b"", "url": b"u"}
            if isinstance(tstore[0].value, ast.Name) and _run_to(uinit.node.body, tstore[0], env_) == "hit":
                got = peval(tstore[0].value, env_)         # built up step by step: interpret the routine up to the store
            else:
                got = peval(v, env_)
            want = (path or b"/") + (b"?" + query if query else b"")
            if got is UNKNOWN or got != want:
                rows[f"path={path!r},query={query!r}"] = f"{got!r} (want {want!r})"
        rep.ob("C19.R4", "shared|URL.__init__|target-shape", not rows, where(uinit, tstore[0]), "target = (path or '/') + ('?' + query if query)" if not rows else f"target deviates: {rows}")
    hs = [n for n in own_nodes(uinit.node) if isinstance(n, ast.Assign) and norm(n.targets[0]) in ("self.scheme", "self.host", "self.port") and pv in norm(n.value)]
    got = {norm(n.targets[0]): norm(n.value).replace(pv + ".", "parsed.") for n in hs}
    rep.ob("C19.R4", "shared|URL.__init__|authority-components", got == {"self.scheme": "parsed.scheme", "self.host": "parsed.hostnameorb''", "self.port": "parsed.port"}, where(uinit),
           f"scheme/host/port <- {got}")
    # ---- R5 host form
    _r5(ctx)
    _authority_grid(ctx)
    # ---- R6  (decided by interpreting include_request_headers up to its return for a grid of inputs - independent of how the
    #           Host value is computed: if/else, conditional expression, helper ...)
    from ..norm import run_to

    inc = ctx.prog.func("httpcore._models", "include_request_headers")
    rets = [r for r in own_nodes(inc.node) if isinstance(r, ast.Return) and r.value is not None]
    if not rets:
        raise AnalysisError("anchor vanished: return of include_request_headers")

    def _reach(env0: dict) -> tuple[ast.Return | None, dict]:
        """the return that the routine reaches for this input (several returns: the one whose path conditions hold)"""
        for r_ in sorted(rets, key=lambda x: x.lineno):
            e_ = {k_: (list(v_) if isinstance(v_, list) else v_) for k_, v_ in env0.items()}
            if run_to(inc.node.body, r_, e_) == "hit":
                return r_, e_
        return None, env0
    rows = {}
    located = 0
    for port in (None, 0, 80, 8080, 443):
        for default in (80, 443, None):
            env: dict = {"headers": [(b"accept", b"*/*")], "content": None, "url.host": b"example.com", "url.port": port, "url.scheme": b"x",
                         "DEFAULT_PORTS.get(url.scheme)": default, "DEFAULT_PORTS.get(url.scheme,None)": default}
            ret_, env = _reach(env)
            if ret_ is None:
                rows[f"port={port},default={default}"] = "not interpretable"
                continue
            got = peval(ret_.value, env)
            want_host = b"example.com" if (port is None or port == default) else b"example.com:%d" % port
            want = [(b"Host", want_host), (b"accept", b"*/*")]
            located += 1
            if got is UNKNOWN or list(got) != want:
                rows[f"port={port},default={default}"] = f"{got!r} (want {want!r})"
    rep.floor("C19.R6", "port test in include_request_headers", 1 if located else 0, 1)
    rep.ob("C19.R6", "shared|include_request_headers|host-port", not rows, where(inc),
           "Host is host alone iff port is None or the scheme's default, else host:port (15 port/default combinations interpreted, port 0 included)" if not rows else f"Host port rule deviates: {rows}")
    # a caller-supplied Host (any case) is kept and nothing is prepended
    rows2 = {}
    for given in (b"Host", b"host", b"HOST"):
        env = {"headers": [(given, b"mine")], "content": None, "url.host": b"example.com", "url.port": 8080, "url.scheme": b"x", "DEFAULT_PORTS.get(url.scheme)": 80}
        ret_, env = _reach(env)
        got = peval(ret_.value, env) if ret_ is not None else UNKNOWN
        if got is UNKNOWN or list(got) != [(given, b"mine")]:
            rows2[given.decode()] = repr(got)
    rep.ob("C19.R6", "shared|include_request_headers|host-only-if-absent", not rows2, where(inc),
           "Host is prepended only when the caller supplied none (case-insensitive)" if not rows2 else f"a caller-supplied Host header is not respected: {rows2}")
    # ---- R7
    for modname, q in (("httpcore._models", "enforce_headers"), ("httpcore._models", "include_request_headers"), ("httpcore._async.http_proxy", "merge_headers"), ("httpcore._sync.http_proxy", "merge_headers")):
        f = ctx.prog.func(modname, q)
        bad = []
        for r in own_nodes(f.node):
            if isinstance(r, ast.Return) and r.value is not None:
                for alt in ctx.prov.expand(r.value, f, r):
                    for x in ast.walk(alt):
                        lossy = isinstance(x, (ast.Set, ast.SetComp, ast.Dict, ast.DictComp)) or (isinstance(x, ast.Call) and norm(x.func) in ("set", "dict", "sorted", "frozenset", "reversed"))
                        if lossy and not _in_test(x, alt):
                            bad.append(ast.unparse(x)[:60])
        rep.ob("C19.R7", f"shared|{f.short}@{modname.split('.')[1]}|order-preserving", not bad, where(f), "returned header list is built from lists / comprehensions only" if not bad else f"lossy container on the value path: {bad}")


def _in_test(x: ast.AST, root: ast.AST) -> bool:
    """Is x used only to decide membership (inside a Compare or a comprehension condition)?"""
    for n in ast.walk(root):
        if isinstance(n, ast.Compare) and any(y is x for y in ast.walk(n)):
            return True
        if isinstance(n, ast.comprehension) and any(y is x for c in n.ifs for y in ast.walk(c)):
            return True
    return False


TEXT_ANN = ("bytes|str", "URL|bytes|str", "HeaderTypes", "HeadersAsMapping|HeadersAsSequence|None", "tuple[bytes|str,bytes|str]|None")


def _r3(ctx: Context) -> None:
    rep = ctx.rep
    targets: list[FuncInfo] = []
    models = ctx.prog.module("httpcore._models")
    for cn in ("URL", "Request", "Proxy"):
        targets.append(models.classes[cn].methods["__init__"])
    for tree in ("async", "sync"):
        N = ctx.names(tree)
        targets.append(N.func("http_proxy", "AsyncHTTPProxy.__init__"))
        targets.append(N.func("socks_proxy", "AsyncSOCKSProxy.__init__"))
        targets.append(N.func("interfaces", "AsyncRequestInterface.request"))
        targets.append(N.func("interfaces", "AsyncRequestInterface.stream"))
        targets.append(N.func("http_proxy", "AsyncForwardHTTPConnection.__init__"))
        targets.append(N.func("http_proxy", "AsyncTunnelHTTPConnection.__init__"))
    n = 0
    for f in targets:
        for p in f.param_names():
            ann = f.param_annotation(p)
            if ann is None:
                continue
            a = norm(ann)
            if a not in TEXT_ANN and not (p == "proxy_headers" and "Sequence" in a):
                continue
            n += 1
            tracked = {p}
            bad = []
            # names unpacked from the parameter are tracked too
            for st in own_nodes(f.node):
                if isinstance(st, ast.Assign) and isinstance(st.value, ast.Name) and st.value.id in tracked and isinstance(st.targets[0], ast.Tuple):
                    tracked |= {e.id for e in st.targets[0].elts if isinstance(e, ast.Name)}
            for use in own_nodes(f.node):
                if not (isinstance(use, ast.Name) and isinstance(use.ctx, ast.Load) and use.id in tracked):
                    continue
                par = parent(use)
                if isinstance(par, ast.Subscript) and par.value is use:
                    use_, par = par, parent(par)
                else:
                    use_ = use
                if isinstance(par, ast.Call) and norm(par.func).startswith("enforce_") and use_ in par.args:
                    continue
                if isinstance(par, ast.Compare) and all(isinstance(c, ast.Constant) and c.value is None for c in par.comparators):
                    continue
                if isinstance(par, (ast.If, ast.IfExp)) and par.test is use_:
                    continue
                if isinstance(par, ast.Assign) and isinstance(par.targets[0], ast.Tuple) and par.value is use_:
                    continue
                if isinstance(par, ast.keyword) and par.arg in ("content",):
                    continue
                # rebinding the name to its enforced value: `method = enforce_bytes(method, ...)` handled above; pass-through to a
                # function that enforces it itself (include_request_headers takes already enforced values)
                if isinstance(par, ast.keyword) or isinstance(par, ast.Call):
                    rebinds = [st for st in own_nodes(f.node) if isinstance(st, ast.Assign) and norm(st.targets[0]) == use.id and isinstance(st.value, ast.Call)
                               and norm(st.value.func).startswith(("enforce_", "include_request_headers")) and st.lineno < use.lineno]
                    if rebinds:
                        continue
                    if isinstance(par, ast.keyword) and isinstance(parent(par), ast.Call):
                        callee = parent(par)
                        if norm(callee.func) in ("super().__init__",) or (chain(callee.func) or [""])[-1] in ("AsyncHTTPConnection", "HTTPConnection"):
                            continue
                bad.append(f"line {use.lineno}: `{ast.unparse(par)[:70]}`")
            rep.ob("C19.R3", f"shared|{f.short}@{f.module.name.split('.')[-1]}|param:{p}", not bad, where(f),
                   f"text parameter `{p}` is only ever passed to enforce_* / tested" if not bad else f"text parameter `{p}` is used without ASCII enforcement at {bad[:3]}")
    rep.floor("C19.R3", "text parameters of public entry points", n, 25)


def _authority_grid(ctx: Context) -> None:
    """Every authority formatter evaluated for a registered name and for an IPv6 literal that ARRIVES bracketed (explicit URL components, an Origin built by the caller):
    the host is passed through - no second pair of brackets, nothing dropped.  (An unbracketed literal from URL parsing is R5 / KF19.)"""
    from ..norm import UNKNOWN, peval, run_to

    rep = ctx.rep
    rep.rule("C19.R10", "authority formatting evaluated over the host grid {registered name, bracketed IPv6 literal given as an explicit component}: the host appears once, as given")
    mods = [ctx.prog.module("httpcore._models")] + list(ctx.names("async").modules()) + list(ctx.names("sync").modules())
    n_eval = 0
    for m in mods:
        for f in m.all_functions():
            sinks: list[ast.expr] = []
            for n in own_nodes(f.node):
                if isinstance(n, ast.BinOp) and isinstance(n.op, ast.Mod) and isinstance(n.left, ast.Constant) and isinstance(n.left.value, bytes) \
                        and (b"%b:%d" in n.left.value or b"://%b" in n.left.value):
                    sinks.append(n)
                elif isinstance(n, ast.Tuple) and len(n.elts) == 2 and isinstance(n.elts[0], ast.Constant) and n.elts[0].value == b"Host":
                    sinks.append(n.elts[1])
            if not sinks:
                continue
            tree = "async" if "._async" in f.module.name else ("sync" if "._sync" in f.module.name else "shared")
            for sk in sinks:
                outs = {}
                for hv, port in ((b"example.com", 8080), (b"[2001:db8::1]", 8080), (b"example.com", 80), (b"[2001:db8::1]", 80)):      # 80 = the scheme's default port
                    env: dict = {"DEFAULT_PORTS.get(url.scheme)": 80, "DEFAULT_PORTS.get(self.scheme)": 80}
                    for x in own_nodes(f.node):
                        if isinstance(x, ast.Attribute) and x.attr in ("host", "port", "scheme", "target"):
                            env[norm(x)] = {"host": hv, "port": port, "scheme": b"http", "target": b"/"}[x.attr]
                    if run_to(list(f.node.body), sk, env) != "hit":
                        continue
                    v = peval(sk, env)
                    if isinstance(v, bytes) and (hv.strip(b"[]") in v):
                        outs[hv if port == 8080 else hv + b" (default port)"] = v
                if not outs:
                    continue
                n_eval += 1
                bad = {hv: v for hv, v in outs.items() if v.count(hv.split(b" ")[0]) != 1 or b"[[" in v or b"]]" in v or (not hv.startswith(b"[") and b"[" in v)}
                rep.ob("C19.R10", f"{tree}|{f.short}|authority-grid:{norm(sk)[:50]}", not bad, where(f, sk),
                       f"`{ast.unparse(sk)[:60]}` gives {dict((k.decode(), v.decode()) for k, v in outs.items())}" if not bad else
                       f"`{ast.unparse(sk)[:60]}` gives {dict((k.decode(), v.decode()) for k, v in bad.items())}: a host that is already an IP-literal in brackets (explicit URL components, "
                       "an Origin the caller built) is bracketed a second time / altered - the Host header, bytes(URL) and the CONNECT target are malformed authorities")
    rep.floor("C19.R10", "authority formatters evaluated over the host grid", n_eval, 4)


def _r5(ctx: Context) -> None:
    """Authority-formatting sinks: a bytes %-format (or concatenation) that places a `.host` next to a ':' port
    or after '://' must bracket hosts containing ':'."""
    rep = ctx.rep
    sinks: list[tuple[FuncInfo, ast.AST, str]] = []
    mods = [ctx.prog.module("httpcore._models")] + list(ctx.names("async").modules()) + list(ctx.names("sync").modules())
    for m in mods:
        for f in m.all_functions():
            for n in own_nodes(f.node):
                if isinstance(n, ast.BinOp) and isinstance(n.op, ast.Mod) and isinstance(n.left, ast.Constant) and isinstance(n.left.value, bytes):
                    fmt = n.left.value
                    args = n.right.elts if isinstance(n.right, ast.Tuple) else [n.right]

                    def hosty(a: ast.AST) -> bool:
                        # the host attribute itself, an expression over it, or a local bound from it (bracketing helper, conditional)
                        if any(isinstance(x, ast.Attribute) and x.attr == "host" for x in ast.walk(a)):
                            return True
                        return isinstance(a, ast.Name) and any(
                            isinstance(st, ast.Assign) and norm(st.targets[0]) == a.id and any(isinstance(x, ast.Attribute) and x.attr == "host" for x in ast.walk(st.value))
                            for st in own_nodes(f.node))
                    if any(hosty(a) for a in args) and (b"%b:%d" in fmt or b"://%b" in fmt):
                        sinks.append((f, n, "format"))
                elif isinstance(n, ast.Assign) and norm(n.value) == "url.host" and norm(n.targets[0]) == "header_value":
                    sinks.append((f, n, "host-header"))
    rep.floor("C19.R5", "authority-formatting sinks", len(sinks), 4)
    # one obligation per (routine, host expression): how the format is spelt (one literal, two, a conditional expression) is irrelevant
    grouped: dict[tuple[str, str, str], list[tuple[FuncInfo, ast.AST, bool, str]]] = {}
    for f, n, kind in sinks:
        host_args = [a for a in ast.walk(n) if isinstance(a, ast.Attribute) and a.attr == "host"]
        bracketed = False
        if not host_args:
            # through a local: the host attribute and a bracketing form are looked for in the local's bindings
            for a in (n.right.elts if isinstance(n, ast.BinOp) and isinstance(n.right, ast.Tuple) else []):
                if isinstance(a, ast.Name):
                    for st in own_nodes(f.node):
                        if isinstance(st, ast.Assign) and norm(st.targets[0]) == a.id:
                            hs = [x for x in ast.walk(st.value) if isinstance(x, ast.Attribute) and x.attr == "host"]
                            host_args = host_args or hs
                            if hs and ("[%b]" in ast.unparse(st.value) or "b'['" in norm(st.value)):
                                bracketed = True
        for test, pol in guards_of(n):
            if "b':'in" in norm(test):
                bracketed = True
        src = ast.unparse(n)
        if "b'['" in norm(n) or "[%b]" in src:
            bracketed = True
        tree = "async" if "._async" in f.module.name else ("sync" if "._sync" in f.module.name else "shared")
        hx = norm(host_args[0]) if host_args else "?"
        grouped.setdefault((tree, f.short, hx), []).append((f, n, bracketed, src))
    for (tree, short, hx), items in grouped.items():
        bad = [it for it in items if not it[2]]
        f, n, _, src = (bad or items)[0]
        rep.ob("C19.R5", f"{tree}|{short}|unbracketed:{hx}", not bad, where(f, n),
               "authority is formatted with IPv6 bracketing" if not bad else
               f"`{src[:70]}` formats an unbracketed host (URL parsing stores `.hostname`, which strips the brackets): for an IPv6 literal the result is e.g. `::1:8080`, not a valid authority")


_core_run = run


def _value_objects_immutable(ctx: Context) -> None:
    """Census: URL and Origin are value objects - no attribute of one is stored outside its own constructor.  `enforce_url`
    hands the caller's own URL instance through unchanged, so a store into `request.url.<field>` would rewrite the caller's
    object (its next use - comparison, serialisation, another request - no longer agrees with a fresh parse of the same text)."""
    rep = ctx.rep
    funcs = []
    for tree in ("async", "sync"):
        funcs += [(tree, f) for f in ctx.names(tree).functions()]
    for mn in ("httpcore._models", "httpcore._trace", "httpcore._api", "httpcore._utils"):
        try:
            funcs += [("shared", f) for f in ctx.prog.module(mn).all_functions()]
        except Exception:  # noqa: BLE001
            continue
    sites = 0
    scanned = 0
    for tree, f in funcs:
        for n in own_nodes(f.node):
            if not (isinstance(n, ast.Attribute) and isinstance(n.ctx, (ast.Store, ast.Del))):
                continue
            scanned += 1
            ty = ctx.types.expr_type(n.value, f)
            cn = ty[1].name if ty and ty[0] == "cls" else None
            if cn is None:
                # isinstance narrowing anywhere in the function, and "another instance" inside the value classes themselves
                for c in own_nodes(f.node):
                    if isinstance(c, ast.Call) and isinstance(c.func, ast.Name) and c.func.id == "isinstance" and len(c.args) == 2 and norm(c.args[0]) == norm(n.value):
                        names = [norm(e) for e in (c.args[1].elts if isinstance(c.args[1], ast.Tuple) else [c.args[1]])]
                        cn = next((x for x in names if x in ("URL", "Origin")), cn)
                if cn is None and f.cls is not None and f.cls.name in ("URL", "Origin") and n.attr in ("scheme", "host", "port", "target"):
                    cn = f.cls.name
            by_name = norm(n.value).endswith((".url", "_url", ".origin", "_origin")) or norm(n.value) in ("url", "origin")
            if cn not in ("URL", "Origin") and not (cn is None and by_name and n.attr in ("scheme", "host", "port", "target")):
                continue
            if f.short in ("URL.__init__", "Origin.__init__") and norm(n.value) == "self":
                continue
            sites += 1
            rep.ob("C19.R8", fkey(tree, f, f"mutates-url:{norm(n)[:50]}"), False, where(f, n),
                   f"`{ast.unparse(n)}` is stored outside the {cn or 'URL/Origin'} constructor: the object may be the caller's own (enforce_url passes URL instances through), "
                   "so its later uses no longer match a fresh parse of the same text")
    if not sites:
        rep.ob("C19.R8", "both|*|url-origin-immutable", True, "httpcore/", f"no attribute of a URL / Origin is stored outside its constructor ({scanned} attribute stores scanned)")
    rep.floor("C19.R8", "attribute stores scanned", scanned, 50)


def run(ctx: Context) -> None:  # noqa: F811
    _core_run(ctx)
    ctx.rep.rule("C19.R8", "URL and Origin are immutable value objects: no attribute store outside their constructors (the caller's URL instance is passed through as is)")
    _value_objects_immutable(ctx)
    from . import plumb

    ctx.rep.rule('C19.R9', 'a URL / Origin rebuilt from another one copies scheme, host and port from the same-named components of the same object')
    plumb.derived_identity(ctx, 'C19.R9')



_core_run_r11 = run


def run(ctx: Context) -> None:  # noqa: F811
    _core_run_r11(ctx)
    if ctx.rep._borrow is not None:
        return
    from . import support

    ctx.rep.rule("C19.R11", "URL / origin / header code compares values by value: `is` only against None / True / False / UPPER_CASE sentinels "
                            "(the truth tables of R4-R10 read `is` as `==`, which is exact for singletons only)")
    support.identity_tests_on_singletons(ctx, "C19.R11", ("httpcore._models", "httpcore._utils"),
                                         "equal ports / hosts / schemes are in general different objects (ints above 256, bytes), so the test is False for equal values - "
                                         "e.g. an explicit `:443` is no longer recognised as the scheme's default port and appears in Host")
