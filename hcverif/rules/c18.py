"""C18 - sync and async behave identically (translation validation of the generated twin)."""
from __future__ import annotations

import ast
import os

from ..context import Context
from ..load import FUNC_KINDS, AnalysisError, ClassInfo, FuncInfo, Module, chain, loc, norm, own_nodes

PRIMITIVE_PAIRS = ["Lock", "ThreadLock", "Event", "Semaphore", "ShieldCancellation"]
# async-only helpers that are not part of the contract the core code uses
ASYNC_ONLY_METHODS = {"setup"}
# twin bodies in _backends/base.py that legitimately differ (the sync base class sleeps for real)
BASE_BODY_EXCEPTIONS = {("NetworkBackend", "sleep")}


def _dump(n: ast.AST) -> str:
    return ast.dump(n, include_attributes=False)


def _first_diff(a: ast.AST, b: ast.AST, path: str = "") -> tuple[str, ast.AST, ast.AST] | None:
    """Locate the smallest statement-level subtree where two ASTs differ."""
    if _dump(a) == _dump(b):
        return None
    if type(a) is not type(b):
        return (path, a, b)
    name = getattr(a, "name", None)
    here = f"{path}/{name}" if name else path
    for field in a._fields:
        va, vb = getattr(a, field, None), getattr(b, field, None)
        if isinstance(va, list) and isinstance(vb, list):
            if all(isinstance(x, ast.stmt) for x in va + vb) and (va or vb):
                if len(va) != len(vb):
                    for x, y in zip(va, vb):
                        d = _first_diff(x, y, here)
                        if d:
                            return d
                    extra = (va[len(vb):] or vb[len(va):])[0]
                    return (here + f" (statement count {len(va)} vs {len(vb)} in {field})", extra, extra)
                for x, y in zip(va, vb):
                    d = _first_diff(x, y, here)
                    if d:
                        return d
    return (here, a, b)


def _sig(f: FuncInfo) -> list[tuple[str, str, str]]:
    a = f.args
    out = []
    for x in a.posonlyargs + a.args:
        d = f.param_default(x.arg)
        out.append(("pos", x.arg, ast.unparse(d) if d is not None else "<required>"))
    for x in a.kwonlyargs:
        d = f.param_default(x.arg)
        out.append(("kw", x.arg, ast.unparse(d) if d is not None else "<required>"))
    if a.vararg:
        out.append(("*", a.vararg.arg, ""))
    if a.kwarg:
        out.append(("**", a.kwarg.arg, ""))
    return out


def run(ctx: Context) -> None:
    from ..load import Program

    # translation validation compares the files as written: no alpha-normalisation of locals
    ctx = Context(Program(ctx.prog.root, alpha=False), ctx.rep)
    rep, prog = ctx.rep, ctx.prog
    rep.level = "translation_validation"
    rep.explanation = (
        "R1 re-translates every httpcore/_async/*.py with the SUBS table parsed (ast.literal_eval) from scripts/unasync.py "
        "and compares the resulting AST with the committed httpcore/_sync/*.py over whole files (no zip truncation), plus "
        "equality of the file sets; R2 checks that each async/sync primitive pair and each backend twin offers the same "
        "interface (method names and parameters) and that the mock twins are AST-equal after de-async; R3 resolves every "
        "import of every _sync module; R5 compares the hand-written sync/async method pairs that live in shared modules (Response.read/aread, "
        "iter_stream/aiter_stream, close/aclose, ByteStream.__iter__/__aiter__, Trace's context-manager methods) after de-async with string "
        "literals blanked.  Decides the clause 'the synchronous sources are exactly the mechanical translation'; "
        "run-time equality of threading vs anyio/trio primitives is not decided."
    )
    rep.rule("C18.R1", "ast(unasync(httpcore/_async/X.py)) == ast(httpcore/_sync/X.py) for every X, identical file sets")
    rep.rule("C18.R2", "primitive pairs / backend twins agree on method names and parameters; mock twins AST-equal after de-async")
    rep.rule("C18.R3", "every name imported by a _sync module exists in its source module")
    rep.rule("C18.R4", "every backend implementation has exactly the base interface's method signatures")
    rep.rule("C18.R6", "sync and async backends map the same failure kind (timeout / broken connection) of the same operation to the same httpcore exception")
    rep.rule("C18.R5", "hand-written sync/async method pairs of shared classes (Response, ByteStream, Trace) are equal after de-async, string literals aside")

    adir = os.path.join(prog.root, "httpcore", "_async")
    sdir = os.path.join(prog.root, "httpcore", "_sync")
    afiles = sorted(f for f in os.listdir(adir) if f.endswith(".py"))
    sfiles = sorted(f for f in os.listdir(sdir) if f.endswith(".py"))
    rep.floor("C18.R1", "async source files", len(afiles), 8)
    rep.ob("C18.R1", "files|fileset", afiles == sfiles, "httpcore/_sync/",
           f"file sets differ: only async {sorted(set(afiles) - set(sfiles))}, only sync {sorted(set(sfiles) - set(afiles))}"
           if afiles != sfiles else "identical file sets")
    programs = 0
    text_diffs = 0
    samples = []
    for fn in afiles:
        if fn not in sfiles:
            continue
        am = prog.modules[f"httpcore._async.{fn[:-3]}" if fn != "__init__.py" else "httpcore._async"]
        sm = prog.modules[f"httpcore._sync.{fn[:-3]}" if fn != "__init__.py" else "httpcore._sync"]
        translated = "".join(prog.unasync_line(line) for line in am.src.splitlines(keepends=True))
        try:
            ttree = ast.parse(translated)
        except SyntaxError as exc:
            raise AnalysisError(f"translation of {am.relpath} does not parse: {exc}") from exc
        programs += 1
        d = _first_diff(ttree, sm.tree)
        if translated != sm.src:
            text_diffs += 1
        if d is None:
            rep.ob("C18.R1", f"twin|{fn}", True, sm.relpath, "AST equal to translation of async source")
            samples.append({"pair": fn, "async_lines": am.src.count("\n"), "sync_lines": sm.src.count("\n"), "equal": True})
        else:
            path, want, got = d
            rep.ob("C18.R1", f"twin|{fn}", False, f"{sm.relpath}:{getattr(got, 'lineno', 0)}",
                   f"sync differs from translated async in {path or 'module'}: expected "
                   f"`{ast.unparse(want)[:160]}` got `{ast.unparse(got)[:160]}`",
                   {"expected": ast.unparse(want)[:600], "actual": ast.unparse(got)[:600], "in": path})
    if text_diffs:
        rep.note(f"{text_diffs} twin file(s) differ textually but not (necessarily) in AST")
    rep.extra_cov.update({"programs": programs, "disagreements_checked": programs, "twin_samples": samples})

    # R2 primitive pairs
    sync_mod = prog.module("httpcore._synchronization")
    core_async_imports = set()
    for m in ctx.names("async").modules():
        core_async_imports |= {name for name, (mod, sym) in m.imports.items() if mod == "httpcore._synchronization"}
    pairs = 0
    for base in PRIMITIVE_PAIRS:
        a, s = sync_mod.classes.get("Async" + base), sync_mod.classes.get(base)
        if a is None or s is None:
            raise AnalysisError(f"anchor vanished: primitive pair Async{base}/{base} in _synchronization.py")
        pairs += 1
        for mname, mf in a.methods.items():
            if mname in ASYNC_ONLY_METHODS:
                continue
            sname = prog.unasync_line(mname)
            sf = s.methods.get(sname)
            if sf is None and mname == "__init__":
                # object.__init__ is an acceptable twin iff the async constructor takes no arguments
                rep.ob("C18.R2", f"prim|{base}.{sname}", len(_sig(mf)) == 1, s.where,
                       f"{base} has no __init__; Async{base}.__init__ parameters {_sig(mf)}")
                continue
            if sf is None and mname.startswith("_") and not mname.startswith("__"):
                continue        # a private helper of one twin is not part of the surface the two must share
            if sf is None:
                rep.ob("C18.R2", f"prim|{base}.{sname}", False, s.where, f"sync twin {base} lacks method {sname} that Async{base} offers")
                continue
            rep.ob("C18.R2", f"prim|{base}.{sname}", _sig(mf) == _sig(sf), sf.where,
                   f"parameters of Async{base}.{mname} {_sig(mf)} vs {base}.{sname} {_sig(sf)}")
        if "Async" + base not in core_async_imports:
            rep.note(f"primitive Async{base} is not imported by any _async module")
    rep.floor("C18.R2", "primitive pairs", pairs, 5)

    # R2 backend twins in base.py and mock.py
    for modname, exceptions, body_equal in (("httpcore._backends.base", BASE_BODY_EXCEPTIONS, True),
                                            ("httpcore._backends.mock", set(), True)):
        m = prog.module(modname)
        twins = [(c, m.classes.get(prog.unasync_line(n))) for n, c in m.classes.items() if n.startswith("Async")]
        rep.floor("C18.R2", f"twin classes in {m.relpath}", len(twins), 2)
        for ac, sc in twins:
            if sc is None:
                rep.ob("C18.R2", f"twin|{ac.name}", False, ac.where, f"no sync twin for {ac.name}")
                continue
            for mname, mf in ac.methods.items():
                sname = prog.unasync_line(mname)
                sf = sc.methods.get(sname)
                if sf is None:
                    rep.ob("C18.R2", f"twin|{sc.name}.{sname}", False, sc.where, f"{sc.name} lacks {sname}")
                    continue
                ok = _sig(mf) == _sig(sf)
                detail = f"signature {ac.name}.{mname} vs {sc.name}.{sname}"
                if ok and body_equal and (sc.name, sname) not in exceptions:
                    first = min([mf.node.lineno] + [d.lineno for d in mf.node.decorator_list])
                    seg = "".join(m.src.splitlines(keepends=True)[first - 1: mf.node.end_lineno])
                    try:
                        tnode = ast.parse(_dedent("".join(prog.unasync_line(l) for l in seg.splitlines(keepends=True)))).body[0]
                    except SyntaxError as exc:
                        raise AnalysisError(f"cannot translate {mf.qual}: {exc}") from exc
                    ok = _dump(tnode) == _dump(sf.node)
                    detail = f"body of {sc.name}.{sname} equals de-asynced {ac.name}.{mname}"
                rep.ob("C18.R2", f"twin|{sc.name}.{sname}", ok, sf.where, detail)
            for sname in sc.methods:
                if not any(prog.unasync_line(mn) == sname for mn in ac.methods):
                    rep.ob("C18.R2", f"twin|{sc.name}.{sname}", False, sc.methods[sname].where,
                           f"{sc.name}.{sname} has no async counterpart in {ac.name}")

    # R4 backend implementors match base signatures
    base = prog.module("httpcore._backends.base")
    impls = 0
    for iface_name in ("AsyncNetworkStream", "AsyncNetworkBackend", "NetworkStream", "NetworkBackend"):
        iface = base.classes.get(iface_name)
        if iface is None:
            raise AnalysisError(f"anchor vanished: {iface_name} in _backends/base.py")
        for sub in iface.all_subclasses():
            for mname, bf in iface.methods.items():
                sf = sub.methods.get(mname)
                if sf is None:
                    continue
                impls += 1
                ok = _sig(bf) == _sig(sf) and bf.is_async == sf.is_async
                rep.ob("C18.R4", f"impl|{sub.name}.{mname}", ok, sf.where,
                       f"{sub.name}.{mname} signature {_sig(sf)} async={sf.is_async} vs interface {iface_name} {_sig(bf)} async={bf.is_async}")
    rep.floor("C18.R4", "backend method implementations", impls, 30)

    # R5 hand-written sync/async method pairs inside shared modules (not produced by the translator)
    _shared_pairs(ctx)
    # R6 the real backends report the same httpcore class for the same kind of failure
    _backend_agreement(ctx)

    # R3 imports of the sync tree resolve
    nimp = 0
    for m in ctx.names("sync").modules():
        for node in ast.walk(m.tree):
            if isinstance(node, ast.ImportFrom) and node.level > 0:
                absmod = m._abs_module(node.level, node.module)
                for a in node.names:
                    nimp += 1
                    target = prog.modules.get(absmod)
                    ok = False
                    if target is not None:
                        ok = (a.name in target.classes or a.name in target.functions or a.name in target.assigns
                              or a.name in target.imports or f"{absmod}.{a.name}" in prog.modules)
                    elif f"{absmod}.{a.name}" in prog.modules:
                        ok = True
                    rep.ob("C18.R3", f"sync|{m.name}|from {absmod} import {a.name}", ok, loc(m, node),
                           f"`{a.name}` {'found' if ok else 'NOT found'} in {absmod}")
    rep.floor("C18.R3", "relative imports in _sync", nimp, 60)
    rep.assume("threading primitives and anyio/trio primitives behave alike at run time (not decided)")
    rep.assume("scripts/unasync.py applies SUBS line by line with re.sub in table order (re-implemented here, table parsed from the script)")


def _dedent(s: str) -> str:
    import textwrap

    return textwrap.dedent(s)


# pairs whose bodies legitimately differ in structure (each with the reason)
PAIR_EXCEPTIONS = {("Trace", "trace"): "sync callback must NOT return a coroutine, async callback must: the checks are mirror images by design"}


class _Blank(ast.NodeTransformer):
    def visit_Constant(self, n: ast.Constant) -> ast.AST:
        if isinstance(n.value, str):
            return ast.copy_location(ast.Constant(value=""), n)
        return n

    def visit_JoinedStr(self, n: ast.JoinedStr) -> ast.AST:
        return ast.copy_location(ast.Constant(value=""), n)

    def visit_Call(self, n: ast.Call) -> ast.AST:
        # `sep.join([x for x in X])` is `sep.join(X)`: join materialises its argument first.  The async flavour has to spell the comprehension (`async for`), the sync
        # flavour may pass the iterator itself
        self.generic_visit(n)
        if isinstance(n.func, ast.Attribute) and n.func.attr == "join" and len(n.args) == 1 and not n.keywords and isinstance(n.args[0], (ast.ListComp, ast.GeneratorExp)):
            c = n.args[0]
            if len(c.generators) == 1 and not c.generators[0].ifs and isinstance(c.elt, ast.Name) and isinstance(c.generators[0].target, ast.Name) and c.elt.id == c.generators[0].target.id:
                n.args = [c.generators[0].iter]
        return n


def _shared_pairs(ctx: Context) -> None:
    import re
    import textwrap

    rep, prog = ctx.rep, ctx.prog
    npairs = 0
    for modname in ("httpcore._models", "httpcore._trace"):
        m = prog.module(modname)
        lines = m.src.splitlines(keepends=True)
        for c in m.classes.values():
            names = set(c.methods)
            for an, am in c.methods.items():
                sn = prog.unasync_line(an)
                if sn == an and an.startswith("a") and an[1:] in names and am.is_async:
                    sn = an[1:]
                if sn == an or sn not in names:
                    continue
                sm = c.methods[sn]
                npairs += 1
                if (c.name, sn) in PAIR_EXCEPTIONS:
                    rep.ob("C18.R5", f"shared|{c.name}.{sn}|pair", _sig(am) == _sig(sm), sm.where, f"signatures agree; bodies differ by design: {PAIR_EXCEPTIONS[(c.name, sn)]}")
                    continue
                first = min([am.node.lineno] + [d.lineno for d in am.node.decorator_list])
                seg = textwrap.dedent("".join(lines[first - 1: am.node.end_lineno]))
                seg = "".join(prog.unasync_line(l) for l in seg.splitlines(keepends=True))
                # sibling helpers named a<name> (atrace) map to <name>
                for other in names:
                    if other.startswith("a") and other[1:] in names:
                        seg = re.sub(r"\b" + other + r"\b", other[1:], seg)
                try:
                    t = ast.parse(seg).body[0]
                except SyntaxError as exc:
                    raise AnalysisError(f"cannot de-async {am.qual}: {exc}") from exc
                t.name = sn  # type: ignore[attr-defined]
                a_dump = _dump(_Blank().visit(t))
                s_dump = _dump(_Blank().visit(ast.parse(textwrap.dedent("".join(lines[min([sm.node.lineno] + [d.lineno for d in sm.node.decorator_list]) - 1: sm.node.end_lineno]))).body[0]))
                ok = a_dump == s_dump
                detail = f"{c.name}.{sn} equals de-asynced {c.name}.{an} (string literals aside)"
                if not ok:
                    d = _first_diff(_Blank().visit(t), _Blank().visit(ast.parse(textwrap.dedent("".join(lines[sm.node.lineno - 1: sm.node.end_lineno]))).body[0]))
                    if d:
                        detail = f"{c.name}.{sn} differs from de-asynced {c.name}.{an}: async `{ast.unparse(d[1])[:100]}` vs sync `{ast.unparse(d[2])[:100]}` - the two APIs no longer behave alike"
                rep.ob("C18.R5", f"shared|{c.name}.{sn}|pair", ok, sm.where, detail)
    rep.floor("C18.R5", "hand-written sync/async method pairs in shared modules", npairs, 7)


def _backend_agreement(ctx: Context) -> None:
    from .. import boundary as B
    from ..escape import Ctx as ECtx

    rep = ctx.rep
    esc = ctx.escape
    kinds = {"timeout": {"anyio": "TimeoutError", "trio": "trio.TooSlowError", "sync": "socket.timeout"},
             "broken": {"anyio": "anyio.BrokenResourceError", "trio": "trio.BrokenResourceError", "sync": "OSError"}}
    table: dict[tuple[str, str], dict[str, str]] = {}
    for be, modname in (("anyio", "httpcore._backends.anyio"), ("trio", "httpcore._backends.trio"), ("sync", "httpcore._backends.sync")):
        for c in ctx.prog.module(modname).classes.values():
            if c.name.startswith("TLSinTLS"):
                continue
            for f in c.methods.values():
                if f.name not in ("read", "write", "start_tls", "connect_tcp", "connect_unix_socket"):
                    continue
                pairs = None
                for n in ast.walk(f.node):
                    if isinstance(n, (ast.With, ast.AsyncWith)):
                        for it in n.items:
                            p_ = esc._map_of(it, ECtx(f))
                            if p_ is not None:
                                pairs = p_
                if pairs is None:
                    continue
                for kind, src in kinds.items():
                    cls = src[be]
                    got = next((v for k, v in pairs if esc.is_sub(cls, k)), cls)
                    table.setdefault((f.name, kind), {})[be] = got
    n = 0
    for (op, kind), by in sorted(table.items()):
        n += 1
        vals = set(by.values())
        rep.ob("C18.R6", f"backend|{op}|{kind}", len(vals) == 1 and len(by) >= 2, "httpcore/_backends/", f"{op} / {kind}: {by}" + ("" if len(vals) == 1 else
               " - the sync and async APIs raise different exception classes for the same failure"))
    rep.floor("C18.R6", "backend operation x failure kind cells", n, 8)

_core_run = run


def run(ctx: Context) -> None:  # noqa: F811
    _core_run(ctx)
    from . import backend

    ctx.rep.rule('C18.R7', "all real backends answer the same extra-info keys and probe readability on the transport's OS socket, TLS or not")
    backend.extra_info_agreement(ctx, 'C18.R7')
    from . import support

    ctx.rep.rule('C18.R8', 'every coroutine call of the async code is awaited where it is made (an un-awaited coroutine skips an operation the sync twin performs)')
    support.coroutine_calls_awaited(ctx, 'C18.R8')


_core_run_r9 = run


def run(ctx: Context) -> None:  # noqa: F811
    _core_run_r9(ctx)
    import ast as _ast

    from .c07 import locks_for, pool_lock_regions
    from .common import fkey, where

    rep = ctx.rep
    rep.rule("C18.R9", "the one place where the twins are NOT translations of each other - the pool's thread lock, a no-op in the async flavour and a non-reentrant "
                       "threading.Lock in the sync flavour - cannot make them diverge: no path from inside a pool-lock region takes the lock again (the async twin "
                       "would carry on, the sync twin would block for ever)")
    tree = "sync"
    N = ctx.names(tree)
    L = locks_for(ctx, tree)
    regions = pool_lock_regions(ctx, N)
    takers = {f.qual for f, w in regions}
    for i, (f, w) in enumerate(regions):
        inner = []
        for s in ctx.callgraph.sites_in(w, f):
            if any(s.node is it for it in w.items):
                continue
            reach = ctx.callgraph.reachable(s.repo_targets())
            hit = [q for q in reach if q in takers]
            if hit:
                inner.append(f"line {s.lineno}: {s.text()} -> {' -> '.join(x.split(':')[1] for x in reach[hit[0]])}")
        nested = [x for x in _ast.walk(w) if x is not w and isinstance(x, _ast.With) and any(L.lock_id(it.context_expr, f) and L.lock_id(it.context_expr, f)[1] == "threadlock" for it in x.items)]
        rep.ob("C18.R9", fkey(tree, f, f"region-{sum(1 for g, _ in regions[:i] if g is f)}"), not inner and not nested, where(f, w),
               "no path from inside the region re-acquires the pool lock" if not inner and not nested else
               f"the sync twin re-enters its non-reentrant pool lock where the async twin's lock is a no-op: {inner or 'nested with'} - same inputs, the async call returns and the sync call never does")
    rep.floor("C18.R9", "pool-lock regions (sync)", len(regions), 4)



_core_run_r10 = run


def run(ctx: Context) -> None:  # noqa: F811
    _core_run_r10(ctx)
    from . import backend

    ctx.rep.rule("C18.R10", "the thread Event and the async Event accept the same timeout domain and have the same outcome: the caller's timeout bounds the wait (None and inf both mean "
                            "no limit), an unsuccessful wait raises PoolTimeout, a successful one returns - decided on the values that reach threading.Event.wait / fail_after")
    backend.primitives(ctx, "C18.R10", ["AsyncEvent", "Event"])



def backend_tag_census(ctx: Context, rule: str) -> None:
    from .common import where
    """Every string a value of `current_async_library()` is compared with is a tag that function can return.  The thread flavour has no such dispatch: a branch under a
    tag that never occurs is a method that silently does nothing (or answers a constant) in the async flavour only."""
    rep, prog = ctx.rep, ctx.prog
    syn = prog.module("httpcore._synchronization")
    cal = syn.functions.get("current_async_library")
    if cal is None:
        raise AnalysisError("anchor vanished: current_async_library in _synchronization.py")
    tags: set[str] = set()
    for n in own_nodes(cal.node):
        if isinstance(n, ast.Compare) and len(n.ops) == 1 and isinstance(n.ops[0], (ast.NotIn, ast.In)) and isinstance(n.comparators[0], (ast.Tuple, ast.List, ast.Set)):
            tags |= {e.value for e in n.comparators[0].elts if isinstance(e, ast.Constant) and isinstance(e.value, str)}
    if not tags:
        for n in own_nodes(cal.node):
            if isinstance(n, ast.Compare) and len(n.ops) == 1 and isinstance(n.ops[0], ast.Eq) and isinstance(n.comparators[0], ast.Constant) and isinstance(n.comparators[0].value, str):
                tags.add(n.comparators[0].value)
    if not tags:
        raise AnalysisError("cannot determine the tags current_async_library() returns")
    nsites = 0
    for m in prog.modules.values():
        if not m.relpath.startswith("httpcore/") or "/_sync/" in m.relpath:
            continue
        for f in m.all_functions():
            # carriers: locals bound from the call, and `self.<field>` of a class some method of which stores the call's result
            carriers: set[str] = set()
            scope = list(f.cls.methods.values()) if f.cls is not None else [f]
            for g in scope:
                for st in own_nodes(g.node):
                    if isinstance(st, ast.Assign) and isinstance(st.value, ast.Call) and (chain(st.value.func) or [""])[-1] == "current_async_library":
                        for t in st.targets:
                            if isinstance(t, ast.Name) and g is f:
                                carriers.add(t.id)
                            elif isinstance(t, ast.Attribute):
                                carriers.add(norm(t))
            if not carriers:
                continue
            for c in own_nodes(f.node):
                if not (isinstance(c, ast.Compare) and len(c.ops) == 1 and isinstance(c.ops[0], (ast.Eq, ast.NotEq, ast.In, ast.NotIn))):
                    continue
                sides = [c.left, c.comparators[0]]
                car = [s for s in sides if norm(s) in carriers]
                if not car:
                    continue
                other = sides[1] if car[0] is sides[0] else sides[0]
                lits = [other] if isinstance(other, ast.Constant) else (list(other.elts) if isinstance(other, (ast.Tuple, ast.List, ast.Set)) else [])
                for lit in lits:
                    if isinstance(lit, ast.Constant) and isinstance(lit.value, str):
                        nsites += 1
                        ok = lit.value in tags or lit.value == ""
                        rep.ob(rule, f"shared|{f.short}|tag:{lit.value}", ok, where(f, c),
                               f"`{ast.unparse(c)}`: tag {lit.value!r} is one current_async_library() returns" if ok else
                               f"`{ast.unparse(c)}` compares the running library with {lit.value!r}, which current_async_library() never returns ({sorted(tags)}): the branch is dead and the "
                               "method falls through - under that library the async flavour silently does something else than the thread flavour")
    rep.floor(rule, "comparisons of the running-library tag", nsites, 20)


_core_run_r11 = run


def run(ctx: Context) -> None:  # noqa: F811
    _core_run_r11(ctx)
    ctx.rep.rule("C18.R11", "every backend dispatch of the async primitives / AutoBackend tests a tag that current_async_library() can return: no async-only dead branch")
    backend_tag_census(ctx, "C18.R11")
