"""C17 - upgrade / CONNECT hand-over loses no bytes."""
from __future__ import annotations

import ast

from ..context import Context
from ..guards import guards_of
from ..load import AnalysisError, FuncInfo, Names, chain, norm, own_nodes, parent
from ..norm import UNKNOWN, guard_atoms, peval
from .common import calls_named, effective_body, fkey, trees, where
from .lf import split_lossless


def run(ctx: Context) -> None:
    rep = ctx.rep
    rep.explanation = (
        "R1 lossless split: the upgrade stream's read serves the leading data first, returning [:max_bytes] and keeping [max_bytes:] with "
        "the same bound, otherwise delegates unchanged; write / close / start_tls / get_extra_info delegate with their arguments. R2 the "
        "upgrade stream is built from (the connection's network stream, the trailing data h11 had already consumed past the head, read "
        "after the response event); the wrapping condition folds to `status == 101 or (method == CONNECT and 200 <= status <= 299)` and "
        "the wrapped stream is the one exposed in the response extensions. R3 the tunnel upgrades exactly the stream taken from the CONNECT "
        "response's extensions. R4 never pooled: the connection returns to IDLE only under both-h11-sides-DONE (after a switch h11 is never "
        "DONE/DONE), re-checked here."
    )
    for r, t in (("C17.R1", "upgrade stream read/write are lossless"), ("C17.R2", "upgrade stream construction and condition"),
                 ("C17.R3", "tunnel upgrades the handed-over stream"), ("C17.R4", "switched connections are closed, not idled")):
        rep.rule(r, t)
    for tree, N in trees(ctx):
        t = N.t
        up = N.cls("http11", "AsyncHTTP11UpgradeStream")
        rd = up.methods["read"]
        split_lossless(ctx, "C17.R1", tree, rd, "self._leading_data", "leading-data split")
        heads = [n for n in own_nodes(rd.node) if isinstance(n, ast.Assign) and isinstance(n.value, ast.Subscript) and norm(n.value.value) == "self._leading_data" and n.value.slice.lower is None]
        bound = norm(heads[0].value.slice.upper) if heads and isinstance(heads[0].value.slice, ast.Slice) and heads[0].value.slice.upper is not None else "?"
        rets = [r for r in own_nodes(rd.node) if isinstance(r, ast.Return) and r.value is not None]
        served = [r for r in rets if heads and norm(r.value) == norm(heads[0].targets[0])]
        g = guard_atoms(guards_of(served[0])) if served else set()
        rep.ob("C17.R1", fkey(tree, rd, "serve-leading-first"), bound == "max_bytes" and bool(served) and g == {"self._leading_data"}, where(rd),
               f"leading data is served first ([:{bound}]) while any is left (guards {sorted(g)})")
        deleg = [r for r in rets if "self._stream.read" in norm(r.value)]
        okd = len(deleg) == 1 and norm(deleg[0].value).replace("await", "") in ("self._stream.read(max_bytes,timeout)", "self._stream.read(max_bytes,timeout=timeout)") and "not:self._leading_data" in guard_atoms(guards_of(deleg[0]))
        rep.ob("C17.R1", fkey(tree, rd, "delegate-read"), okd, where(rd), "once the leading data is exhausted reads go to the live stream with the same max_bytes and timeout")
        # `start_tls` and `get_extra_info` of the wrapper are not clauses of this property (reads, writes and the hand-over are): how they are spelt is not judged
        for m, want in (("write", ["self._stream.write(buffer,timeout)", "self._stream.write(buffer,timeout=timeout)"]), (t("aclose"), [f"self._stream.{t('aclose')}()"])):
            f = up.methods[m]
            calls = [norm(s.value).replace("await", "") for s in effective_body(f.node.body) if isinstance(s, (ast.Expr, ast.Return)) and s.value is not None and not isinstance(s.value, ast.Constant)]
            rep.ob("C17.R1", fkey(tree, f, "delegates"), len(calls) == 1 and calls[0] in want, where(f), f"{m} -> {calls}")
        init = up.methods["__init__"]
        st = {norm(n.targets[0]): norm(n.value) for n in own_nodes(init.node) if isinstance(n, ast.Assign)}
        rep.ob("C17.R1", fkey(tree, init, "fields"), st == {"self._stream": "stream", "self._leading_data": "leading_data"}, where(init), f"constructor stores {st}")
        # R2
        f11 = N.func("http11", "AsyncHTTP11Connection.handle_async_request")
        ctor = [c for c in own_nodes(f11.node) if isinstance(c, ast.Call) and norm(c.func) == up.name]
        rep.floor("C17.R2", f"upgrade stream construction ({tree})", len(ctor), 1)
        for c in ctor:
            a0 = [norm(a) for a in ctx.prov.expand(c.args[0], f11, c, depth=1)] if c.args else []
            a1 = [norm(a) for a in c.args[1:]]
            rep.ob("C17.R2", fkey(tree, f11, "ctor-args"), a0 == ["self._network_stream"] and a1 == ["trailing_data"], where(f11, c), f"{up.name}({a0}, {a1})")
            rows = {}
            # tests made after the head was received decide the wrap; one that is not about status / method (the kind of stream, a flag ...) makes the wrap conditional on
            # something else: the bytes h11 consumed past the head are then not handed over in that case
            head_line = min([n.lineno for n in own_nodes(f11.node) if isinstance(n, ast.Assign) and "trailing_data" in norm(n.targets[0])] or [0])
            extra = []
            for t, _ in guards_of(c):
                t0 = getattr(t, "_orig", t)
                if "status" in norm(t) or not (getattr(t0, "lineno", 0) > head_line > 0):
                    continue
                # the other branch of that test may hand the bytes over in its own way (prepend them to a stream that already is a wrapper): it must use them
                ifn = parent(t0)
                other = (ifn.orelse if any(x is c for b in ifn.body for x in ast.walk(b)) else ifn.body) if isinstance(ifn, ast.If) and ifn.test is t0 else []
                if other and any(isinstance(x, ast.Name) and x.id == "trailing_data" and isinstance(x.ctx, ast.Load) for b in other for x in ast.walk(b)):
                    continue
                extra.append(norm(t0))
            for status in (100, 101, 102, 199, 200, 204, 299, 300, 404):
                for method in (b"CONNECT", b"GET"):
                    want = status == 101 or (method == b"CONNECT" and 200 <= status <= 299)
                    got: object = UNKNOWN if extra else True
                    for test, pol in guards_of(c):
                        if "status" not in norm(test):
                            continue
                        for alt in ctx.prov.expand(test, f11, c, pure=True):
                            v = peval(alt, {"status": status, "request.method": method})
                            if v is UNKNOWN:
                                got = UNKNOWN
                            elif bool(v) != pol and got is not UNKNOWN:
                                got = False
                    if got is UNKNOWN or bool(got) != want:
                        rows[f"{status},{method.decode()}"] = f"{got} (want {want})"
            rep.ob("C17.R2", fkey(tree, f11, "wrap-condition"), not rows, where(f11, c), "wrapped iff status == 101 or (CONNECT and 2xx)" if not rows else
                   (f"the wrap (and with it the hand-over of the bytes read past the head) also depends on {sorted(set(extra))}: " if extra else "") + f"wrap condition deviates: {rows}")
            asg = parent(c)
            var = norm(asg.targets[0]) if isinstance(asg, ast.Assign) else "?"
            resp = [x for x in own_nodes(f11.node) if isinstance(x, ast.Call) and norm(x.func) == "Response"]
            ext = next((k.value for k in resp[0].keywords if k.arg == "extensions"), None) if resp else None
            if isinstance(ext, ast.Name):
                ea = ctx.prov.expand(ext, f11, resp[0], depth=1)      # the mapping built in a local first
                ext = ea[0] if len(ea) == 1 else ext
            extd = {k.value: norm(v) for k, v in zip(ext.keys, ext.values)} if isinstance(ext, ast.Dict) else {}
            rep.ob("C17.R2", fkey(tree, f11, "exposed-stream"), extd.get("network_stream") == var, where(f11, resp[0] if resp else None), f"extensions['network_stream'] <- {extd.get('network_stream')} (wrapped variable `{var}`)")
        hh = N.func("http11", "AsyncHTTP11Connection._receive_response_headers")
        td = [n for n in own_nodes(hh.node) if isinstance(n, ast.Assign) and "self._h11_state.trailing_data" in norm(n.value)]
        loops = [l for l in own_nodes(hh.node) if isinstance(l, ast.While)]
        # the read happens after the LAST event was taken from h11: no `_receive_event` is reachable from it
        def _after_last_event(a: ast.AST) -> bool:
            g = ctx.cfg(hh)
            ns = g.nodes_for(a)
            if not ns:
                return False
            reach = g.reachable([e.dst for e in ns[0].succ if e.kind != "exc"], follow=lambda e: e.kind != "exc")
            return not any(n.id in reach and n.ast is not None and any(isinstance(x, ast.Call) and norm(x.func) == "self._receive_event" for x in ast.walk(n.ast) if n.kind in ("stmt", "with_enter"))
                           for n in g.nodes)
        ok = bool(td) and bool(loops) and all(_after_last_event(a) for a in td) and isinstance(td[0].targets[0], ast.Tuple) and norm(td[0].targets[0].elts[0]) == "trailing_data"
        rt = [r for r in own_nodes(hh.node) if isinstance(r, ast.Return) and isinstance(r.value, ast.Tuple)]
        all_rets = [r for r in own_nodes(hh.node) if isinstance(r, ast.Return)]
        ok = ok and bool(rt) and len(rt) == len(all_rets)
        if ok:
            # EVERY return hands on what h11 consumed past the head
            alts = sorted({norm(a) for r in rt for a in ctx.prov.expand(r.value.elts[-1], hh, r, depth=1)})
            ok = alts == ["__unpack__(self._h11_state.trailing_data)[0]"]
            if not ok:
                td = td  # keep anchor
                rep.note(f"{tree}: trailing data returned with the head has alternatives {alts}")
        rep.ob("C17.R2", fkey(tree, hh, "trailing-data"), ok, where(hh, td[0] if td else None), "trailing data is read from h11 after the response event and returned with the head" if ok else
               "the trailing data returned with the head is not, on every path, what h11 had consumed past the head (bytes that arrived with the head are dropped from the handed-over stream)")
        # R3
        tf = N.func("http_proxy", "AsyncTunnelHTTPConnection.handle_async_request")
        tls = [c for c in own_nodes(tf.node) if isinstance(c, ast.Call) and isinstance(c.func, ast.Attribute) and c.func.attr == "start_tls"]
        rep.floor("C17.R3", f"tunnel TLS upgrade ({tree})", len(tls), 1)
        for c in tls:
            src = [norm(a) for a in ctx.prov.expand(c.func.value, tf, c, depth=1)]
            rep.ob("C17.R3", fkey(tree, tf, "upgrades-handed-over-stream"), src == ["connect_response.extensions['network_stream']"], where(tf, c), f"start_tls receiver <- {src}")
        # R4
        rc = N.func("http11", "AsyncHTTP11Connection._response_closed")
        idle = [n for n in own_nodes(rc.node) if isinstance(n, ast.Assign) and norm(n.targets[0]) == "self._state" and norm(n.value).endswith(".IDLE")]
        need = {"h11.DONE==self._h11_state.our_state", "h11.DONE==self._h11_state.their_state"}
        rep.ob("C17.R4", fkey(tree, rc, "idle-needs-done-done"), bool(idle) and all(need <= guard_atoms(guards_of(n)) for n in idle), where(rc), "the connection idles only when both h11 sides are DONE (never after a protocol switch)")
    rep.assume("after a 101 / CONNECT-2xx h11's states are SWITCHED_PROTOCOL, never DONE (h11 behaviour)")


_core_run = run


def run(ctx: Context) -> None:  # noqa: F811
    _core_run(ctx)
    from . import support

    ctx.rep.rule('C17.R5', 'reading a response never closes it (the handed-over stream stays live until the caller closes the response)')
    support.read_does_not_close(ctx, 'C17.R5')
