"""C05 - failed and cancelled requests give their pool slot back."""
from __future__ import annotations

import ast

from ..cfg import CFG, Node
from ..context import Context
from ..escape import CANCELLED
from ..faults import escapes_without, kinds, real_exc_edges, real_sources
from ..guards import guards_of
from ..load import AnalysisError, FuncInfo, Names, chain, norm, own_nodes, parent
from ..norm import Sym, guard_atoms, peval
from .c01 import const_name, expanded_return, state_stores
from .common import calls_named, fkey, trees, where


def node_calls(n: Node, pred) -> bool:
    if n.ast is None:
        return False
    a = n.ast
    if isinstance(a, ast.withitem):
        a = a.context_expr
    elif isinstance(a, (ast.If, ast.While)):
        a = a.test
    elif isinstance(a, (ast.For, ast.AsyncFor)):
        a = a.iter
    elif isinstance(a, (ast.ExceptHandler, ast.Try)):
        return False
    return any(isinstance(c, ast.Call) and pred(c) for c in ast.walk(a))


def calls_chain(suffixes: list[list[str]]):
    def pred(c: ast.Call) -> bool:
        ch = chain(c.func)
        return bool(ch) and any(ch[-len(s):] == s for s in suffixes)
    return pred


def try_context(ctx: Context, f: FuncInfo, n: Node) -> str:
    """Region name of a fault point: the handler types of the innermost try whose body contains it."""
    from ..guards import enclosing_trys

    a = n.ast.context_expr if isinstance(n.ast, ast.withitem) else n.ast
    trys = enclosing_trys(a) if a is not None else []
    if not trys:
        return "no-handler"
    types_ = sorted({t for h in trys[0].handlers for t in ctx.escape.handler_types(f.module, h)})
    return "try[" + ",".join(types_) + "]"


def witness(nodes: list[Node]) -> list[str]:
    return [f"line {n.lineno}: {n.text()} {sorted({s.cls for s in real_sources(n)})}" for n in nodes[:8]]


def run(ctx: Context) -> None:
    rep = ctx.rep
    rep.explanation = (
        "Path rules over the exceptional CFG (fault points = every await that can suspend -> Cancelled, network / protocol errors from "
        "callee escape summaries; shield scopes remove Cancelled; configuration faults, narrowing asserts and the infeasible rows are not "
        "fault points). R1: from the queue append of the pool's request routine, and from the idempotence flag store of the pool byte "
        "stream, every exceptional exit passes the queue removal. R2 typestate coverage of the HTTP/1.1 and HTTP/2 request routines: a "
        "fault point after the ACTIVE store (or, where the constructor state is transient - HTTP/1.1 NEW, decided by partially evaluating "
        "is_idle/is_closed/is_available/has_expired - anywhere before it) must not reach the exceptional exit without passing a recovering "
        "call (a method of the class that stores IDLE/CLOSED). R3 establishment marking: in every wrapper with a lazily established inner "
        "connection each fault point of the establishment region (including the establishment lock's own checkpoint) must pass a marking "
        "node (failure flag store or close of the inner connection) before leaving. R4: every suspending await executed inside a "
        "BaseException handler is shielded, lexically or in the callee. R5: stream-slot ownership of the HTTP/2 byte stream is released "
        "exactly once (idempotence flag). One obligation per (function, region, exception kind); individual fault points are witnesses."
    )
    for r, t in (("C05.R1", "queue entry removed on every exceptional exit"),
                 ("C05.R2", "no fault point leaves a connection in a transient state (typestate coverage)"),
                 ("C05.R3", "establishment faults mark the connection failed / close it"),
                 ("C05.R4", "recovery awaits are shielded from cancellation"),
                 ("C05.R5", "response-close runs once per stream (idempotence flag), releasing the slot"),
                 ("C05.R6", "HTTP/2 open-stream table: entries created only at allocation, removed only by response-close (ACTIVE implies an owned stream)")):
        rep.rule(r, t)
    for tree, N in trees(ctx):
        _r1(ctx, tree, N)
        _r2(ctx, tree, N)
        _r3(ctx, tree, N)
        if tree == "async":
            _r4(ctx, tree, N)
        _r5(ctx, tree, N)
        from .c01 import stream_table_census

        stream_table_census(ctx, "C05.R6", tree, N, N.cls("http2", "AsyncHTTP2Connection"))
    rep.assume("anyio/trio shields hold under the runtime's cancellation (library semantics; native asyncio task.cancel() is not decided)")
    rep.assume("stream aclose()/close() does not raise")


def _r1(ctx: Context, tree: str, N: Names) -> None:
    rep = ctx.rep
    f = N.func("connection_pool", "AsyncConnectionPool.handle_async_request")
    cfg = ctx.cfg(f)
    app = [n for n in cfg.nodes if n.kind == "stmt" and node_calls(n, lambda c: norm(c.func) == "self._requests.append")]
    rep.floor("C05.R1", f"queue append in the pool request routine ({tree})", len(app), 1)
    is_remove = lambda n: node_calls(n, lambda c: norm(c.func) == "self._requests.remove")
    for a in app:
        reach = cfg.reachable([e.dst for e in a.succ if e.kind != "exc"], stop=is_remove)
        # fault points in that region whose exception can leave without the removal
        for kind in ("Cancelled", "Exception"):
            bad = [n for n in cfg.nodes if n.id in reach and not is_remove(n) and escapes_without(cfg, n, is_remove, kind)]
            rep.ob("C05.R1", fkey(tree, f, f"queue-pairing:{kind}"), not bad, where(f, bad[0].ast if bad else a.ast),
                   f"every {kind} raised after the queue append passes `_requests.remove`" if not bad else
                   f"{kind} at {witness(bad)} leaves the request in the pool's queue forever (the pool keeps counting it)", witness(bad))
        # normal return hands the entry to the byte stream
        rets = [n for n in cfg.nodes if n.kind == "return" and n.id in reach]
        def hands_over(n: Node) -> bool:
            txt = norm(n.ast)
            if "PoolByteStream(" in txt and "pool_request=pool_request" in txt:
                return True
            # the same argument given by position (resolved against the constructor's parameter list)
            pbs = f.module.classes.get("PoolByteStream")
            init_ = pbs.methods.get("__init__") if pbs is not None else None
            if init_ is not None:
                params_ = [a_.arg for a_ in init_.node.args.args][1:]
                for c_ in ast.walk(n.ast):
                    if isinstance(c_, ast.Call) and norm(c_.func) == "PoolByteStream" and "pool_request" in params_:
                        k_ = params_.index("pool_request")
                        if len(c_.args) > k_ and norm(c_.args[k_]) == "pool_request":
                            return True
            # the stream object built in a temporary first
            for c in ast.walk(n.ast):
                if isinstance(c, ast.Call) and norm(c.func) == "Response":
                    for k in c.keywords:
                        if k.arg == "content":
                            alts = [norm(a) for a in ctx.prov.expand(k.value, f, n.ast, depth=1)]
                            return bool(alts) and all("PoolByteStream(" in a and "pool_request=pool_request" in a for a in alts)
            return False
        ok = bool(rets) and all(hands_over(n) for n in rets)
        rep.ob("C05.R1", fkey(tree, f, "ownership-transfer"), ok, where(f, rets[0].ast if rets else a.ast),
               "normal return wraps the response in PoolByteStream(pool_request=pool_request): its aclose owns the removal")
    # PoolByteStream.aclose
    g = N.func("connection_pool", "PoolByteStream.aclose")
    cfg2 = ctx.cfg(g)
    flag = [n for n in cfg2.nodes if n.kind == "stmt" and isinstance(n.ast, ast.Assign) and norm(n.ast.targets[0]) == "self._closed"]
    rep.floor("C05.R1", f"idempotence flag store in PoolByteStream.aclose ({tree})", len(flag), 1)
    is_remove2 = lambda n: node_calls(n, lambda c: norm(c.func).endswith("._requests.remove"))
    for fl in flag:
        guards = guard_atoms(guards_of(fl.ast))
        rep.ob("C05.R1", fkey(tree, g, "closed-guard"), "not:self._closed" in guards, where(g, fl.ast), f"flag store guarded by {sorted(guards)}")
        reach = cfg2.reachable([e.dst for e in fl.succ if e.kind != "exc"], stop=is_remove2)
        normal_leak = cfg2.exit.id in reach
        bad = [n for n in cfg2.nodes if n.id in reach and not is_remove2(n) and escapes_without(cfg2, n, is_remove2)]
        rep.ob("C05.R1", fkey(tree, g, "remove-after-flag"), not bad and not normal_leak, where(g, bad[0].ast if bad else fl.ast),
               "after the flag is set every path removes the request from the queue" if not bad and not normal_leak else
               f"a path after `_closed = True` skips the removal (fault points {witness(bad)}; normal: {normal_leak}): the request is counted forever", witness(bad))


def _transient_states(ctx: Context, c) -> set[str]:
    """Constants of the class's state enum for which none of is_idle/is_closed/is_available can be true
    and has_expired is false with no deadline armed (partial evaluation of the predicates)."""
    mod = c.module
    enum = mod.classes.get("HTTPConnectionState")
    if enum is None:
        raise AnalysisError(f"anchor vanished: HTTPConnectionState in {mod.relpath}")
    out = set()
    for const in enum.class_assigns:
        env = {"self._state": Sym("HTTPConnectionState." + const), "self._expire_at": None, "time.monotonic()": 1,
               "self._network_stream.get_extra_info('is_readable')": False, "self._connection_error": False, "self._used_all_stream_ids": False,
               "self._h2_state.state_machine.state": Sym("h2.connection.ConnectionState.OPEN")}
        vals = []
        for name in ("is_idle", "is_closed", "is_available", "has_expired"):
            vals.append(peval(expanded_return(ctx, c.methods[name]), env))
        if all(v is False for v in vals):
            out.add(const)
    return out


def _r2(ctx: Context, tree: str, N: Names, rule: str = "C05.R2") -> None:
    rep = ctx.rep
    for mod, cn in (("http11", "AsyncHTTP11Connection"), ("http2", "AsyncHTTP2Connection")):
        c = N.cls(mod, cn)
        f = c.methods[N.t("handle_async_request")]
        cfg = ctx.cfg(f)
        recovering = {m.name for m in c.methods.values() if m.name != "__init__" and any(
            isinstance(s, ast.Assign) and const_name(s.value) in ("IDLE", "CLOSED") for s in state_stores(m))}
        if not recovering:
            raise AnalysisError(f"no recovering method located in {c.qual}")
        is_rec_call = lambda n: node_calls(n, lambda call: (chain(call.func) or [""])[-1] in recovering and (chain(call.func) or [""])[0] == "self")

        def _decides_state(n) -> bool:
            # the same decision written in place (a helper of a later version, expanded here): a test one of whose branches stores IDLE / CLOSED
            if not isinstance(n.ast, ast.If):
                return False
            if any(isinstance(x, ast.Assign) and norm(x.targets[0]) == "self._state" and const_name(x.value) in ("IDLE", "CLOSED")
                   for b in (n.ast.body, n.ast.orelse) for st_ in b for x in ast.walk(st_)):
                return True
            # ... or a test of the connection state itself that leads to a recovering call (`if self._state == NEW: close`): in the other case somebody else owns the state
            return "self._state" in norm(n.ast.test) and any(isinstance(x, ast.Call) and (chain(x.func) or [""])[-1] in recovering and (chain(x.func) or [""])[0] == "self"
                                                              for b in (n.ast.body, n.ast.orelse) for st_ in b for x in ast.walk(st_))
        is_rec = lambda n: is_rec_call(n) or _decides_state(n)
        transient = _transient_states(ctx, c)
        init_state = [const_name(s.value) for s in state_stores(c.methods["__init__"]) if isinstance(s, ast.Assign)]
        entry_transient = bool(init_state) and init_state[0] in transient and init_state[0] != "ACTIVE"
        gate = [n for n in cfg.nodes if n.kind == "stmt" and isinstance(n.ast, ast.Assign) and norm(n.ast.targets[0]) == "self._state" and const_name(n.ast.value) == "ACTIVE"]
        if not gate:
            raise AnalysisError(f"anchor vanished: ACTIVE store in {f.qual}")
        after = cfg.reachable([e.dst for e in gate[0].succ if e.kind != "exc"])
        rep.stat(f"{tree}:{cn}:transient_states", sorted(transient))
        rep.stat(f"{tree}:{cn}:recovering_methods", sorted(recovering))
        regions: dict[tuple[str, str], list[Node]] = {}
        for n in cfg.nodes:
            if not real_sources(n) or is_rec(n):
                continue
            in_after = n.id in after
            if not in_after and not entry_transient:
                continue
            # the gate's own refusal: the state was neither NEW nor IDLE, i.e. owned by somebody else
            if n.kind == "raise" and "ConnectionNotAvailable" in norm(n.ast) and not in_after:
                continue
            for kind in kinds(real_sources(n)):
                if escapes_without(cfg, n, is_rec, kind):
                    region = ("before-gate" if not in_after else "after-gate") + ":" + try_context(ctx, f, n)
                    regions.setdefault((region, kind), []).append(n)
        for region in ("before-gate", "after-gate"):
            for kind in ("Cancelled", "Exception"):
                if not any(r.startswith(region) and k == kind for r, k in regions) and (region == "after-gate" or entry_transient):
                    rep.ob(rule, fkey(tree, f, f"{region}:{kind}"), True, where(f), f"every {kind} fault point {region} passes a recovering call ({sorted(recovering)})")
        for (region, kind), nodes in sorted(regions.items()):
            state = init_state[0] if region.startswith("before-gate") else "ACTIVE"
            rep.ob(rule, fkey(tree, f, f"{region}:{kind}"), False, where(f, nodes[0].ast),
                   f"{kind} at {witness(nodes)} abandons the request with the connection left `{state}` - "
                   f"not idle, not closed, not available, never expiring - and no recovering call ({sorted(recovering)}) on the way out: the pool slot is lost", witness(nodes))


def _ancestors(n):
    p = parent(n) if n is not None else None
    while p is not None:
        yield p
        p = parent(p)


WRAPPERS = [("connection", "AsyncHTTPConnection"), ("socks_proxy", "AsyncSocks5Connection"), ("http_proxy", "AsyncTunnelHTTPConnection")]


def _r3(ctx: Context, tree: str, N: Names, rule: str = "C05.R3") -> None:
    rep = ctx.rep
    for mod, cn in WRAPPERS:
        c = N.cls(mod, cn)
        f = c.methods[N.t("handle_async_request")]
        cfg = ctx.cfg(f)
        # establishment region: nodes guarded by `self._connection is None` / `not self._connected`
        def in_region(n: Node) -> bool:
            a = n.ast.context_expr if isinstance(n.ast, ast.withitem) else n.ast
            if a is None:
                return False
            at = guard_atoms(guards_of(a))
            if isinstance(a, ast.If) and n.kind == "if":
                at = at | set()
            return "None==self._connection" in at or "self._connection==None" in at or "not:self._connected" in at
        region_nodes = [n for n in cfg.nodes if n.ast is not None and in_region(n)]
        if not region_nodes:
            raise AnalysisError(f"anchor vanished: establishment region in {f.qual}")
        lock_items = {id(n.item) for n in cfg.nodes if n.kind == "with_enter" and "lock" in norm(n.item.context_expr) and
                      any(r.lineno >= n.lineno for r in region_nodes) and any(id(x) == id(r.ast) for r in region_nodes for x in ast.walk(parent(n.item)))}
        lock_enter = [n for n in cfg.nodes if n.kind == "with_enter" and id(n.item) in lock_items]
        def is_mark(n: Node) -> bool:
            if n.kind == "stmt" and isinstance(n.ast, ast.Assign) and norm(n.ast.targets[0]) == "self._connect_failed" and norm(n.ast.value) == "True":
                return True
            return node_calls(n, lambda call: norm(call.func) in ("self._connection.aclose", "self._connection.close", "self.aclose", "self.close"))
        def delegated(n: Node) -> bool:
            # faults inside the inner connection's own request routine are recovered by that connection
            return node_calls(n, lambda call: norm(call.func) in ("self._connection.handle_async_request", "self._connection.handle_request"))
        bad: dict[tuple[str, str], list[Node]] = {}
        for n in lock_enter + region_nodes:
            if not real_sources(n) or is_mark(n) or delegated(n):
                continue
            if any(is_mark(m) and cfg.dominates(m, n) and m is not n for m in region_nodes):
                continue  # the connection was already closed / marked on every path to this fault point
            for kind in kinds(real_sources(n)):
                if escapes_without(cfg, n, is_mark, kind):
                    region = "lock-enter" if n in lock_enter else "establishment:" + try_context(ctx, f, n)
                    bad.setdefault((region, kind), []).append(n)
        all_regions = sorted({r for r, _ in bad} | {"lock-enter", "establishment"})
        for region in all_regions:
            for kind in ("Cancelled", "Exception"):
                nodes = bad.get((region, kind), [])
                if region == "lock-enter" and tree == "sync":
                    continue
                if region == "establishment" and any(r.startswith("establishment:") and k == kind for r, k in bad):
                    continue
                rep.ob(rule, fkey(tree, f, f"{region}:{kind}"), not nodes, where(f, nodes[0].ast if nodes else None),
                       f"every {kind} in the {region} region marks the connection failed or closes it" if not nodes else
                       f"{kind} at {witness(nodes)} leaves {c.name} neither established nor marked failed/closed: it stays in the pool "
                       "('CONNECTING' / proxy connection ACTIVE) forever and can never be evicted", witness(nodes))
        rep.stat(f"{tree}:{cn}:establishment_nodes", len(region_nodes))


def _all_awaits_shielded(ctx: Context, f: FuncInfo, depth: int = 3) -> bool:
    cfg = ctx.cfg(f)
    for n in cfg.nodes:
        if not n.may_cancel():
            continue
        # a Cancelled source on an unshielded node: acceptable only if it is a call into a fully shielded callee
        if not _await_ok(ctx, f, n, depth):
            return False
    return True


def _await_ok(ctx: Context, f: FuncInfo, n: Node, depth: int) -> bool:
    if n.shield or not n.may_cancel():
        return True
    if depth <= 0:
        return False
    a = n.ast.context_expr if isinstance(n.ast, ast.withitem) else n.ast
    sites = [s for x in ast.walk(a) for s in ctx.callgraph.sites_at(x) if s.owner is f] if a is not None and not isinstance(n.ast, ast.withitem) else ctx.callgraph.sites_at(n.ast)
    awaited = [s for s in sites if s.kind in ("call", "enter", "exit", "iter") and any(t.is_async for t in s.repo_targets())]
    if not awaited:
        return False
    for s in awaited:
        for t in s.repo_targets():
            if t.is_async and ctx.escape.may_suspend(t) and not _all_awaits_shielded(ctx, t, depth - 1):
                return False
        if any(True for c in s.callees if c.func is None):
            return False
    return True


def _r4(ctx: Context, tree: str, N: Names) -> None:
    rep = ctx.rep
    nh = 0
    shields = 0
    for f in N.functions():
        for n in own_nodes(f.node):
            if isinstance(n, (ast.With,)) and any("ShieldCancellation" in norm(i.context_expr) for i in n.items):
                shields += 1
        handlers = [h for h in own_nodes(f.node) if isinstance(h, ast.ExceptHandler) and "BaseException" in ctx.escape.handler_types(f.module, h)]
        if not handlers:
            continue
        cfg = ctx.cfg(f)
        for h in handlers:
            ids = {id(x) for x in ast.walk(h)}
            nodes = [n for n in cfg.nodes if n.ast is not None and (id(n.ast) in ids) and n.kind != "handler"]
            awaits = [n for n in nodes if n.may_cancel() or (n.shield and any(isinstance(x, ast.Await) for x in ast.walk(n.ast if not isinstance(n.ast, ast.withitem) else n.ast.context_expr)))]
            if not any(isinstance(x, (ast.Await, ast.AsyncWith)) for x in ast.walk(h)):
                continue
            nh += 1
            bad = [n for n in nodes if not _await_ok(ctx, f, n, 3)]
            rep.ob("C05.R4", fkey(tree, f, f"handler-shield:{h.lineno - f.node.lineno}"), not bad, where(f, bad[0].ast if bad else h),
                   "every suspending await of the recovery path is shielded" if not bad else
                   f"recovery await at {witness(bad) or [b.text() for b in bad]} is not inside AsyncShieldCancellation (nor is its callee): a second cancellation abandons the clean-up",
                   [b.text() for b in bad])
    rep.floor("C05.R4", "BaseException handlers with awaits (async)", nh, 6)
    rep.floor("C05.R4", "shield scopes (async)", shields, 7)


def _r5(ctx: Context, tree: str, N: Names) -> None:
    rep = ctx.rep
    for mod, cn in (("http11", "HTTP11ConnectionByteStream"), ("http2", "HTTP2ConnectionByteStream")):
        c = N.cls(mod, cn)
        g = c.methods[N.t("aclose")]
        calls = calls_named(g, "_response_closed")
        rep.floor("C05.R5", f"_response_closed call in {cn}.aclose ({tree})", len(calls), 1)
        for call in calls:
            at = guard_atoms(guards_of(call))
            flag_set = [s for s in own_nodes(g.node) if isinstance(s, ast.Assign) and norm(s.targets[0]) == "self._closed" and norm(s.value) == "True"
                        and s.lineno < call.lineno and "not:self._closed" in guard_atoms(guards_of(s))]
            rep.ob("C05.R5", fkey(tree, g, "close-once"), "not:self._closed" in at and bool(flag_set), where(g, call),
                   "the response-close (slot release / state transition) runs at most once: guarded by the _closed flag set beforehand" if "not:self._closed" in at and flag_set
                   else "response-close is not protected by the _closed idempotence flag: a double close releases the stream slot twice")
        it = c.methods[N.t("__aiter__")]
        hs = [h for h in own_nodes(it.node) if isinstance(h, ast.ExceptHandler)]
        ok = any("BaseException" in ctx.escape.handler_types(it.module, h) and any(
            isinstance(x, ast.Call) and norm(x.func) in ("self.aclose", "self.close") for x in ast.walk(h)) and any(isinstance(x, ast.Raise) for x in h.body) for h in hs)
        rep.ob("C05.R5", fkey(tree, it, "iter-closes-on-failure"), ok, where(it), "a failed or cancelled body read closes the response (BaseException handler -> aclose -> re-raise)")

_core_run = run


def run(ctx: Context) -> None:  # noqa: F811
    _core_run(ctx)
    from . import backend

    ctx.rep.rule('C05.R7', 'the cancellation shield enters and leaves a CancelScope(shield=True) of the running backend')
    backend.shield(ctx, 'C05.R7')
    ctx.rep.explanation = (ctx.rep.explanation or '') + ' R7: the shield class really is a CancelScope(shield=True), entered and exited unconditionally.'
    from . import support

    ctx.rep.rule('C05.R8', "the convenience API lets go of the response on every path: request() closes it in a finally after reading, stream() yields it inside try/finally, Response.aclose() reaches the stream's close")
    support.api_releases(ctx, 'C05.R8')


def _assignment_consumed_or_undone(ctx: Context, rule: str = "C05.R9") -> None:
    """From the moment the request is in the queue ANOTHER task's assignment pass may hand it a connection - possibly one it
    has just created - at any time (`assign_to_connection` is called from the pass, not from the waiter).  The request
    routine must therefore never leave with the assignment unread: either it passes the connection to
    `connection.handle_*request` (the connection's own typestate rules take over), or it inspects / undoes the assignment
    (`pool_request.connection`, `clear_connection()`) on its way out.  A fault point (cancellation, PoolTimeout) after the
    queue append whose exception reaches the exit without such a node abandons a connection that was created for this
    request and never started: not idle, not available, not expired, not closed - the slot is lost for good."""
    rep = ctx.rep
    for tree, N in trees(ctx):
        f = N.func("connection_pool", "AsyncConnectionPool.handle_async_request")
        cfg = ctx.cfg(f)
        app = [n for n in cfg.nodes if n.kind == "stmt" and node_calls(n, lambda c: norm(c.func) == "self._requests.append")]
        if not app:
            continue
        uses = lambda n: node_calls(n, lambda c: (chain(c.func) or [""])[-1] in ("handle_async_request", "handle_request") and (chain(c.func) or [""])[0] == "connection")
        reads = lambda n: n.ast is not None and any(
            (isinstance(x, ast.Attribute) and norm(x) == "pool_request.connection") or
            (isinstance(x, ast.Call) and norm(x.func) == "pool_request.clear_connection") for x in ast.walk(n.ast if not isinstance(n.ast, ast.withitem) else n.ast.context_expr)
            if not isinstance(n.ast, (ast.ExceptHandler, ast.Try)))
        stop = lambda n: uses(n) or reads(n)
        reach = cfg.reachable([e.dst for e in app[0].succ if e.kind != "exc"], follow=lambda e: e.kind != "exc")
        for kind in ("Cancelled", "Exception"):
            bad = [n for n in cfg.nodes if n.id in reach and not uses(n) and n.kind not in ("raise", "reraise") and real_sources(n)
                   and escapes_without(cfg, n, stop, kind)]
            rep.ob(rule, fkey(tree, f, f"assignment-abandoned:{kind}"), not bad, where(f, bad[0].ast if bad else app[0].ast),
                   f"no {kind} after the queue append leaves the routine with the assignment unread" if not bad else
                   f"{kind} at {witness(bad)} leaves the pool's request routine without ever reading `pool_request.connection`: a connection that another task's assignment pass created for "
                   "this request in the meantime is never started and never looked at again - it stays in the pool 'CONNECTING' forever and its slot is lost",
                   witness(bad))


_core_run2 = run


def run(ctx: Context) -> None:  # noqa: F811
    _core_run2(ctx)
    ctx.rep.rule("C05.R9", "an abandoned waiter never leaves behind a connection that was created for it: the assignment is consumed or inspected on every exit")
    _assignment_consumed_or_undone(ctx)
    from . import backend

    ctx.rep.rule('C05.R10', 'the waiter is told the truth: the events report PoolTimeout only when the wait really timed out (a request that was given a connection is not failed)')
    backend.primitives(ctx, 'C05.R10', ['AsyncEvent', 'Event'])
    from . import plumb

    ctx.rep.rule('C05.R11', 'a connection created for a request accepts that request: the origin it is created with is stored unchanged, so the origin gate - which runs before the failure-marking try - cannot reject it (a rejected fresh connection stays CONNECTING forever)')
    plumb.plumbing(ctx, 'C05.R11', ['origin', 'remote_origin'])
