"""C16 - timeouts are applied, and to the right operations."""
from __future__ import annotations

import ast
import re

from ..context import Context
from ..guards import guards_of
from ..load import FuncInfo, chain, kw, norm, own_nodes, parent
from .common import NET_OPS, fkey, in_net_class, net_sites, trees, where

TIMEOUT_RE = re.compile(r"^(?P<req>[\w\.]+)\.extensions\.get\('timeout',\{\}\)\.get\('(?P<k>\w+)'(?P<d>,None)?\)$")
EXCHANGE_CLASSES = ("HTTP11Connection", "HTTP2Connection")


def _request_typed(ctx: Context, req_text: str, scope: FuncInfo) -> bool:
    try:
        e = ast.parse(req_text, mode="eval").body
    except SyntaxError:
        return False
    t = ctx.types.expr_type(e, scope)
    return t[0] == "cls" and t[1].name == "Request"


def _check_arg(ctx: Context, rule: str, tree: str, owner: FuncInfo, call: ast.Call, callee: FuncInfo, allowed: set[str],
               opname: str, forward_kind: str | None) -> None:
    rep = ctx.rep
    construct = norm(call.func) + "@" + opname
    args = ctx.prov.arg(call, callee, owner, "timeout")
    if args is None:
        rep.ob(rule, fkey(tree, owner, construct), False, where(owner, call),
               f"`{ast.unparse(call)[:80]}` is issued without any timeout argument (parameter `timeout` of {callee.short} left at its default None = unlimited)")
        return

    def lift(f: FuncInfo, p: str) -> bool:
        if in_net_class(ctx, f) and f.name in NET_OPS:
            return False  # a stream wrapper's own timeout parameter is a root
        return p == "timeout" or (f.name.startswith("_") and not f.name.startswith("__"))

    bad: list[str] = []
    seen_k: set[str] = set()
    for a in args:
        for term, scope in ctx.prov.roots(a, owner, call, depth=4, lift=lift):
            m = TIMEOUT_RE.match(term)
            if m:
                if not _request_typed(ctx, m.group("req"), scope):
                    bad.append(f"`{term}` in {scope.short}: `{m.group('req')}` is not the function's Request")
                elif m.group("k") not in allowed:
                    bad.append(f"`{term}` in {scope.short}: key '{m.group('k')}' used for a {opname} operation (allowed: {sorted(allowed)})")
                else:
                    seen_k.add(m.group("k"))
                continue
            if term == "timeout" and in_net_class(ctx, scope) and scope.name in NET_OPS and forward_kind is not None \
                    and NET_OPS[scope.name] == forward_kind:
                seen_k.add("forward")
                continue
            bad.append(f"`{term}` (in scope of {scope.short}) is not request.extensions.get('timeout', {{}}).get(<key>, None)")
    rep.ob(rule, fkey(tree, owner, construct), not bad, where(owner, call),
           "; ".join(bad) if bad else f"timeout of `{ast.unparse(call.func)}` <- {sorted(seen_k)}")


def run(ctx: Context) -> None:
    rep = ctx.rep
    rep.explanation = (
        "R1/R2: for every call site that resolves (by type) to a network-stream / backend operation or to the pool's event wait, "
        "the expression bound to the callee's `timeout` parameter (positional, keyword or via the kwargs dict idiom) is expanded "
        "through reaching definitions and through all callers of private helpers; every alternative must be "
        "request.extensions.get('timeout', {}).get(K, None) with `request` typed Request and K the key of the operation's kind "
        "(read / write / connect for connect_* and start_tls / pool; negotiation steps outside the HTTP exchange classes may use any "
        "configured key but not none). R3: in every backend implementation the `timeout` parameter reaches the construct that bounds "
        "the blocking call (fail_after scope enclosing it, settimeout dominating it, or a timeout argument). Decides that each "
        "operation is issued with the right configured limit; the instant at which a timeout fires is not decided."
    )
    rep.rule("C16.R1", "timeout argument of every network operation call site has root request.extensions.get('timeout', {}).get(K, None) with K matching the operation kind; none missing")
    rep.rule("C16.R2", "pool wait sites take the 'pool' key; defaults are None/absent")
    rep.rule("C16.R3", "each backend method applies its timeout parameter to the blocking call")
    rep.rule("C16.R4", "the caller's extensions / timeout mapping is never modified (no mutation through request.extensions or through values nested in a shallow copy of it)")
    prog = ctx.prog
    for tree, N in trees(ctx):
        funcs = N.functions()
        sites = net_sites(ctx, funcs)
        n = 0
        for s, op in sites:
            owner = s.owner
            callee = next(c.func for c in s.callees if c.func is not None and c.func.name == op)
            kind = NET_OPS[op]
            allowed = {kind}
            in_exchange = owner.cls is not None and owner.cls.name.replace("Async", "") in EXCHANGE_CLASSES
            if op in ("read", "write") and not in_exchange and not in_net_class(ctx, owner):
                allowed = {"connect", "read", "write"}  # negotiation step: any configured key, but not none
            _check_arg(ctx, "C16.R1", tree, owner, s.node, callee, allowed, op, kind)
            n += 1
        rep.floor("C16.R1", f"network operation call sites in the {tree} tree", n, 15)
        # pool wait sites
        w = 0
        for f in funcs:
            for s in ctx.callgraph.sites_of(f):
                if s.kind != "call":
                    continue
                tg = [c.func for c in s.callees if c.func is not None and (
                    (c.func.name == "wait" and c.func.cls is not None and c.func.cls.name in ("AsyncEvent", "Event"))
                    or c.func.name == "wait_for_connection")]
                if tg:
                    _check_arg(ctx, "C16.R2", tree, f, s.node, tg[0], {"pool"}, "pool-wait", None)
                    w += 1
        rep.floor("C16.R2", f"pool wait sites in the {tree} tree", w, 2)
    # pass-throughs in the auto backend
    auto = prog.module("httpcore._backends.auto")
    n = 0
    for s, op in net_sites(ctx, auto.all_functions()):
        callee = next(c.func for c in s.callees if c.func is not None and c.func.name == op)
        _check_arg(ctx, "C16.R1", "shared", s.owner, s.node, callee, {NET_OPS[op]}, op, NET_OPS[op])
        n += 1
    rep.floor("C16.R1", "pass-through sites in _backends/auto.py", n, 2)
    _readonly_extensions(ctx)
    _backends(ctx)
    rep.assume("an absent / None timeout means unlimited in anyio.fail_after, trio.fail_after(inf), socket.settimeout (library semantics)")


BLOCKING_SYNC = {"recv", "send", "sendall", "connect", "wrap_socket", "create_connection", "_perform_io", "do_handshake"}


def _uses_timeout(ctx: Context, e: ast.AST, f: FuncInfo, at: ast.AST) -> bool:
    for alt in ctx.prov.expand(e, f, at):
        if any(isinstance(n, ast.Name) and n.id == "timeout" for n in ast.walk(alt)):
            return True
    return False


def _backends(ctx: Context) -> None:
    rep = ctx.rep
    prog = ctx.prog
    count = 0
    targets: list[FuncInfo] = []
    for modname in ("httpcore._backends.anyio", "httpcore._backends.trio", "httpcore._backends.sync"):
        m = prog.module(modname)
        for c in m.classes.values():
            for f in c.methods.values():
                if f.name in NET_OPS and "timeout" in f.param_names():
                    targets.append(f)
    syn = prog.module("httpcore._synchronization")
    for cn in ("AsyncEvent", "Event"):
        c = syn.classes.get(cn)
        if c is not None and "wait" in c.methods:
            targets.append(c.methods["wait"])
    for f in targets:
        cfg = ctx.cfg(f)
        blocking: list[ast.AST] = []
        for n in own_nodes(f.node):
            if isinstance(n, ast.Await):
                inner = n.value
                ch = chain(inner.func) if isinstance(inner, ast.Call) else None
                if ch and ch[-1] in ("aclose", "close"):
                    continue
                blocking.append(n)
            elif not f.is_async and isinstance(n, ast.Call):
                ch = chain(n.func)
                last = ch[-1] if ch else (n.func.attr if isinstance(n.func, ast.Attribute) else "")
                if last in BLOCKING_SYNC or last == "TLSinTLSStream" or (last == "wait" and f.name == "wait"):
                    blocking.append(n)
        if not blocking and not any(isinstance(s, ast.Raise) and "NotImplementedError" in ast.unparse(s) for s in f.node.body):
            rep.ob("C16.R3", fkey("backend", f, "blocking-call"), False, where(f), "no blocking call located in backend method")
            continue
        for b in blocking:
            count += 1
            ok, how = _bounded(ctx, f, cfg, b)
            rep.ob("C16.R3", fkey("backend", f, norm(b)[:80]), ok, where(f, b), how)
    rep.floor("C16.R3", "blocking calls in backend methods and event waits", count, 18)


def _run_to(stmts: list[ast.stmt], target: ast.AST, env: dict, peval, UNKNOWN) -> str:
    """Interpret straight-line code with foldable branches up to the statement containing `target`.
    Returns 'hit' (env is the state just before it), 'miss' (not on this path) or 'unknown'."""
    for st in stmts:
        if any(x is target for x in ast.walk(st)) and not isinstance(st, (ast.If, ast.With, ast.AsyncWith, ast.Try, ast.For, ast.AsyncFor, ast.While)):
            return "hit"
        if isinstance(st, (ast.Assign, ast.AnnAssign)):
            tg = st.targets[0] if isinstance(st, ast.Assign) else st.target
            if isinstance(tg, ast.Name) and getattr(st, "value", None) is not None:
                env[tg.id] = peval(st.value, env)
        elif isinstance(st, ast.If):
            c = peval(st.test, env)
            if c is UNKNOWN:
                if any(x is target for x in ast.walk(st)):
                    return "unknown"
                # both branches may assign: forget what they write
                for x in ast.walk(st):
                    if isinstance(x, ast.Name) and isinstance(x.ctx, ast.Store):
                        env[x.id] = UNKNOWN
                continue
            r = _run_to(st.body if c else st.orelse, target, env, peval, UNKNOWN)
            if r != "miss":
                return r
            if any(x is target for x in ast.walk(st)):
                return "miss"
        elif isinstance(st, (ast.With, ast.AsyncWith)):
            if any(x is target for it in st.items for x in ast.walk(it.context_expr)):
                return "hit"
            r = _run_to(st.body, target, env, peval, UNKNOWN)
            if r != "miss":
                return r
        elif isinstance(st, ast.Try):
            r = _run_to(st.body, target, env, peval, UNKNOWN)
            if r != "miss":
                return r
        elif isinstance(st, (ast.For, ast.AsyncFor, ast.While)):
            if any(x is target for x in ast.walk(st)):
                r = _run_to(st.body, target, env, peval, UNKNOWN)
                return r if r != "miss" else "unknown"
        elif isinstance(st, (ast.Return, ast.Raise)):
            return "miss"
    return "miss"


def _faithful(ctx: Context, e: ast.AST, f: FuncInfo, at: ast.AST) -> str | None:
    """The bound handed to the runtime is the configured value itself: equal to `timeout` for every number - in particular 0,
    which means 'do not wait at all' - and unbounded (None / inf) only for None.  The function is interpreted up to the
    bounding site for timeout in {0, 0.0, 2.5, None} (assignments and foldable branches).  Returns a problem text or None."""
    from ..norm import UNKNOWN, peval

    INF = 10**12
    for v in (0, 0.0, 2.5, None):
        env: dict = {"timeout": v, "float('inf')": INF, 'float("inf")': INF, "math.inf": INF}
        r = _run_to(f.node.body, e, env, peval, UNKNOWN)
        if r != "hit":
            if r == "miss" and v is None:
                continue
            return None if r == "unknown" else None
        got = peval(e, env)
        if got is UNKNOWN:
            return None   # not foldable: left to the name-based test
        if v is None and got not in (None, INF):
            return f"`{ast.unparse(e)}` is {got!r} for an absent timeout (must be unbounded)"
        if v is not None and (got is None or got == INF or got != v):
            return f"`{ast.unparse(e)}` evaluates to {'no limit' if got in (None, INF) else repr(got)} for timeout={v!r}: a configured limit of {v!r} is not applied"
    return None


def _bounded(ctx: Context, f: FuncInfo, cfg, b: ast.AST) -> tuple[bool, str]:
    # (c) the call itself takes the timeout
    call = b.value if isinstance(b, ast.Await) else b
    if isinstance(call, ast.Call):
        for a in list(call.args) + [k.value for k in call.keywords]:
            if _uses_timeout(ctx, a, f, b):
                bad = _faithful(ctx, a, f, b)
                if bad:
                    return False, bad
                return True, f"timeout passed as argument of `{ast.unparse(call.func)}`"
    # (a) enclosing fail_after(T) scope
    p = parent(b)
    while p is not None and p is not f.node:
        if isinstance(p, (ast.With, ast.AsyncWith)):
            for item in p.items:
                ce = item.context_expr
                if isinstance(ce, ast.Call) and (chain(ce.func) or [""])[-1] in ("fail_after", "move_on_after") and ce.args:
                    if _uses_timeout(ctx, ce.args[0], f, p):
                        bad = _faithful(ctx, ce.args[0], f, p)
                        if bad:
                            return False, bad
                        return True, f"inside `{ast.unparse(ce)}`"
                    return False, f"enclosing `{ast.unparse(ce)}` does not take the timeout parameter"
        p = parent(p)
    # (b) settimeout(T) dominating the call, with no other settimeout in between
    nodes = cfg.nodes_for(b)
    if nodes:
        bn = nodes[0]
        setters = []
        for n in cfg.nodes:
            if n.ast is None or n.kind not in ("stmt",):
                continue
            for c in ast.walk(n.ast):
                if isinstance(c, ast.Call) and isinstance(c.func, ast.Attribute) and c.func.attr == "settimeout" and c.args:
                    setters.append((n, c))
        good = [(n, c) for n, c in setters if _uses_timeout(ctx, c.args[0], f, c) and (cfg.dominates(n, bn) or n is bn)]
        wrong = [(n, c) for n, c in setters if not _uses_timeout(ctx, c.args[0], f, c)]
        if good and not wrong:
            bad = _faithful(ctx, good[0][1].args[0], f, good[0][1])
            if bad:
                return False, bad
            return True, f"`{ast.unparse(good[0][1])}` dominates the blocking call"
        if wrong:
            return False, f"`{ast.unparse(wrong[0][1])}` does not apply the timeout parameter"
    return False, f"blocking call `{ast.unparse(call)[:70]}` is not bounded by the `timeout` parameter"


MUTATORS = {"update", "pop", "popitem", "clear", "setdefault", "__setitem__", "__delitem__", "append", "extend", "insert", "remove"}
NESTED_ACCESS = (".get(", ".setdefault(", "[")


def _alias_kind(term: str) -> str | None:
    """'direct' = the caller's extensions mapping itself, 'nested' = an object stored inside it (also reachable through a
    shallow copy), None = unrelated / a private copy."""
    if "request.extensions" not in term and "self._request.extensions" not in term:
        return None
    t = term
    if t in ("request.extensions", "self._request.extensions", "pool_request.request.extensions"):
        return "direct"
    # peel one outer nested access: X.get(..) / X.setdefault(..) / X[..]
    import re as _re

    m = _re.match(r"^(?P<base>.*)\.(get|setdefault)\((?P<args>.*)\)$", t) or _re.match(r"^(?P<base>.*)\[(?P<args>[^\]]*)\]$", t)
    if m:
        base = m.group("base")
        if base in ("request.extensions", "self._request.extensions"):
            return "nested"
        # through a shallow copy the nested objects are still the caller's
        if _re.match(r"^(dict\(request\.extensions\)|request\.extensions\.copy\(\)|\{\*\*request\.extensions.*\})$", base):
            return "nested"
        k = _alias_kind(base)
        if k in ("nested", "direct"):
            return "nested"
    return None


def _readonly_extensions(ctx: Context) -> None:
    rep = ctx.rep
    checked = 0
    for tree, N in trees(ctx):
        for f in N.functions():
            if "request" not in f.param_names() and not (f.cls is not None and "_request" in {a.attr for a in ast.walk(f.node) if isinstance(a, ast.Attribute)}):
                continue
            for n in own_nodes(f.node):
                recv = None
                what = ""
                if isinstance(n, ast.Call) and isinstance(n.func, ast.Attribute) and n.func.attr in MUTATORS:
                    recv, what = n.func.value, f".{n.func.attr}()"
                elif isinstance(n, ast.Subscript) and isinstance(n.ctx, (ast.Store, ast.Del)):
                    recv, what = n.value, "[...] ="
                if recv is None:
                    continue
                txt = norm(recv)
                if "extensions" not in txt and not any(isinstance(x, ast.Name) for x in ast.walk(recv)):
                    continue
                kinds = set()
                for alt in ctx.prov.expand(recv, f, n):
                    k = _alias_kind(norm(alt))
                    # `.setdefault(k, default)` on a private shallow copy returns the CALLER's nested object when the key exists
                    if k is None and isinstance(n, ast.Call) and n.func.attr == "setdefault":
                        continue
                    if k:
                        kinds.add(k)
                if not kinds:
                    continue
                checked += 1
                rep.ob("C16.R4", fkey(tree, f, f"mutates-caller-extensions:{norm(n)[:60]}"), False, where(f, n),
                       f"`{ast.unparse(n)[:80]}` modifies {'the caller-supplied extensions mapping' if 'direct' in kinds else 'an object nested in the caller-supplied extensions (a shallow copy shares it)'}: "
                       "the timeouts the caller configured are rewritten for the rest of this request and for every later request that reuses the mapping")
    rep.stat("extension_mutation_sites", checked)
    if not checked:
        rep.ob("C16.R4", "both|*|extensions-read-only", True, "httpcore/", "no code path modifies request.extensions or an object nested in it")


_core_run = run


def _derived_requests(ctx: Context) -> None:
    """A request the library builds on behalf of the caller's request (the proxied request, the tunnel's CONNECT) is sent by
    an inner connection that reads the timeouts from ITS request: the derived request must carry the caller's extensions
    mapping as a whole (the same object, or a copy / spread of all of it) on every path."""
    rep = ctx.rep
    n = 0
    for tree, N in trees(ctx):
        for f in N.functions():
            if "request" not in f.param_names():
                continue
            for c in own_nodes(f.node):
                if not (isinstance(c, ast.Call) and norm(c.func) == "Request"):
                    continue
                n += 1
                ext = kw(c, "extensions")
                key = fkey(tree, f, f"derived-request:{norm(kw(c, 'method')) if kw(c, 'method') is not None else c.lineno}")
                if ext is None:
                    rep.ob("C16.R5", key, False, where(f, c), "a request derived from the caller's request is built without `extensions=`: every network operation it performs runs with timeout=None")
                    continue
                alts = ctx.prov.expand(ext, f, c)
                bad = []
                for a in alts or [ext]:
                    t = norm(a)
                    whole = t in ("request.extensions", "dict(request.extensions)", "request.extensions.copy()", "{**request.extensions}")
                    if not whole and isinstance(a, ast.Dict):
                        whole = any(k is None and norm(v) == "request.extensions" for k, v in zip(a.keys, a.values)) and \
                            not any(isinstance(k, ast.Constant) and k.value == "timeout" for k in a.keys)
                    if not whole and isinstance(a, ast.DictComp) and len(a.generators) == 1 and norm(a.generators[0].iter) == "request.extensions.items()" \
                            and isinstance(a.generators[0].target, ast.Tuple) and len(a.generators[0].target.elts) == 2:
                        # a filtered copy that keeps the 'timeout' entry as it is (a hop that is given only the keys meant for it)
                        kn, vn = (norm(x) for x in a.generators[0].target.elts)
                        keeps = norm(a.key) == kn and norm(a.value) == vn
                        for cond in a.generators[0].ifs:
                            okc = False
                            if isinstance(cond, ast.Compare) and len(cond.ops) == 1 and norm(cond.left) == kn and isinstance(cond.comparators[0], (ast.Tuple, ast.List, ast.Set)):
                                consts = {e.value for e in cond.comparators[0].elts if isinstance(e, ast.Constant)}
                                okc = ("timeout" in consts) if isinstance(cond.ops[0], ast.In) else ("timeout" not in consts) if isinstance(cond.ops[0], ast.NotIn) else False
                            elif isinstance(cond, ast.Compare) and len(cond.ops) == 1 and norm(cond.left) == kn and isinstance(cond.ops[0], ast.NotEq) \
                                    and isinstance(cond.comparators[0], ast.Constant) and cond.comparators[0].value != "timeout":
                                okc = True
                            keeps = keeps and okc
                        whole = keeps
                    if not whole:
                        bad.append(ast.unparse(a)[:80])
                rep.ob("C16.R5", key, not bad, where(f, c),
                       "the derived request carries the caller's whole extensions mapping (timeouts included) on every path" if not bad else
                       f"the derived request's extensions can be `{bad[0]}`: the caller's 'timeout' configuration does not reach the operations performed for it (connect / TLS / CONNECT exchange run unbounded)")
    rep.floor("C16.R5", "requests derived from the caller's request", n, 2)


def run(ctx: Context) -> None:  # noqa: F811
    _core_run(ctx)
    ctx.rep.rule("C16.R5", "requests the library derives from the caller's request (proxied request, CONNECT) carry the caller's whole extensions mapping")
    _derived_requests(ctx)



_core_run_r6 = run


def run(ctx: Context) -> None:  # noqa: F811
    _core_run_r6(ctx)
    rep = ctx.rep
    rep.rule("C16.R6", "a zero pool timeout still succeeds when no waiting is needed (async tree): every wait on a synchronisation primitive that can end in PoolTimeout is entered only under a "
                       "test that waiting IS needed - anyio / trio check the (already expired) deadline at the primitive's first checkpoint, also when the resource is free")
    syn = ctx.prog.module("httpcore._synchronization")
    n = 0
    N = ctx.names("async")
    for m in N.modules():
        for f in m.all_functions():
            for site in ctx.callgraph.sites_of(f):
                # a timed wait of an async primitive whose routine names PoolTimeout (explicit raise, map_exceptions target, default of an exception parameter)
                tg = [t for t in site.repo_targets() if t.module is syn and t.is_async and any(isinstance(x, ast.Name) and x.id == "PoolTimeout" for x in ast.walk(t.node))]
                call = site.node if isinstance(site.node, ast.Call) else next((c for c in ast.walk(site.node) if isinstance(c, ast.Call)), None)
                if not tg or call is None or not (call.args or any(k.arg == "timeout" for k in call.keywords)):
                    continue
                n += 1
                node = site.node
                gs = [g for g in guards_of(node) if any(x is f.node for x in _anc(g[0]))]
                # a test of the state the wait is for: a field of the waiting object, compared / tested for presence
                need = [norm(getattr(t, "_orig", t)) for t, _ in gs if any(isinstance(x, ast.Attribute) and isinstance(x.value, ast.Name) and x.value.id == "self" for x in ast.walk(t))
                        and not any(isinstance(x, ast.Call) and (x.args or x.keywords) for x in ast.walk(t))]   # a plain state test (`self.connection is None`, `self.is_queued()`), not an entry gate applied to the request
                ok = bool(need)
                # or the primitive itself takes the resource without waiting when it is free: its timed scope is entered only after a non-blocking attempt failed
                if not ok:
                    def fast_path(t_: FuncInfo) -> bool:
                        scopes = [w for w in ast.walk(t_.node) if isinstance(w, (ast.With, ast.AsyncWith)) and any("fail_after" in norm(i.context_expr) for i in w.items)]
                        if not scopes:
                            return False
                        for w in scopes:
                            hs = [a for a in _anc(w) if isinstance(a, ast.ExceptHandler)]
                            if not any(h.type is not None and "WouldBlock" in ast.unparse(h.type) for h in hs):
                                return False
                        return True
                    if all(fast_path(t_) for t_ in tg):
                        ok = True
                        need = ["the primitive tries `acquire_nowait()` first: the timed scope is entered only on WouldBlock"]
                rep.ob("C16.R6", fkey("async", f, f"pool-wait:{norm(node)[:50]}"), ok, where(f, node),
                       f"`{ast.unparse(node)[:60]}` (can raise PoolTimeout) is entered only when {need[:2]}" if ok else
                       f"`{ast.unparse(node)[:60]}` can raise PoolTimeout and is entered unconditionally: with a pool timeout of 0 the deadline has expired before the primitive's first "
                       "checkpoint, so the request fails with PoolTimeout although nothing had to be waited for (a free stream slot, an uncontended lock)")
    rep.floor("C16.R6", "waits that can end in PoolTimeout (async tree)", n, 1)


def _anc(n: ast.AST):
    from ..load import parent as _p
    x = _p(getattr(n, "_orig", n))
    while x is not None:
        yield x
        x = _p(x)
