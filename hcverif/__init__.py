"""Static verification machinery for encode/httpcore (see /verif/DESIGN.md).

Nothing in this package imports or executes httpcore: every deciding step reads the
source files of /repo's current working tree through `ast`.
"""
