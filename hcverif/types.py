"""E2: annotation-driven type resolution and callee resolution (the repo is mypy --strict
clean, so every parameter, attribute and return value carries an annotation)."""
from __future__ import annotations

import ast
import builtins
import typing as T

from .load import FUNC_KINDS, ClassInfo, FuncInfo, Module, Program, enclosing, own_nodes, parent, strip_await

Ty = tuple  # ('cls', ClassInfo) | ('ext', str) | ('list', Ty) | ('dict', Ty, Ty) | ('tuple', [Ty]) | ('union', [Ty]) | ('any',) | ('none',) | ('type', Ty) | ('func', FuncInfo) | ('mod', str)

ANY: Ty = ("any",)
NONE: Ty = ("none",)

ITERABLE_NAMES = {"list", "List", "Iterable", "AsyncIterable", "Iterator", "AsyncIterator", "Sequence", "set", "Set",
                  "frozenset", "MutableSequence", "Collection", "Generator", "AsyncGenerator"}
MAPPING_NAMES = {"dict", "Dict", "Mapping", "MutableMapping"}
BUILTIN_TYPES = {"bytes", "str", "int", "float", "bool", "object", "bytearray", "Exception", "BaseException"}

# vocabulary used when a receiver is typed Any (e.g. response.extensions["network_stream"])
STREAM_VOCAB = {"read", "write", "start_tls", "aclose", "close", "get_extra_info"}


def union(ts: list[Ty]) -> Ty:
    flat: list[Ty] = []
    for t in ts:
        if t[0] == "union":
            flat.extend(t[1])
        else:
            flat.append(t)
    out: list[Ty] = []
    for t in flat:
        if t == NONE:
            continue
        if t not in out:
            out.append(t)
    if not out:
        return NONE if flat else ANY
    if len(out) > 1:
        # optimistic: an unresolved alternative does not hide the annotated ones
        out = [t for t in out if t != ANY] or [ANY]
    if len(out) == 1:
        return out[0]
    return ("union", out)


def ty_str(t: Ty) -> str:
    k = t[0]
    if k == "cls":
        return t[1].name
    if k in ("ext", "mod"):
        return t[1]
    if k == "list":
        return f"list[{ty_str(t[1])}]"
    if k == "dict":
        return f"dict[{ty_str(t[1])},{ty_str(t[2])}]"
    if k == "tuple":
        return "tuple[" + ",".join(ty_str(x) for x in t[1]) + "]"
    if k == "union":
        return "|".join(ty_str(x) for x in t[1])
    if k == "type":
        return f"type[{ty_str(t[1])}]"
    if k == "func":
        return f"func:{t[1].qual}"
    return k


class Callee:
    """One possible target of a call."""
    __slots__ = ("func", "ext", "how", "recv")

    def __init__(self, func: FuncInfo | None = None, ext: str | None = None, how: str = "type", recv: Ty | None = None):
        self.func = func      # repo function
        self.ext = ext        # external dotted name (e.g. 'h11.Connection.send', 'builtins.len')
        self.how = how        # 'type' | 'name' | 'unknown'
        self.recv = recv

    def __repr__(self) -> str:
        return f"<Callee {self.func.qual if self.func else self.ext} via {self.how}>"


def is_stub(f: FuncInfo) -> bool:
    body = [s for s in f.node.body if not (isinstance(s, ast.Expr) and isinstance(s.value, ast.Constant))]
    return len(body) == 1 and isinstance(body[0], ast.Raise) and "NotImplementedError" in ast.unparse(body[0])


class Types:
    def __init__(self, prog: Program):
        self.prog = prog
        self._attr_cache: dict[tuple[str, str], Ty] = {}
        self._local_cache: dict[tuple[str, str], Ty] = {}
        self._busy: set[T.Any] = set()
        self.stats = {"calls": 0, "by_type": 0, "by_name": 0, "unknown": 0, "external": 0}
        self.unknown_calls: list[tuple[str, str]] = []

    # ---- annotations ----------------------------------------------------------------
    def ann(self, module: Module, a: ast.expr | None) -> Ty:
        if a is None:
            return ANY
        if isinstance(a, ast.Constant):
            if a.value is None:
                return NONE
            if isinstance(a.value, str):
                try:
                    return self.ann(module, ast.parse(a.value, mode="eval").body)
                except SyntaxError:
                    return ANY
            return ANY
        if isinstance(a, ast.BinOp) and isinstance(a.op, ast.BitOr):
            return union([self.ann(module, a.left), self.ann(module, a.right)])
        if isinstance(a, ast.Subscript):
            head = a.value.attr if isinstance(a.value, ast.Attribute) else (a.value.id if isinstance(a.value, ast.Name) else "")
            args = list(a.slice.elts) if isinstance(a.slice, ast.Tuple) else [a.slice]
            if head in ITERABLE_NAMES:
                return ("list", self.ann(module, args[0]))
            if head in MAPPING_NAMES:
                return ("dict", self.ann(module, args[0]), self.ann(module, args[1]) if len(args) > 1 else ANY)
            if head in ("tuple", "Tuple"):
                return ("tuple", [self.ann(module, x) for x in args])
            if head == "Optional":
                return self.ann(module, args[0])
            if head == "Union":
                return union([self.ann(module, x) for x in args])
            if head in ("type", "Type"):
                return ("type", self.ann(module, args[0]))
            if head in ("Callable", "Awaitable", "Coroutine"):
                return ANY
            return ANY
        if isinstance(a, (ast.Name, ast.Attribute)):
            if isinstance(a, ast.Name) and a.id in BUILTIN_TYPES:
                return ("ext", f"builtins.{a.id}")
            r = self.prog.resolve_expr(module, a)
            if isinstance(r, ClassInfo):
                return ("cls", r)
            if isinstance(r, str):
                if r.startswith("typing.") or r.endswith(".Any"):
                    # typing aliases defined in the repo (Extensions, HeaderTypes...) resolve to their module-level value
                    return ANY
                m, _, sym = r.rpartition(".")
                mod = self.prog.modules.get(m)
                if mod is not None and sym in mod.assigns:
                    return self.ann(mod, mod.assigns[sym])
                return ("ext", r)
        return ANY

    # ---- attributes -------------------------------------------------------------------
    def attr_type(self, cls: ClassInfo, attr: str) -> Ty:
        key = (cls.qual, attr)
        if key in self._attr_cache:
            return self._attr_cache[key]
        if key in self._busy:
            return ANY
        self._busy.add(key)
        try:
            t = self._attr_type(cls, attr)
        finally:
            self._busy.discard(key)
        self._attr_cache[key] = t
        return t

    def _attr_type(self, cls: ClassInfo, attr: str) -> Ty:
        found: list[Ty] = []
        for c in cls.mro():
            m = c.methods.get(attr)
            if m is not None:
                if any(d in ("property", "functools.cached_property") for d in m.decorators):
                    return self.ann(c.module, m.node.returns)
                return ("func", m)
            if attr in c.class_assigns:
                return self.expr_type(c.class_assigns[attr], None, c.module)
            ann_hits: list[Ty] = []
            val_hits: list[Ty] = []
            order = sorted(c.methods.values(), key=lambda f: f.name != "__init__")
            for f in order:
                for n in own_nodes(f.node):
                    tgt = val = annot = None
                    if isinstance(n, ast.AnnAssign):
                        tgt, val, annot = n.target, n.value, n.annotation
                    elif isinstance(n, ast.Assign) and len(n.targets) == 1:
                        tgt, val = n.targets[0], n.value
                    if tgt is None or not (isinstance(tgt, ast.Attribute) and isinstance(tgt.value, ast.Name)
                                           and tgt.value.id == "self" and tgt.attr == attr):
                        continue
                    if annot is not None:
                        ann_hits.append(self.ann(c.module, annot))
                    elif val is not None:
                        val_hits.append(self.expr_type(val, f))
            if ann_hits:
                return union(ann_hits)
            found.extend(t for t in val_hits if t != ANY and t != NONE)
            if found:
                return union(found)
            if val_hits:
                found.extend(val_hits)
        return union(found) if found else ANY

    # ---- locals -----------------------------------------------------------------------
    def local_type(self, name: str, func: FuncInfo) -> Ty:
        key = (func.qual, name)
        if key in self._local_cache:
            return self._local_cache[key]
        if key in self._busy:
            return ANY
        self._busy.add(key)
        try:
            t = self._local_type(name, func)
        finally:
            self._busy.discard(key)
        self._local_cache[key] = t
        return t

    def _local_type(self, name: str, func: FuncInfo) -> Ty:
        if name == "self" and func.cls is not None and func.positional_params()[:1] == ["self"]:
            return ("cls", func.cls)
        if name in func.param_names():
            return self.ann(func.module, func.param_annotation(name))
        hits: list[Ty] = []
        for n in own_nodes(func.node):
            if isinstance(n, ast.AnnAssign) and isinstance(n.target, ast.Name) and n.target.id == name:
                return self.ann(func.module, n.annotation)
            if isinstance(n, ast.Assign):
                for tgt in n.targets:
                    if isinstance(tgt, ast.Name) and tgt.id == name:
                        hits.append(self.expr_type(n.value, func))
                    elif isinstance(tgt, ast.Tuple):
                        for i, el in enumerate(tgt.elts):
                            if isinstance(el, ast.Name) and el.id == name:
                                vt = self.expr_type(n.value, func)
                                if vt[0] == "tuple" and i < len(vt[1]):
                                    hits.append(vt[1][i])
                                else:
                                    hits.append(ANY)
            elif isinstance(n, (ast.For, ast.AsyncFor)):
                hits.extend(self._bind_target(n.target, name, self._elem(self.expr_type(n.iter, func))))
            elif isinstance(n, ast.comprehension):
                hits.extend(self._bind_target(n.target, name, self._elem(self.expr_type(n.iter, func))))
            elif isinstance(n, (ast.With, ast.AsyncWith)):
                for item in n.items:
                    if isinstance(item.optional_vars, ast.Name) and item.optional_vars.id == name:
                        ct = self.expr_type(item.context_expr, func)
                        if ct[0] == "cls":
                            ent = ct[1].find_method("__aenter__" if isinstance(n, ast.AsyncWith) else "__enter__")
                            hits.append(self.ann(ent.module, ent.node.returns) if ent and ent.node.returns else ct)
                        else:
                            hits.append(ct)
            elif isinstance(n, ast.ExceptHandler) and n.name == name:
                r = self.prog.resolve_expr(func.module, n.type) if n.type is not None and not isinstance(n.type, ast.Tuple) else None
                hits.append(("cls", r) if isinstance(r, ClassInfo) else (("ext", r) if isinstance(r, str) else ANY))
        if not hits:
            r = self.prog.resolve(func.module, name)
            if isinstance(r, ClassInfo):
                return ("type", ("cls", r))
            if isinstance(r, FuncInfo):
                return ("func", r)
            if isinstance(r, str):
                if r in self.prog.modules or name in func.module.imports and func.module.imports[name][1] is None:
                    return ("mod", r)
                m, _, sym = r.rpartition(".")
                mod = self.prog.modules.get(m)
                if mod is not None and sym in mod.assigns:
                    return self.expr_type(mod.assigns[sym], None, mod)
                return ("ext", r)
            return ANY
        return union(hits)

    def _bind_target(self, target: ast.expr, name: str, elem: Ty) -> list[Ty]:
        if isinstance(target, ast.Name):
            return [elem] if target.id == name else []
        if isinstance(target, ast.Tuple):
            out = []
            for i, el in enumerate(target.elts):
                sub = elem[1][i] if elem[0] == "tuple" and i < len(elem[1]) else ANY
                out.extend(self._bind_target(el, name, sub))
            return out
        return []

    def _elem(self, t: Ty) -> Ty:
        if t[0] == "list":
            return t[1]
        if t[0] == "dict":
            return t[1]
        if t[0] == "union":
            return union([self._elem(x) for x in t[1]])
        return ANY

    # ---- expressions --------------------------------------------------------------------
    def expr_type(self, e: ast.AST, func: FuncInfo | None, module: Module | None = None) -> Ty:
        module = module or (func.module if func else None)
        assert module is not None
        e = strip_await(e)
        if isinstance(e, ast.Constant):
            if e.value is None:
                return NONE
            return ("ext", f"builtins.{type(e.value).__name__}")
        if isinstance(e, ast.Name):
            if func is not None:
                return self.local_type(e.id, func)
            r = self.prog.resolve(module, e.id)
            if isinstance(r, ClassInfo):
                return ("type", ("cls", r))
            if isinstance(r, FuncInfo):
                return ("func", r)
            if isinstance(r, str):
                return ("mod", r) if e.id in module.imports and module.imports[e.id][1] is None else ("ext", r)
            return ANY
        if isinstance(e, ast.Attribute):
            bt = self.expr_type(e.value, func, module)
            return self._member(bt, e.attr)
        if isinstance(e, ast.Call):
            outs: list[Ty] = []
            for c in self.resolve_call(e, func, module, count=False):
                if c.func is not None:
                    if c.func.name == "__init__" and c.func.cls is not None:
                        outs.append(c.recv if c.recv is not None else ("cls", c.func.cls))
                    else:
                        rt = self.ann(c.func.module, c.func.node.returns)
                        if c.func.is_generator and rt[0] != "list":
                            rt = ("list", ANY)
                        outs.append(rt)
                elif c.ext is not None and c.ext.endswith(".__init__") and c.recv is not None and c.recv[0] == "cls":
                    outs.append(c.recv)  # class without an explicit constructor
                elif c.ext is not None:
                    outs.append(self._ext_call_type(c, e, func, module))
                else:
                    outs.append(ANY)
            return union(outs) if outs else ANY
        if isinstance(e, ast.Subscript):
            bt = self.expr_type(e.value, func, module)
            if isinstance(e.slice, ast.Slice):
                return bt
            if bt[0] == "list":
                return bt[1]
            if bt[0] == "dict":
                return bt[2]
            if bt[0] == "tuple" and isinstance(e.slice, ast.Constant) and isinstance(e.slice.value, int) and e.slice.value < len(bt[1]):
                return bt[1][e.slice.value]
            return ANY
        if isinstance(e, ast.IfExp):
            return union([self.expr_type(e.body, func, module), self.expr_type(e.orelse, func, module)])
        if isinstance(e, ast.BoolOp):
            return union([self.expr_type(v, func, module) for v in e.values])
        if isinstance(e, (ast.List, ast.ListComp, ast.Set, ast.SetComp, ast.GeneratorExp)):
            if isinstance(e, (ast.List, ast.Set)):
                return ("list", union([self.expr_type(x, func, module) for x in e.elts]) if e.elts else ANY)
            return ("list", self.expr_type(e.elt, func, module))
        if isinstance(e, (ast.Dict, ast.DictComp)):
            return ("dict", ANY, ANY)
        if isinstance(e, ast.Tuple):
            return ("tuple", [self.expr_type(x, func, module) for x in e.elts])
        if isinstance(e, ast.BinOp):
            lt = self.expr_type(e.left, func, module)
            return lt if lt[0] == "list" or lt[0] == "ext" else self.expr_type(e.right, func, module)
        if isinstance(e, (ast.Compare, ast.UnaryOp)) and not (isinstance(e, ast.UnaryOp) and not isinstance(e.op, ast.Not)):
            return ("ext", "builtins.bool")
        if isinstance(e, ast.JoinedStr):
            return ("ext", "builtins.str")
        return ANY

    def _member(self, bt: Ty, attr: str) -> Ty:
        k = bt[0]
        if k == "cls":
            return self.attr_type(bt[1], attr)
        if k == "mod":
            full = f"{bt[1]}.{attr}"
            m = self.prog.modules.get(bt[1])
            if m is not None:
                r = self.prog.resolve(m, attr)
                if isinstance(r, ClassInfo):
                    return ("type", ("cls", r))
                if isinstance(r, FuncInfo):
                    return ("func", r)
            if full in self.prog.modules:
                return ("mod", full)
            # external module member: class-like if capitalised, else module / value
            return ("mod", full) if attr.islower() and "." not in attr and _looks_module(full) else ("ext", full)
        if k == "ext":
            return ("ext", f"{bt[1]}.{attr}")
        if k == "type":
            inner = bt[1]
            if inner[0] == "cls":
                c: ClassInfo = inner[1]
                m2 = c.find_method(attr)
                if m2 is not None:
                    return ("func", m2)
                for cc in c.mro():
                    if attr in cc.class_assigns:
                        # enum member / class constant: an instance of the class for IntEnum, else value type
                        if any("Enum" in b for b in cc.external_bases()):
                            return ("cls", cc)
                        return self.expr_type(cc.class_assigns[attr], None, cc.module)
            return ANY
        if k == "union":
            return union([self._member(x, attr) for x in bt[1]])
        return ANY

    def _ext_call_type(self, c: Callee, call: ast.Call, func: FuncInfo | None, module: Module) -> Ty:
        name = c.ext or ""
        if name in ("builtins.list", "builtins.sorted", "builtins.reversed") and call.args:
            t = self.expr_type(call.args[0], func, module)
            return t if t[0] == "list" else ("list", self._elem(t))
        if name in ("builtins.len", "builtins.int", "builtins.min", "builtins.max"):
            return ("ext", "builtins.int")
        if name == "builtins.isinstance" or name == "builtins.hasattr":
            return ("ext", "builtins.bool")
        if name.endswith(".get") and c.recv is not None and c.recv[0] == "dict":
            return c.recv[2]
        if name.endswith(".pop") and c.recv is not None and c.recv[0] == "list":
            return c.recv[1]
        if name.startswith("builtins."):
            return ANY
        last = name.rsplit(".", 1)[-1]
        if last[:1].isupper():
            return ("ext", name)  # constructor of an external class
        return ANY

    # ---- calls --------------------------------------------------------------------------
    def resolve_call(self, call: ast.Call, func: FuncInfo | None, module: Module | None = None, count: bool = True) -> list[Callee]:
        module = module or (func.module if func else None)
        assert module is not None
        out = self._resolve_call(call, func, module)
        if count:
            self.stats["calls"] += 1
            if not out or all(c.how == "unknown" for c in out):
                self.stats["unknown"] += 1
                self.unknown_calls.append((f"{module.relpath}:{call.lineno}", ast.unparse(call.func)))
            elif any(c.how == "name" for c in out):
                self.stats["by_name"] += 1
            elif all(c.ext is not None for c in out):
                self.stats["external"] += 1
            else:
                self.stats["by_type"] += 1
        return out

    def _class_init(self, c: ClassInfo) -> list[Callee]:
        init = c.find_method("__init__")
        if init is not None:
            return [Callee(func=init, recv=("cls", c))]
        return [Callee(ext=f"{c.qual}.__init__", recv=("cls", c))]

    def _methods(self, c: ClassInfo, name: str, how: str = "type") -> list[Callee]:
        out: list[Callee] = []
        m = c.find_method(name)
        impls = [s.methods[name] for s in c.all_subclasses() if name in s.methods]
        if m is not None and not (is_stub(m) and impls):
            out.append(Callee(func=m, how=how, recv=("cls", c)))
        for f in impls:
            if not is_stub(f) or not out:
                out.append(Callee(func=f, how=how, recv=("cls", f.cls)))
        if not out and m is None:
            ext = [b for b in c.external_bases()]
            if ext:
                out.append(Callee(ext=f"{ext[0]}.{name}", how=how, recv=("cls", c)))
        return out

    def _resolve_call(self, call: ast.Call, func: FuncInfo | None, module: Module) -> list[Callee]:
        f = call.func
        if isinstance(f, ast.Name):
            if func is not None:
                t = self.local_type(f.id, func)
            else:
                t = self.expr_type(f, None, module)
            if t[0] == "type" and t[1][0] == "cls":
                return self._class_init(t[1][1])
            if t[0] == "func":
                return [Callee(func=t[1])]
            if t[0] == "ext":
                return [Callee(ext=t[1])]
            if t[0] == "mod":
                return [Callee(ext=t[1])]
            if hasattr(builtins, f.id):
                return [Callee(ext=f"builtins.{f.id}")]
            return [Callee(ext=f"?{f.id}", how="unknown")]
        if isinstance(f, ast.Attribute):
            # super().method(...)
            if isinstance(f.value, ast.Call) and isinstance(f.value.func, ast.Name) and f.value.func.id == "super" and func and func.cls:
                for b in func.cls.mro()[1:]:
                    if f.attr in b.methods:
                        return [Callee(func=b.methods[f.attr], recv=("cls", b))]
                return [Callee(ext=f"builtins.object.{f.attr}")]
            rt = self.expr_type(f.value, func, module)
            return self._call_on(rt, f.attr, call, module)
        if isinstance(f, ast.Call) or isinstance(f, ast.Subscript):
            return [Callee(ext="?dynamic", how="unknown")]
        return [Callee(ext="?expr", how="unknown")]

    def _call_on(self, rt: Ty, name: str, call: ast.Call, module: Module | None = None) -> list[Callee]:
        k = rt[0]
        if k == "cls":
            got = self._methods(rt[1], name)
            if got:
                return got
            at = self.attr_type(rt[1], name)
            if at[0] == "func":
                return [Callee(func=at[1], recv=rt)]
            return [Callee(ext=f"?{rt[1].name}.{name}", how="unknown", recv=rt)]
        if k == "mod":
            m = self.prog.modules.get(rt[1])
            if m is not None:
                r = self.prog.resolve(m, name)
                if isinstance(r, ClassInfo):
                    return self._class_init(r)
                if isinstance(r, FuncInfo):
                    return [Callee(func=r)]
            return [Callee(ext=f"{rt[1]}.{name}", recv=rt)]
        if k == "ext":
            return [Callee(ext=f"{rt[1]}.{name}", recv=rt)]
        if k == "type":
            inner = rt[1]
            if inner[0] == "cls":
                m2 = inner[1].find_method(name)
                if m2 is not None:
                    return [Callee(func=m2, recv=inner)]
            return [Callee(ext=f"?type.{name}", how="unknown", recv=rt)]
        if k == "list":
            return [Callee(ext=f"builtins.list.{name}", recv=rt)]
        if k == "dict":
            return [Callee(ext=f"builtins.dict.{name}", recv=rt)]
        if k == "tuple":
            return [Callee(ext=f"builtins.tuple.{name}", recv=rt)]
        if k == "union":
            out: list[Callee] = []
            for x in rt[1]:
                out.extend(self._call_on(x, name, call, module))
            return out
        if k == "func":
            return [Callee(ext=f"?funcattr.{name}", how="unknown", recv=rt)]
        # Any receiver: fall back on the stream vocabulary
        if name in STREAM_VOCAB:
            out2: list[Callee] = []
            bases = ("AsyncNetworkStream", "NetworkStream")
            if module is not None and "._async" in module.name:
                bases = ("AsyncNetworkStream",)
            elif module is not None and "._sync" in module.name:
                bases = ("NetworkStream",)
            for base_name in bases:
                base = self.prog.module("httpcore._backends.base").classes.get(base_name)
                if base is not None:
                    for c in self._methods(base, name, how="name"):
                        out2.append(c)
            if out2:
                return out2
        return [Callee(ext=f"?any.{name}", how="unknown", recv=rt)]


def _looks_module(full: str) -> bool:
    return full in {"h2.config", "h2.connection", "h2.events", "h2.exceptions", "h2.settings", "socksio.socks5",
                    "socksio.exceptions", "anyio.abc", "anyio.streams", "anyio.streams.tls", "trio.abc", "trio.socket",
                    "urllib.parse", "os.path", "logging.handlers", "select", "socket", "ssl"}
