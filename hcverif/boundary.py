"""Frozen summaries of the third-party boundary (DESIGN.md 2.4) and the exception hierarchy.

Every row was confirmed by reading the installed library source (h11 0.14.0, h2 4.4.1,
socksio 1.0.0).  A call into h11 / h2 / socksio that is not in the table makes the run fail
with exit 2 (unknown boundary call) instead of passing silently."""
from __future__ import annotations

# external callee (as resolved by hcverif.types) -> {exception class: cause tag}
RAISES: dict[str, dict[str, str]] = {
    # h11 ---------------------------------------------------------------------------
    "h11.Request": {"h11.LocalProtocolError": "local-send"},
    "h11.Data": {},          # plain container, no validation in the constructor (h11/_events.py)
    "h11.EndOfMessage": {},  # validates only a non-default `headers=` argument, which httpcore never passes
    "h11.Connection": {},
    "h11.Connection.send": {"h11.LocalProtocolError": "local-send"},
    "h11.Connection.next_event": {"h11.RemoteProtocolError": "peer-input"},
    "h11.Connection.receive_data": {"RuntimeError": "internal-invariant"},
    "h11.Connection.start_next_cycle": {"h11.LocalProtocolError": "internal-invariant"},
    # h2 ----------------------------------------------------------------------------
    "h2.config.H2Configuration": {},
    "h2.connection.H2Connection": {},
    "h2.settings.Settings": {},
    "h2.connection.H2Connection.receive_data": {"h2.exceptions.ProtocolError": "peer-input"},
    "h2.connection.H2Connection.send_headers": {"h2.exceptions.ProtocolError": "local-send"},
    "h2.connection.H2Connection.send_data": {"h2.exceptions.ProtocolError": "local-send"},
    "h2.connection.H2Connection.end_stream": {"h2.exceptions.ProtocolError": "local-send"},
    "h2.connection.H2Connection.increment_flow_control_window": {"h2.exceptions.ProtocolError": "local-send"},
    "h2.connection.H2Connection.acknowledge_received_data": {"h2.exceptions.ProtocolError": "local-send"},
    "h2.connection.H2Connection.local_flow_control_window": {"h2.exceptions.ProtocolError": "local-send"},
    "h2.connection.H2Connection.initiate_connection": {"h2.exceptions.ProtocolError": "local-send"},
    "h2.connection.H2Connection.get_next_available_stream_id": {"h2.exceptions.NoAvailableStreamIDError": "local-send"},
    "h2.connection.H2Connection.data_to_send": {},
    "h2.connection.H2Connection.close_connection": {},
    "h2.connection.H2Connection.local_settings.get": {},
    # socksio -----------------------------------------------------------------------
    "socksio.socks5.SOCKS5Connection": {},
    "socksio.socks5.SOCKS5Connection.send": {},
    "socksio.socks5.SOCKS5Connection.data_to_send": {},
    "socksio.socks5.SOCKS5Connection.receive_data": {"socksio.exceptions.ProtocolError": "peer-input"},
    "socksio.socks5.SOCKS5AuthMethodsRequest": {},
    "socksio.socks5.SOCKS5UsernamePasswordRequest": {},
    "socksio.socks5.SOCKS5CommandRequest.from_address": {},
}

# external names that must be covered by the table: methods of the three protocol state
# machines and constructors of h11 / socksio events (which validate and may raise)
STRICT_RECEIVERS = ("h11.Connection.", "h2.connection.H2Connection.", "socksio.socks5.SOCKS5Connection.")


def is_strict(name: str) -> bool:
    if name.startswith(STRICT_RECEIVERS):
        rest = name
        for r in STRICT_RECEIVERS:
            if name.startswith(r):
                rest = name[len(r):]
        return "." not in rest  # a method called directly on the state machine
    head, _, last = name.rpartition(".")
    if head in ("h11", "socksio.socks5") and last[:1].isupper():
        return True  # event constructors
    if head.startswith("socksio.socks5.") and last[:1].islower() and head.rsplit(".", 1)[-1][:1].isupper():
        return True  # classmethod constructors such as SOCKS5CommandRequest.from_address
    return False

# h2 methods that mutate the shared per-connection protocol object (C08.R6 lockset rule)
H2_MUTATORS = {"receive_data", "send_headers", "send_data", "end_stream", "increment_flow_control_window",
               "acknowledge_received_data", "initiate_connection", "get_next_available_stream_id",
               "data_to_send", "close_connection"}

# network interface contract (httpcore/_backends/base.py): what a conforming backend may raise
NETWORK_CONTRACT: dict[str, dict[str, str]] = {
    "read": {"ReadError": "network", "ReadTimeout": "network"},
    "write": {"WriteError": "network", "WriteTimeout": "network"},
    "start_tls": {"ConnectError": "network", "ConnectTimeout": "network"},
    "connect_tcp": {"ConnectError": "network", "ConnectTimeout": "network"},
    "connect_unix_socket": {"ConnectError": "network", "ConnectTimeout": "network"},
    "aclose": {},
    "close": {},
    "sleep": {},
    "get_extra_info": {},
}
NETWORK_INTERFACES = ("AsyncNetworkStream", "AsyncNetworkBackend", "NetworkStream", "NetworkBackend")
NETWORK_SUSPENDING = {"read", "write", "start_tls", "connect_tcp", "connect_unix_socket", "aclose", "sleep"}

# frozen external exception hierarchy: class -> parent
EXC_PARENT: dict[str, str] = {
    "BaseException": "",
    "Exception": "BaseException",
    "Cancelled": "BaseException",       # asyncio.CancelledError / trio.Cancelled (model)
    "GeneratorExit": "BaseException",
    "KeyboardInterrupt": "BaseException",
    "ArithmeticError": "Exception",
    "OverflowError": "ArithmeticError",
    "AssertionError": "Exception",
    "AttributeError": "Exception",
    "LookupError": "Exception",
    "IndexError": "LookupError",
    "KeyError": "LookupError",
    "OSError": "Exception",
    "TimeoutError": "OSError",
    "socket.timeout": "OSError",        # alias of TimeoutError since 3.10; modelled as sibling below OSError
    "ConnectionError": "OSError",
    "ssl.SSLError": "OSError",
    "ssl.SSLWantReadError": "ssl.SSLError",
    "ssl.SSLWantWriteError": "ssl.SSLError",
    "RuntimeError": "Exception",
    "NotImplementedError": "RuntimeError",
    "StopIteration": "Exception",
    "StopAsyncIteration": "Exception",
    "TypeError": "Exception",
    "ValueError": "Exception",
    "UnicodeError": "ValueError",
    "UnicodeDecodeError": "UnicodeError",
    "UnicodeEncodeError": "UnicodeError",
    "ImportError": "Exception",
    "h11.ProtocolError": "Exception",
    "h11.LocalProtocolError": "h11.ProtocolError",
    "h11.RemoteProtocolError": "h11.ProtocolError",
    "h2.exceptions.H2Error": "Exception",
    "h2.exceptions.ProtocolError": "h2.exceptions.H2Error",
    "h2.exceptions.NoAvailableStreamIDError": "h2.exceptions.ProtocolError",
    "h2.exceptions.StreamClosedError": "h2.exceptions.ProtocolError",
    "h2.exceptions.FlowControlError": "h2.exceptions.ProtocolError",
    "h2.exceptions.NoSuchStreamError": "h2.exceptions.ProtocolError",
    "socksio.exceptions.SOCKSError": "Exception",
    "socksio.exceptions.ProtocolError": "socksio.exceptions.SOCKSError",
    "socksio.ProtocolError": "socksio.exceptions.SOCKSError",
    "anyio.BrokenResourceError": "Exception",
    "anyio.ClosedResourceError": "Exception",
    "anyio.EndOfStream": "Exception",
    "trio.TooSlowError": "Exception",
    "trio.BrokenResourceError": "Exception",
    "trio.ClosedResourceError": "Exception",
}
EXC_ALIASES = {"socket.timeout": "TimeoutError", "socksio.ProtocolError": "socksio.exceptions.ProtocolError"}

TIMEOUT_LIKE = {"TimeoutError", "socket.timeout", "trio.TooSlowError"}
