"""Canonical form of the in-memory AST (semantics-preserving rewrites applied before any analysis).

Maintainers rewrite code into equivalent shapes all the time; the rules should see one shape.  Every pass below is a
textbook equivalence; none moves code across an await, a lock, a try or a with boundary.  Reports keep the original line
numbers (nodes are moved, not re-created, wherever possible).

  P1  `m.get(k, None)`                       ->  `m.get(k)`
  P2  guard clauses:  `if C: <..exit>` + rest  ->  `if C: <..exit> else: rest`
      negative tests: `if not X: A else: B`    ->  `if X: B else: A`        (also `x not in S`)
      tail exits:     `... else: return` at the very end of a function body is dropped (and `if X: return` + nothing)
  P3  single-assignment aliases of an attribute chain (`v = self._a.b`, `v` bound once, chain not stored in the function)
      are substituted back
  P4  accumulator loops `xs = [..]; for t in it: [tmp = pure;] [if c:] xs.append(e)`  ->  `xs = [..] + [e for t in it if c]`
  P5  `set(<genexpr>)` -> set comprehension;  the split idiom `h = v[:n]; v = v[n:]` -> `h, v = v[:n], v[n:]`
"""
from __future__ import annotations

import ast
import typing as T

FUNC_KINDS = (ast.FunctionDef, ast.AsyncFunctionDef)


def _norm(e: ast.AST) -> str:
    return ast.unparse(e).replace(" ", "").replace("\n", "")


# ---------------------------------------------------------------------------------------------------------- P1, P5
def _unbool(e: ast.expr) -> ast.expr:
    if isinstance(e, ast.Call) and isinstance(e.func, ast.Name) and e.func.id == "bool" and len(e.args) == 1 and not e.keywords:
        return e.args[0]
    return e


def _is_boolean(e: ast.expr) -> bool:
    return isinstance(e, ast.Compare) or (isinstance(e, ast.UnaryOp) and isinstance(e.op, ast.Not)) or \
        (isinstance(e, ast.BoolOp) and all(_is_boolean(v) for v in e.values))


class _Small(ast.NodeTransformer):
    # `bool(X)` in a boolean context is X
    def visit_UnaryOp(self, n: ast.UnaryOp) -> ast.AST:
        self.generic_visit(n)
        if isinstance(n.op, ast.Not):
            n.operand = _unbool(n.operand)
        return n

    def visit_BoolOp(self, n: ast.BoolOp) -> ast.AST:
        self.generic_visit(n)
        return n

    def visit_If(self, n: ast.If) -> ast.AST:
        self.generic_visit(n)
        n.test = _unbool(n.test)
        return n

    def visit_While(self, n: ast.While) -> ast.AST:
        self.generic_visit(n)
        n.test = _unbool(n.test)
        return n

    def visit_Call(self, n: ast.Call) -> ast.AST:
        self.generic_visit(n)
        if isinstance(n.func, ast.Attribute) and n.func.attr == "get" and len(n.args) == 2 and not n.keywords \
                and isinstance(n.args[1], ast.Constant) and n.args[1].value is None:
            n.args = n.args[:1]
        if isinstance(n.func, ast.Name) and n.func.id == "bool" and len(n.args) == 1 and not n.keywords and _is_boolean(n.args[0]):
            return n.args[0]      # bool() of something that is already a bool
        if isinstance(n.func, ast.Name) and n.func.id == "set" and len(n.args) == 1 and not n.keywords and isinstance(n.args[0], ast.GeneratorExp):
            g = n.args[0]
            return ast.copy_location(ast.SetComp(elt=g.elt, generators=g.generators), n)
        return n


def _is_exit(st: ast.stmt) -> bool:
    return isinstance(st, (ast.Return, ast.Raise, ast.Continue, ast.Break))


def _always_exits(stmts: list[ast.stmt]) -> bool:
    if not stmts:
        return False
    last = stmts[-1]
    if _is_exit(last):
        return True
    if isinstance(last, ast.If) and last.orelse:
        return _always_exits(last.body) and _always_exits(last.orelse)
    return False


def _negative(test: ast.expr) -> ast.expr | None:
    """The positive form of a syntactically negative test, or None."""
    if isinstance(test, ast.UnaryOp) and isinstance(test.op, ast.Not):
        return test.operand
    if isinstance(test, ast.Compare) and len(test.ops) == 1 and isinstance(test.ops[0], ast.NotIn):
        return ast.copy_location(ast.Compare(left=test.left, ops=[ast.In()], comparators=test.comparators), test)
    return None


def _bare_return(st: ast.stmt) -> bool:
    return isinstance(st, ast.Return) and (st.value is None or (isinstance(st.value, ast.Constant) and st.value.value is None))


# ---------------------------------------------------------------------------------------------------------- P2
def _guard_clauses(block: list[ast.stmt], tail: bool, in_loop: bool) -> list[ast.stmt]:
    """Rewrite one statement list (recursively).  `tail`: the block is in tail position of a function body."""
    out: list[ast.stmt] = []
    i = 0
    while i < len(block):
        st = block[i]
        rest = block[i + 1:]
        is_last = not rest
        if isinstance(st, ast.If):
            if not st.orelse and rest and _always_exits(st.body) and not any(isinstance(x, (ast.Continue, ast.Break)) for b in st.body for x in ast.walk(b)):
                # guard clause: the rest of the block is the else branch
                st.orelse = rest
                block = block[:i + 1]
                rest = []
                is_last = True
            st.body = _guard_clauses(st.body, tail and is_last, in_loop)
            st.orelse = _guard_clauses(st.orelse, tail and is_last, in_loop)
            pos = _negative(st.test)
            if pos is not None and st.orelse and not (len(st.orelse) == 1 and isinstance(st.orelse[0], ast.If) and False):
                st.test, st.body, st.orelse = pos, st.orelse, st.body
            if tail and is_last:
                # a bare `return` branch at the very end of the function adds nothing
                if st.orelse and len(st.orelse) == 1 and _bare_return(st.orelse[0]):
                    st.orelse = []
                elif st.orelse and len(st.body) == 1 and _bare_return(st.body[0]):
                    neg = ast.copy_location(ast.UnaryOp(op=ast.Not(), operand=st.test), st.test)
                    pos2 = _negative(neg)
                    st.test, st.body, st.orelse = (neg if pos2 is None else neg), st.orelse, []
                    # `not not X` cannot arise: st.test is positive here, so the new test is `not X`
            out.append(st)
        elif isinstance(st, (ast.For, ast.AsyncFor, ast.While)):
            st.body = _guard_clauses(st.body, False, True)
            st.orelse = _guard_clauses(st.orelse, False, in_loop)
            out.append(st)
        elif isinstance(st, (ast.With, ast.AsyncWith)):
            st.body = _guard_clauses(st.body, tail and is_last, in_loop)
            out.append(st)
        elif isinstance(st, ast.Try):
            st.body = _guard_clauses(st.body, False, in_loop)
            for h in st.handlers:
                h.body = _guard_clauses(h.body, False, in_loop)
            st.orelse = _guard_clauses(st.orelse, False, in_loop)
            st.finalbody = _guard_clauses(st.finalbody, False, in_loop)
            out.append(st)
        else:
            out.append(st)
        i += 1
    return out


# ---------------------------------------------------------------------------------------------------------- P3
def _attr_chain(e: ast.AST) -> bool:
    while isinstance(e, ast.Attribute):
        e = e.value
    return isinstance(e, ast.Name)


def _aliases(fn: T.Any, mutable_fields: set[str] | None = None) -> None:
    params = {a.arg for a in fn.args.args + fn.args.kwonlyargs + fn.args.posonlyargs}
    own = [n for n in _own_nodes(fn)]
    binds: dict[str, list[ast.AST]] = {}
    for n in own:
        if isinstance(n, ast.Name) and isinstance(n.ctx, (ast.Store, ast.Del)):
            binds.setdefault(n.id, []).append(n)
        elif isinstance(n, ast.ExceptHandler) and n.name:
            binds.setdefault(n.name, []).append(n)
    stored_chains = {_norm(n) for n in own if isinstance(n, ast.Attribute) and isinstance(n.ctx, (ast.Store, ast.Del))}
    cand: dict[str, ast.AST] = {}
    drop: list[ast.stmt] = []
    for st in own:
        if isinstance(st, ast.Assign) and len(st.targets) == 1 and isinstance(st.targets[0], ast.Name) and isinstance(st.value, ast.Attribute) and _attr_chain(st.value):
            v = st.targets[0].id
            root = st.value
            while isinstance(root, ast.Attribute):
                root = root.value
            if len(binds.get(v, [])) != 1 or v in params:
                continue
            # the root must be `self` (and the field written only by __init__), or a local / parameter bound exactly once;
            # the chain must not be stored in this function
            if root.id == "self":
                first = st.value
                while isinstance(first.value, ast.Attribute):
                    first = first.value
                if mutable_fields is None or first.attr in mutable_fields:
                    continue
            elif root.id in params:
                if root.id in binds:
                    continue
            elif len(binds.get(root.id, [])) != 1:
                continue
            chain_txt = _norm(st.value)
            if any(s == chain_txt or chain_txt.startswith(s + ".") for s in stored_chains):
                continue
            # must be a top-level statement of some block that dominates its uses: require it to precede every use textually
            uses = [n for n in own if isinstance(n, ast.Name) and n.id == v and isinstance(n.ctx, ast.Load)]
            if not uses or any((u.lineno, u.col_offset) < (st.lineno, st.col_offset) for u in uses):
                continue
            # not inside a loop/branch deeper than its uses: keep it simple - only when the assignment is not nested in a loop
            cand[v] = st.value
            drop.append(st)
    if not cand:
        return

    class Sub(ast.NodeTransformer):
        def visit_Name(self, n: ast.Name) -> ast.AST:
            if isinstance(n.ctx, ast.Load) and n.id in cand:
                new = _clone(cand[n.id])
                for x in ast.walk(new):
                    ast.copy_location(x, n)
                return new
            return n

        def visit_FunctionDef(self, n: T.Any) -> ast.AST:
            return n if n is not fn else self.generic_visit(n)

        visit_AsyncFunctionDef = visit_FunctionDef
        visit_Lambda = visit_FunctionDef

    Sub().generic_visit(fn)
    _remove_stmts(fn, drop)


def _remove_stmts(fn: T.Any, drop: list[ast.stmt]) -> None:
    ids = {id(d) for d in drop}
    for n in ast.walk(fn):
        for field in ("body", "orelse", "finalbody"):
            b = getattr(n, field, None)
            if isinstance(b, list) and any(id(x) in ids for x in b):
                b[:] = [x for x in b if id(x) not in ids] or [ast.copy_location(ast.Pass(), b[0])]


def _clone(node: T.Any) -> T.Any:
    if isinstance(node, ast.AST):
        new = node.__class__()
        for f in node._fields:
            if hasattr(node, f):
                setattr(new, f, _clone(getattr(node, f)))
        for a in ("lineno", "col_offset", "end_lineno", "end_col_offset"):
            if hasattr(node, a):
                setattr(new, a, getattr(node, a))
        return new
    if isinstance(node, list):
        return [_clone(x) for x in node]
    return node


def _own_nodes(fn: T.Any) -> T.Iterator[ast.AST]:
    todo = list(ast.iter_child_nodes(fn))
    while todo:
        n = todo.pop()
        yield n
        if isinstance(n, FUNC_KINDS + (ast.Lambda, ast.ClassDef)):
            continue
        todo.extend(ast.iter_child_nodes(n))


# ---------------------------------------------------------------------------------------------------------- P4
def _pure(e: ast.AST) -> bool:
    for n in ast.walk(e):
        if isinstance(n, (ast.Await, ast.Yield, ast.YieldFrom, ast.NamedExpr, ast.Lambda)):
            return False
        if isinstance(n, ast.Call):
            f = n.func
            ok = isinstance(f, ast.Attribute) and f.attr in ("lower", "upper", "decode", "encode", "strip", "startswith", "endswith", "get", "items", "keys", "values") \
                or isinstance(f, ast.Name) and f.id in ("len", "min", "max", "bytes", "str", "int", "isinstance", "tuple", "list", "set")
            if not ok:
                return False
    return True


def _accumulators(block: list[ast.stmt]) -> None:
    i = 0
    while i + 1 < len(block):
        a, lp = block[i], block[i + 1]
        tgt = None
        if isinstance(a, ast.Assign) and len(a.targets) == 1 and isinstance(a.targets[0], ast.Name):
            tgt, init = a.targets[0].id, a.value
        elif isinstance(a, ast.AnnAssign) and isinstance(a.target, ast.Name) and a.value is not None:
            tgt, init = a.target.id, a.value
        if tgt is not None and isinstance(init, ast.List) and isinstance(lp, ast.For) and not lp.orelse:
            body = list(lp.body)
            temps: dict[str, ast.AST] = {}
            while body and isinstance(body[0], ast.Assign) and len(body[0].targets) == 1 and isinstance(body[0].targets[0], ast.Name) and _pure(body[0].value) and len(body) > 1:
                temps[body[0].targets[0].id] = body[0].value
                body = body[1:]
            cond = None
            if len(body) == 1 and isinstance(body[0], ast.If) and not body[0].orelse and len(body[0].body) == 1:
                cond = body[0].test
                body = body[0].body
            ok = len(body) == 1 and isinstance(body[0], ast.Expr) and isinstance(body[0].value, ast.Call) and isinstance(body[0].value.func, ast.Attribute) \
                and body[0].value.func.attr == "append" and isinstance(body[0].value.func.value, ast.Name) and body[0].value.func.value.id == tgt \
                and len(body[0].value.args) == 1 and not body[0].value.keywords
            if ok:
                elt = body[0].value.args[0]
                used_tgt = any(isinstance(x, ast.Name) and x.id == tgt for e in ([elt] + ([cond] if cond is not None else []) + list(temps.values()) + [lp.iter]) for x in ast.walk(e))
                no_susp = not any(isinstance(x, (ast.Await, ast.Yield, ast.YieldFrom)) for e in ([elt] + ([cond] if cond is not None else [])) for x in ast.walk(e))
                if not used_tgt and no_susp:
                    class T_(ast.NodeTransformer):
                        def visit_Name(self, n: ast.Name) -> ast.AST:
                            if isinstance(n.ctx, ast.Load) and n.id in temps:
                                return T_().visit(_clone(temps[n.id]))
                            return n
                    elt2 = T_().visit(_clone(elt))
                    cond2 = T_().visit(_clone(cond)) if cond is not None else None
                    comp = ast.ListComp(elt=elt2, generators=[ast.comprehension(target=lp.target, iter=lp.iter, ifs=[cond2] if cond2 is not None else [], is_async=0)])
                    ast.copy_location(comp, lp)
                    new_val = comp if not init.elts else ast.copy_location(ast.BinOp(left=init, op=ast.Add(), right=comp), a)
                    if isinstance(a, ast.Assign):
                        a.value = new_val
                    else:
                        a.value = new_val
                    ast.fix_missing_locations(a)
                    del block[i + 1]
                    continue
        i += 1


def _split_tuple_assign(block: list[ast.stmt]) -> None:
    """The split idiom written as two statements, `h = v[:n]` then `v = v[n:]`, becomes `h, v = v[:n], v[n:]`
    (the second right-hand side does not mention h, so evaluating both before binding is the same)."""
    i = 0
    while i + 1 < len(block):
        a, b = block[i], block[i + 1]
        if isinstance(a, ast.Assign) and isinstance(b, ast.Assign) and len(a.targets) == len(b.targets) == 1 \
                and isinstance(a.targets[0], ast.Name) and isinstance(b.targets[0], ast.Name) \
                and isinstance(a.value, ast.Subscript) and isinstance(b.value, ast.Subscript) and isinstance(a.value.slice, ast.Slice) and isinstance(b.value.slice, ast.Slice) \
                and isinstance(a.value.value, ast.Name) and isinstance(b.value.value, ast.Name) and a.value.value.id == b.value.value.id == b.targets[0].id \
                and a.targets[0].id != b.targets[0].id and not any(isinstance(n, ast.Name) and n.id == a.targets[0].id for n in ast.walk(b.value)):
            tup = ast.Assign(targets=[ast.Tuple(elts=[a.targets[0], b.targets[0]], ctx=ast.Store())], value=ast.Tuple(elts=[a.value, b.value], ctx=ast.Load()))
            ast.copy_location(tup, a)
            ast.fix_missing_locations(tup)
            block[i:i + 2] = [tup]
        i += 1


def _ifelse_temp_to_expr(fn: T.Any) -> None:
    """`if C: t = A else: t = B` for a temporary the inliner generated  ->  `t = <A if C else B>` (boolean constants folded)."""
    for b in list(_blocks(fn)):
        for i, st in enumerate(b):
            if isinstance(st, ast.If) and len(st.body) == 1 and len(st.orelse) == 1 and all(isinstance(x, ast.Assign) and len(x.targets) == 1 and isinstance(x.targets[0], ast.Name) for x in (st.body[0], st.orelse[0])):
                ta, tb = st.body[0].targets[0].id, st.orelse[0].targets[0].id
                if ta == tb and "__" in ta:
                    A, B = st.body[0].value, st.orelse[0].value
                    ca = A.value if isinstance(A, ast.Constant) and isinstance(A.value, bool) else None
                    cb = B.value if isinstance(B, ast.Constant) and isinstance(B.value, bool) else None
                    neg = ast.UnaryOp(op=ast.Not(), operand=st.test)
                    if ca is True:
                        e: ast.expr = ast.BoolOp(op=ast.Or(), values=[st.test, B])
                    elif cb is False:
                        e = ast.BoolOp(op=ast.And(), values=[st.test, A])
                    elif ca is False:
                        e = ast.BoolOp(op=ast.And(), values=[neg, B])
                    elif cb is True:
                        e = ast.BoolOp(op=ast.Or(), values=[neg, A])
                    else:
                        e = ast.IfExp(test=st.test, body=A, orelse=B)
                    new_st = ast.copy_location(ast.Assign(targets=[ast.Name(id=ta, ctx=ast.Store())], value=e), st)
                    ast.fix_missing_locations(new_st)
                    b[i] = new_st


def _collapse_generated_temps(fn: T.Any) -> None:
    """`x__helperN = E` directly followed by `t = x__helperN` (the temporary the inliner made, used once)  ->  `t = E`."""
    loads: dict[str, int] = {}
    for n in _own_nodes(fn):
        if isinstance(n, ast.Name) and isinstance(n.ctx, ast.Load):
            loads[n.id] = loads.get(n.id, 0) + 1
    for b in list(_blocks(fn)):
        i = 0
        while i + 1 < len(b):
            a, c = b[i], b[i + 1]
            if isinstance(a, ast.Assign) and len(a.targets) == 1 and isinstance(a.targets[0], ast.Name) and "__" in a.targets[0].id \
                    and isinstance(c, (ast.Assign, ast.Return)) and isinstance(c.value, ast.Name) and c.value.id == a.targets[0].id and loads.get(a.targets[0].id, 0) == 1:
                c.value = a.value
                del b[i]
                continue
            i += 1


def _blocks(node: ast.AST) -> T.Iterator[list[ast.stmt]]:
    for n in ast.walk(node):
        for field in ("body", "orelse", "finalbody"):
            b = getattr(n, field, None)
            if isinstance(b, list) and b and all(isinstance(x, ast.stmt) for x in b):
                yield b
        if isinstance(n, ast.Try):
            for h in n.handlers:
                yield h.body


def _literal(e: ast.AST) -> bool:
    """A literal whose every leaf is a constant, a name or an attribute chain (no calls): safe to copy to its use sites."""
    if isinstance(e, ast.Constant):
        return True
    if isinstance(e, (ast.Tuple, ast.List, ast.Set)):
        return all(_literal(x) or _attr_chain(x) or isinstance(x, ast.Name) for x in e.elts)
    if isinstance(e, ast.Dict):
        return all(k is not None and (_literal(k) or _attr_chain(k) or isinstance(k, ast.Name)) and (_literal(v) or _attr_chain(v) or isinstance(v, ast.Name)) for k, v in zip(e.keys, e.values))
    return False


def _module_constants(tree: ast.Module, known_globals: set[str] | None) -> None:
    """A NEW private module-level constant bound once to a literal tuple / list / set / dict / constant is copied back to its use
    sites (`_TLS_SCHEMES = (b"https", b"wss")` ... `scheme in _TLS_SCHEMES`  ->  `scheme in (b"https", b"wss")`)."""
    if known_globals is None:
        return
    binds: dict[str, list[ast.stmt]] = {}
    for st in tree.body:
        tg = None
        if isinstance(st, ast.Assign) and len(st.targets) == 1 and isinstance(st.targets[0], ast.Name):
            tg = st.targets[0].id
        elif isinstance(st, ast.AnnAssign) and isinstance(st.target, ast.Name) and st.value is not None:
            tg = st.target.id
        if tg is not None:
            binds.setdefault(tg, []).append(st)
    consts: dict[str, ast.AST] = {}
    for name, sts in binds.items():
        if name in known_globals or len(sts) != 1 or not (name.startswith("_") or name.isupper()):
            continue
        val = sts[0].value  # type: ignore[attr-defined]
        if not _literal(val):
            continue
        # never rebound or mutated anywhere in the module
        stores = [n for n in ast.walk(tree) if isinstance(n, ast.Name) and n.id == name and isinstance(n.ctx, (ast.Store, ast.Del))]
        mutated = any(isinstance(n, ast.Attribute) and isinstance(n.value, ast.Name) and n.value.id == name and n.attr in
                      ("append", "extend", "insert", "pop", "remove", "clear", "update", "setdefault", "add", "discard", "sort", "reverse", "popitem") for n in ast.walk(tree)) or \
            any(isinstance(n, ast.Subscript) and isinstance(n.value, ast.Name) and n.value.id == name and isinstance(n.ctx, (ast.Store, ast.Del)) for n in ast.walk(tree)) or \
            any(isinstance(n, (ast.Global, ast.Nonlocal)) and name in n.names for n in ast.walk(tree))
        if len(stores) != 1 or mutated:
            continue
        consts[name] = val
    if not consts:
        return

    class Sub(ast.NodeTransformer):
        def visit_Name(self, n: ast.Name) -> ast.AST:
            if isinstance(n.ctx, ast.Load) and n.id in consts:
                new = _clone(consts[n.id])
                for x in ast.walk(new):
                    ast.copy_location(x, n)
                return new
            return n

    for fn in [n for n in ast.walk(tree) if isinstance(n, FUNC_KINDS)]:
        shadow = {a.arg for a in fn.args.args + fn.args.kwonlyargs} | {x.id for x in _own_nodes(fn) if isinstance(x, ast.Name) and isinstance(x.ctx, ast.Store)}
        if shadow & set(consts):
            continue
        Sub().generic_visit(fn)


def _flag_loops(block: list[ast.stmt]) -> None:
    """`flag = False; while not flag: ...; flag = True`  ->  `while True: ...; break`   (the flag is written only in tail position of
    the loop body and read only by the loop test).  Also `...; flag = <cond>` as the last statement -> `if <cond>: break`."""
    i = 0
    while i + 1 < len(block):
        a, lp = block[i], block[i + 1]
        if isinstance(a, ast.Assign) and len(a.targets) == 1 and isinstance(a.targets[0], ast.Name) and isinstance(a.value, ast.Constant) and a.value.value is False \
                and isinstance(lp, ast.While) and not lp.orelse and isinstance(lp.test, ast.UnaryOp) and isinstance(lp.test.op, ast.Not) \
                and isinstance(lp.test.operand, ast.Name) and lp.test.operand.id == a.targets[0].id:
            flag = a.targets[0].id
            ok = [True]

            def tail(stmts: list[ast.stmt]) -> None:
                """rewrite tail-position writes of the flag; any other occurrence makes the rewrite invalid"""
                for j, st in enumerate(stmts):
                    last = j == len(stmts) - 1
                    if isinstance(st, ast.Assign) and len(st.targets) == 1 and isinstance(st.targets[0], ast.Name) and st.targets[0].id == flag:
                        if not last:
                            ok[0] = False
                            return
                        if isinstance(st.value, ast.Constant) and st.value.value is True:
                            stmts[j] = ast.copy_location(ast.Break(), st)
                        elif isinstance(st.value, ast.Constant) and st.value.value is False:
                            stmts[j] = ast.copy_location(ast.Pass(), st)
                        else:
                            stmts[j] = ast.copy_location(ast.If(test=st.value, body=[ast.copy_location(ast.Break(), st)], orelse=[]), st)
                    elif isinstance(st, ast.If) and last:
                        tail(st.body)
                        tail(st.orelse)
                    elif isinstance(st, ast.Try) and last and not st.finalbody:
                        # `try: ... except X: ... else: flag = True` - the request loop idiom
                        for h in st.handlers:
                            tail(h.body)
                        tail(st.orelse if st.orelse else st.body)
                        if st.orelse and any(isinstance(x, ast.Name) and x.id == flag for b in st.body for x in ast.walk(b)):
                            ok[0] = False
                    elif any(isinstance(x, ast.Name) and x.id == flag for x in ast.walk(st)):
                        ok[0] = False
                        return

            body_copy = [_clone(x) for x in lp.body]
            tail(body_copy)
            used_after = any(isinstance(x, ast.Name) and x.id == flag for st in block[i + 2:] for x in ast.walk(st))
            if ok[0] and not used_after:
                lp.body = body_copy
                lp.test = ast.copy_location(ast.Constant(value=True), lp.test)
                ast.fix_missing_locations(lp)
                del block[i]
                continue
        i += 1


def _stmt_key(st: ast.stmt) -> str:
    """Text of a statement for comparison; an annotated assignment compares equal to the plain one."""
    if isinstance(st, ast.AnnAssign) and st.value is not None:
        return _norm(ast.Assign(targets=[st.target], value=st.value, lineno=0, col_offset=0))
    return _norm(st)


def _return_in_loop_to_break(fn: T.Any) -> None:
    """`while True: ...; if C: return X; ...` as the LAST statement of a function, with that single return and no break
          ->  `while True: ...; if C: break; ...` followed by `return X`."""
    if not fn.body or not isinstance(fn.body[-1], ast.While):
        return
    lp = fn.body[-1]
    if not (isinstance(lp.test, ast.Constant) and lp.test.value is True) or lp.orelse:
        return
    inner = [x for st in lp.body for x in ast.walk(st)]
    if any(isinstance(x, (ast.Break, ast.Yield, ast.YieldFrom)) for x in inner) or any(isinstance(x, (ast.While, ast.For, ast.AsyncFor, ast.Try, ast.With, ast.AsyncWith)) for x in inner):
        return
    rets = [x for x in inner if isinstance(x, ast.Return)]
    if len(rets) != 1:
        return
    # the return must be the last statement of an `if` body that sits directly in the loop body
    for i, st in enumerate(lp.body):
        if isinstance(st, ast.If) and st.body and st.body[-1] is rets[0]:
            st.body[-1] = ast.copy_location(ast.Break(), rets[0])
            if st.orelse:
                # `if C: break else: rest`  ->  `if C: break` + rest
                rest, st.orelse = st.orelse, []
                lp.body[i + 1:i + 1] = rest
            fn.body.append(rets[0])
            return


def _rotate_priming(block: list[ast.stmt]) -> None:
    """`S; while T: B...; S`  (the statements S before the loop are repeated as the last statements of its body)
          ->  `while True: S; if not T: break; B...`"""
    i = 0
    while i < len(block):
        lp = block[i]
        if isinstance(lp, ast.While) and not lp.orelse and not (isinstance(lp.test, ast.Constant) and lp.test.value is True) and lp.body:
            # longest k such that the k statements before the loop equal the last k statements of the body
            k = 0
            while k < min(i, len(lp.body)) and _stmt_key(block[i - 1 - k]) == _stmt_key(lp.body[len(lp.body) - 1 - k]) and not _is_exit(block[i - 1 - k]) \
                    and not any(isinstance(x, (ast.Break, ast.Continue)) for x in ast.walk(lp.body[len(lp.body) - 1 - k])):
                k += 1
            no_jump = not any(isinstance(x, (ast.Continue,)) for st in lp.body for x in ast.walk(st))
            if k >= 1 and no_jump:
                S = block[i - k:i]
                B = lp.body[:len(lp.body) - k]
                neg = ast.copy_location(ast.UnaryOp(op=ast.Not(), operand=lp.test), lp.test)
                pos = _negative(neg)
                test = pos if pos is not None and False else neg
                # fold `not (not X)` and `not (a <= b)` style negations where trivially possible
                if isinstance(lp.test, ast.UnaryOp) and isinstance(lp.test.op, ast.Not):
                    test = lp.test.operand
                brk = ast.copy_location(ast.If(test=test, body=[ast.copy_location(ast.Break(), lp)], orelse=[]), lp)
                lp.body = S + [brk] + B
                lp.test = ast.copy_location(ast.Constant(value=True), lp.test)
                ast.fix_missing_locations(lp)
                del block[i - k:i]
                i -= k
        i += 1


def canonicalise(tree: ast.Module, known_globals: set[str] | None = None) -> None:
    _module_constants(tree, known_globals)
    _Small().visit(tree)
    for fn in [n for n in ast.walk(tree) if isinstance(n, FUNC_KINDS)]:
        fn.body = _guard_clauses(fn.body, True, False)
        if not fn.body:
            fn.body = [ast.Pass()]
    mutable: dict[int, set[str]] = {}
    for c in [n for n in ast.walk(tree) if isinstance(n, ast.ClassDef)]:
        fields: set[str] = set()
        for m in c.body:
            if isinstance(m, FUNC_KINDS) and m.name != "__init__":
                for x in ast.walk(m):
                    if isinstance(x, ast.Attribute) and isinstance(x.ctx, (ast.Store, ast.Del)) and isinstance(x.value, ast.Name) and x.value.id == "self":
                        fields.add(x.attr)
        for m in c.body:
            if isinstance(m, FUNC_KINDS):
                mutable[id(m)] = fields
    for fn in [n for n in ast.walk(tree) if isinstance(n, FUNC_KINDS)]:
        _aliases(fn, mutable.get(id(fn)))
        for b in list(_blocks(fn)):
            _accumulators(b)
            _split_tuple_assign(b)
            _flag_loops(b)
            _rotate_priming(b)
        _return_in_loop_to_break(fn)
        _ifelse_temp_to_expr(fn)
        _collapse_generated_temps(fn)
    ast.fix_missing_locations(tree)
