"""Canonical form of the in-memory AST (semantics-preserving rewrites applied before any analysis).

Maintainers rewrite code into equivalent shapes all the time; the rules should see one shape.  Every pass below is a
textbook equivalence; none moves code across an await, a lock, a try or a with boundary.  Reports keep the original line
numbers (nodes are moved, not re-created, wherever possible).

  P1  `m.get(k, None)`                       ->  `m.get(k)`
  P2  guard clauses:  `if C: <..exit>` + rest  ->  `if C: <..exit> else: rest`
      negative tests: `if not X: A else: B`    ->  `if X: B else: A`        (also `x not in S`)
      tail exits:     `... else: return` at the very end of a function body is dropped (and `if X: return` + nothing)
  P3  single-assignment aliases of an attribute chain (`v = self._a.b`, `v` bound once, chain not stored in the function)
      are substituted back
  P4  accumulator loops `xs = [..]; for t in it: [tmp = pure;] [if c:] xs.append(e)`  ->  `xs = [..] + [e for t in it if c]`
  P5  `set(<genexpr>)` -> set comprehension;  the split idiom `h = v[:n]; v = v[n:]` -> `h, v = v[:n], v[n:]`
"""
from __future__ import annotations

import ast
import typing as T

FUNC_KINDS = (ast.FunctionDef, ast.AsyncFunctionDef)


def _norm(e: ast.AST) -> str:
    return ast.unparse(e).replace(" ", "").replace("\n", "")


# ---------------------------------------------------------------------------------------------------------- P1, P5
def _unbool(e: ast.expr) -> ast.expr:
    if isinstance(e, ast.Call) and isinstance(e.func, ast.Name) and e.func.id == "bool" and len(e.args) == 1 and not e.keywords:
        return e.args[0]
    return e


def _is_boolean(e: ast.expr) -> bool:
    return isinstance(e, ast.Compare) or (isinstance(e, ast.UnaryOp) and isinstance(e.op, ast.Not)) or \
        (isinstance(e, ast.BoolOp) and all(_is_boolean(v) for v in e.values))


class _Small(ast.NodeTransformer):
    # `bool(X)` in a boolean context is X
    def visit_UnaryOp(self, n: ast.UnaryOp) -> ast.AST:
        self.generic_visit(n)
        if isinstance(n.op, ast.Not):
            n.operand = _unbool(n.operand)
        return n

    def visit_BoolOp(self, n: ast.BoolOp) -> ast.AST:
        self.generic_visit(n)
        return n

    def visit_If(self, n: ast.If) -> ast.AST:
        self.generic_visit(n)
        n.test = _unbool(n.test)
        return n

    def visit_While(self, n: ast.While) -> ast.AST:
        self.generic_visit(n)
        n.test = _unbool(n.test)
        return n

    def visit_Call(self, n: ast.Call) -> ast.AST:
        self.generic_visit(n)
        if isinstance(n.func, ast.Attribute) and n.func.attr == "get" and len(n.args) == 2 and not n.keywords \
                and isinstance(n.args[1], ast.Constant) and n.args[1].value is None:
            n.args = n.args[:1]
        if isinstance(n.func, ast.Name) and n.func.id == "bool" and len(n.args) == 1 and not n.keywords and _is_boolean(n.args[0]):
            return n.args[0]      # bool() of something that is already a bool
        if isinstance(n.func, ast.Name) and n.func.id == "set" and len(n.args) == 1 and not n.keywords and isinstance(n.args[0], ast.GeneratorExp):
            g = n.args[0]
            return ast.copy_location(ast.SetComp(elt=g.elt, generators=g.generators), n)
        return n


def _is_exit(st: ast.stmt) -> bool:
    return isinstance(st, (ast.Return, ast.Raise, ast.Continue, ast.Break))


def _always_exits(stmts: list[ast.stmt]) -> bool:
    if not stmts:
        return False
    last = stmts[-1]
    if _is_exit(last):
        return True
    if isinstance(last, ast.If) and last.orelse:
        return _always_exits(last.body) and _always_exits(last.orelse)
    return False


def _negative(test: ast.expr) -> ast.expr | None:
    """The positive form of a syntactically negative test, or None."""
    if isinstance(test, ast.UnaryOp) and isinstance(test.op, ast.Not):
        return test.operand
    if isinstance(test, ast.Compare) and len(test.ops) == 1 and isinstance(test.ops[0], ast.NotIn):
        return ast.copy_location(ast.Compare(left=test.left, ops=[ast.In()], comparators=test.comparators), test)
    if isinstance(test, ast.BoolOp) and len(test.values) >= 2:
        # De Morgan: a disjunction / conjunction whose EVERY operand is syntactically negative (`not X`, `not in`, `is not`, `!=`)
        pos = [_negative_operand(v) for v in test.values]
        if all(p is not None for p in pos):
            op = ast.And() if isinstance(test.op, ast.Or) else ast.Or()
            return ast.copy_location(ast.BoolOp(op=op, values=pos), test)
    return None


def _negative_operand(test: ast.expr) -> ast.expr | None:
    simple = _negative(test) if not isinstance(test, ast.BoolOp) else None
    if simple is not None:
        return simple
    if isinstance(test, ast.Compare) and len(test.ops) == 1 and isinstance(test.ops[0], (ast.IsNot, ast.NotEq)):
        op = ast.Is() if isinstance(test.ops[0], ast.IsNot) else ast.Eq()
        return ast.copy_location(ast.Compare(left=test.left, ops=[op], comparators=test.comparators), test)
    return None


def _bare_return(st: ast.stmt) -> bool:
    return isinstance(st, ast.Return) and (st.value is None or (isinstance(st.value, ast.Constant) and st.value.value is None))


def _some_leaf_exits(st: ast.If) -> bool:
    for br in (st.body, st.orelse):
        if br and (_is_exit(br[-1]) or (isinstance(br[-1], ast.If) and _some_leaf_exits(br[-1]))):
            return True
    return False


def _fall_through_leaves(st: ast.If) -> list[list[ast.stmt]]:
    """The statement lists at which control leaves the if-tree by falling through (an empty else branch is created)."""
    out: list[list[ast.stmt]] = []
    for field in ("body", "orelse"):
        br = getattr(st, field)
        if not br:
            out.append(br)          # the (empty) list object itself: extending it creates the else branch
        elif _always_exits(br):
            continue
        elif isinstance(br[-1], ast.If) and _some_leaf_exits(br[-1]):
            out.extend(_fall_through_leaves(br[-1]))
        else:
            out.append(br)
    return out


# ---------------------------------------------------------------------------------------------------------- P2
def _guard_clauses(block: list[ast.stmt], tail: bool, in_loop: bool, loop_tail: bool = False) -> list[ast.stmt]:
    """Rewrite one statement list (recursively).  `tail`: the block is in tail position of a function body; `loop_tail`: the
    block is in tail position of a loop body (falling off its end and `continue` are the same thing there)."""
    out: list[ast.stmt] = []
    i = 0
    if loop_tail and block and isinstance(block[-1], ast.Continue):
        block = block[:-1] or [ast.copy_location(ast.Pass(), block[-1])]
    if tail and len(block) > 1 and _bare_return(block[-1]):
        block = block[:-1]          # falling off the end of the function and a bare `return` are the same thing
    while i < len(block):
        st = block[i]
        rest = block[i + 1:]
        is_last = not rest
        if isinstance(st, ast.If):
            if not st.orelse and rest and _always_exits(st.body) and not any(isinstance(x, (ast.Continue, ast.Break)) for b in st.body for x in ast.walk(b)):
                # guard clause: the rest of the block is the else branch
                st.orelse = rest
                block = block[:i + 1]
                rest = []
                is_last = True
            elif loop_tail and not st.orelse and rest and st.body and isinstance(st.body[-1], ast.Continue) \
                    and not any(isinstance(x, (ast.Continue, ast.Break)) for b in st.body[:-1] for x in ast.walk(b)):
                # `if C: A; continue` in tail position of a loop body: the rest of the body is the else branch
                st.orelse = rest
                block = block[:i + 1]
                rest = []
                is_last = True
            elif rest and st.orelse and _always_exits(st.orelse) and not _always_exits(st.body):
                # `if C: A else: exit` - the rest of the block belongs to the branch that falls through
                st.body = list(st.body) + rest
                block = block[:i + 1]
                rest = []
                is_last = True
            elif rest and st.orelse and _always_exits(st.body) and not _always_exits(st.orelse):
                st.orelse = list(st.orelse) + rest
                block = block[:i + 1]
                rest = []
                is_last = True
            elif rest and _some_leaf_exits(st) and not _always_exits([st]) and sum(1 for r_ in rest for _ in ast.walk(r_)) <= 120:
                # an exit on SOME path through the if-tree: the rest is duplicated into the leaves that fall through, so that the
                # guard stack of every statement is its path condition
                leaves = _fall_through_leaves(st)
                for k_, lf in enumerate(leaves):
                    lf.extend(rest if k_ == 0 else [_clone(r_) for r_ in rest])
                block = block[:i + 1]
                rest = []
                is_last = True
            st.body = _guard_clauses(st.body, tail and is_last, in_loop, loop_tail and is_last)
            st.orelse = _guard_clauses(st.orelse, tail and is_last, in_loop, loop_tail and is_last)
            pos = _negative(st.test)
            if pos is not None and st.orelse and not (len(st.orelse) == 1 and isinstance(st.orelse[0], ast.If) and False):
                st.test, st.body, st.orelse = pos, st.orelse, st.body
            if tail and is_last:
                # a bare `return` branch at the very end of the function adds nothing
                if st.orelse and len(st.orelse) == 1 and _bare_return(st.orelse[0]):
                    st.orelse = []
                elif st.orelse and len(st.body) == 1 and _bare_return(st.body[0]):
                    neg = ast.copy_location(ast.UnaryOp(op=ast.Not(), operand=st.test), st.test)
                    pos2 = _negative(neg)
                    st.test, st.body, st.orelse = (neg if pos2 is None else neg), st.orelse, []
                    # `not not X` cannot arise: st.test is positive here, so the new test is `not X`
            out.append(st)
        elif isinstance(st, (ast.For, ast.AsyncFor, ast.While)):
            st.body = _guard_clauses(st.body, False, True, True)
            st.orelse = _guard_clauses(st.orelse, False, in_loop)
            out.append(st)
        elif isinstance(st, (ast.With, ast.AsyncWith)):
            st.body = _guard_clauses(st.body, tail and is_last, in_loop)
            out.append(st)
        elif isinstance(st, ast.Try):
            st.body = _guard_clauses(st.body, False, in_loop)
            for h in st.handlers:
                h.body = _guard_clauses(h.body, False, in_loop)
            st.orelse = _guard_clauses(st.orelse, False, in_loop)
            st.finalbody = _guard_clauses(st.finalbody, False, in_loop)
            out.append(st)
        else:
            out.append(st)
        i += 1
    return out


# ---------------------------------------------------------------------------------------------------------- P3
def _attr_chain(e: ast.AST) -> bool:
    while isinstance(e, ast.Attribute):
        e = e.value
    return isinstance(e, ast.Name)


def _aliases(fn: T.Any, mutable_fields: set[str] | None = None) -> None:
    params = {a.arg for a in fn.args.args + fn.args.kwonlyargs + fn.args.posonlyargs}
    own = [n for n in _own_nodes(fn)]
    binds: dict[str, list[ast.AST]] = {}
    for n in own:
        if isinstance(n, ast.Name) and isinstance(n.ctx, (ast.Store, ast.Del)):
            binds.setdefault(n.id, []).append(n)
        elif isinstance(n, ast.ExceptHandler) and n.name:
            binds.setdefault(n.name, []).append(n)
    stored_chains = {_norm(n) for n in own if isinstance(n, ast.Attribute) and isinstance(n.ctx, (ast.Store, ast.Del))}
    cand: dict[str, ast.AST] = {}
    drop: list[ast.stmt] = []
    for st in own:
        if isinstance(st, ast.Assign) and len(st.targets) == 1 and isinstance(st.targets[0], ast.Name) and isinstance(st.value, ast.Attribute) and _attr_chain(st.value):
            v = st.targets[0].id
            root = st.value
            while isinstance(root, ast.Attribute):
                root = root.value
            if len(binds.get(v, [])) != 1 or v in params:
                continue
            # the root must be `self` (and the field written only by __init__), or a local / parameter bound exactly once;
            # the chain must not be stored in this function
            if root.id == "self":
                first = st.value
                while isinstance(first.value, ast.Attribute):
                    first = first.value
                if mutable_fields is None or first.attr in mutable_fields:
                    continue
            elif root.id in params:
                if root.id in binds:
                    continue
            elif len(binds.get(root.id, [])) != 1:
                continue
            chain_txt = _norm(st.value)
            if any(s == chain_txt or chain_txt.startswith(s + ".") for s in stored_chains):
                continue
            # must be a top-level statement of some block that dominates its uses: require it to precede every use textually
            uses = [n for n in own if isinstance(n, ast.Name) and n.id == v and isinstance(n.ctx, ast.Load)]
            if not uses or any((u.lineno, u.col_offset) < (st.lineno, st.col_offset) for u in uses):
                continue
            # not inside a loop/branch deeper than its uses: keep it simple - only when the assignment is not nested in a loop
            cand[v] = st.value
            drop.append(st)
    if not cand:
        return

    class Sub(ast.NodeTransformer):
        def visit_Name(self, n: ast.Name) -> ast.AST:
            if isinstance(n.ctx, ast.Load) and n.id in cand:
                new = _clone(cand[n.id])
                for x in ast.walk(new):
                    ast.copy_location(x, n)
                return new
            return n

        def visit_FunctionDef(self, n: T.Any) -> ast.AST:
            return n if n is not fn else self.generic_visit(n)

        visit_AsyncFunctionDef = visit_FunctionDef
        visit_Lambda = visit_FunctionDef

    Sub().generic_visit(fn)
    _remove_stmts(fn, drop)


def _remove_stmts(fn: T.Any, drop: list[ast.stmt]) -> None:
    ids = {id(d) for d in drop}
    for n in ast.walk(fn):
        for field in ("body", "orelse", "finalbody"):
            b = getattr(n, field, None)
            if isinstance(b, list) and any(id(x) in ids for x in b):
                b[:] = [x for x in b if id(x) not in ids] or [ast.copy_location(ast.Pass(), b[0])]


def _clone(node: T.Any) -> T.Any:
    if isinstance(node, ast.AST):
        new = node.__class__()
        for f in node._fields:
            if hasattr(node, f):
                setattr(new, f, _clone(getattr(node, f)))
        for a in ("lineno", "col_offset", "end_lineno", "end_col_offset"):
            if hasattr(node, a):
                setattr(new, a, getattr(node, a))
        return new
    if isinstance(node, list):
        return [_clone(x) for x in node]
    return node


def _own_nodes(fn: T.Any) -> T.Iterator[ast.AST]:
    todo = list(ast.iter_child_nodes(fn))
    while todo:
        n = todo.pop()
        yield n
        if isinstance(n, FUNC_KINDS + (ast.Lambda, ast.ClassDef)):
            continue
        todo.extend(ast.iter_child_nodes(n))


# ---------------------------------------------------------------------------------------------------------- P4
def _pure(e: ast.AST) -> bool:
    for n in ast.walk(e):
        if isinstance(n, (ast.Await, ast.Yield, ast.YieldFrom, ast.NamedExpr, ast.Lambda)):
            return False
        if isinstance(n, ast.Call):
            f = n.func
            ok = isinstance(f, ast.Attribute) and f.attr in ("lower", "upper", "decode", "encode", "strip", "startswith", "endswith", "get", "items", "keys", "values") \
                or isinstance(f, ast.Name) and f.id in ("len", "min", "max", "bytes", "str", "int", "isinstance", "tuple", "list", "set")
            if not ok:
                return False
    return True


def _accumulators(block: list[ast.stmt]) -> None:
    i = 0
    while i + 1 < len(block):
        a, lp = block[i], block[i + 1]
        tgt = None
        if isinstance(a, ast.Assign) and len(a.targets) == 1 and isinstance(a.targets[0], ast.Name):
            tgt, init = a.targets[0].id, a.value
        elif isinstance(a, ast.AnnAssign) and isinstance(a.target, ast.Name) and a.value is not None:
            tgt, init = a.target.id, a.value
        if tgt is not None and isinstance(init, ast.List) and isinstance(lp, ast.For) and not lp.orelse:
            body = list(lp.body)
            temps: dict[str, ast.AST] = {}
            while body and isinstance(body[0], ast.Assign) and len(body[0].targets) == 1 and isinstance(body[0].targets[0], ast.Name) and _pure(body[0].value) and len(body) > 1:
                temps[body[0].targets[0].id] = body[0].value
                body = body[1:]
            cond = None
            if len(body) == 1 and isinstance(body[0], ast.If) and not body[0].orelse and len(body[0].body) == 1:
                cond = body[0].test
                body = body[0].body
            ok = len(body) == 1 and isinstance(body[0], ast.Expr) and isinstance(body[0].value, ast.Call) and isinstance(body[0].value.func, ast.Attribute) \
                and body[0].value.func.attr == "append" and isinstance(body[0].value.func.value, ast.Name) and body[0].value.func.value.id == tgt \
                and len(body[0].value.args) == 1 and not body[0].value.keywords
            if ok:
                elt = body[0].value.args[0]
                used_tgt = any(isinstance(x, ast.Name) and x.id == tgt for e in ([elt] + ([cond] if cond is not None else []) + list(temps.values()) + [lp.iter]) for x in ast.walk(e))
                no_susp = not any(isinstance(x, (ast.Await, ast.Yield, ast.YieldFrom)) for e in ([elt] + ([cond] if cond is not None else [])) for x in ast.walk(e))
                if not used_tgt and no_susp:
                    class T_(ast.NodeTransformer):
                        def visit_Name(self, n: ast.Name) -> ast.AST:
                            if isinstance(n.ctx, ast.Load) and n.id in temps:
                                return T_().visit(_clone(temps[n.id]))
                            return n
                    elt2 = T_().visit(_clone(elt))
                    cond2 = T_().visit(_clone(cond)) if cond is not None else None
                    comp = ast.ListComp(elt=elt2, generators=[ast.comprehension(target=lp.target, iter=lp.iter, ifs=[cond2] if cond2 is not None else [], is_async=0)])
                    ast.copy_location(comp, lp)
                    new_val = comp if not init.elts else ast.copy_location(ast.BinOp(left=init, op=ast.Add(), right=comp), a)
                    if isinstance(a, ast.Assign):
                        a.value = new_val
                    else:
                        a.value = new_val
                    ast.fix_missing_locations(a)
                    del block[i + 1]
                    continue
        i += 1


def _extend_to_concat(block: list[ast.stmt]) -> None:
    """`xs = [a, b]` directly followed by `xs.extend(<comprehension / generator>)`  ->  `xs = [a, b] + [<comprehension>]`."""
    i = 0
    while i + 1 < len(block):
        a, e = block[i], block[i + 1]
        if isinstance(a, ast.Assign) and len(a.targets) == 1 and isinstance(a.targets[0], ast.Name) and isinstance(a.value, ast.List) \
                and isinstance(e, ast.Expr) and isinstance(e.value, ast.Call) and isinstance(e.value.func, ast.Attribute) and e.value.func.attr == "extend" \
                and isinstance(e.value.func.value, ast.Name) and e.value.func.value.id == a.targets[0].id and len(e.value.args) == 1 and not e.value.keywords \
                and isinstance(e.value.args[0], (ast.GeneratorExp, ast.ListComp)) and _pure(e.value.args[0]) \
                and not any(isinstance(x, ast.Name) and x.id == a.targets[0].id for x in ast.walk(e.value.args[0])):
            g = e.value.args[0]
            comp = ast.copy_location(ast.ListComp(elt=g.elt, generators=g.generators), g)
            a.value = ast.copy_location(ast.BinOp(left=a.value, op=ast.Add(), right=comp), a.value)
            ast.fix_missing_locations(a)
            del block[i + 1]
            continue
        i += 1


def _split_tuple_assign(block: list[ast.stmt]) -> None:
    """The split idiom written as two statements, `h = v[:n]` then `v = v[n:]`, becomes `h, v = v[:n], v[n:]`
    (the second right-hand side does not mention h, so evaluating both before binding is the same)."""
    i = 0
    while i + 1 < len(block):
        a, b = block[i], block[i + 1]
        if isinstance(a, ast.Assign) and isinstance(b, ast.Assign) and len(a.targets) == len(b.targets) == 1 \
                and isinstance(a.targets[0], ast.Name) and isinstance(b.targets[0], ast.Name) \
                and isinstance(a.value, ast.Subscript) and isinstance(b.value, ast.Subscript) and isinstance(a.value.slice, ast.Slice) and isinstance(b.value.slice, ast.Slice) \
                and isinstance(a.value.value, ast.Name) and isinstance(b.value.value, ast.Name) and a.value.value.id == b.value.value.id == b.targets[0].id \
                and a.targets[0].id != b.targets[0].id and not any(isinstance(n, ast.Name) and n.id == a.targets[0].id for n in ast.walk(b.value)):
            tup = ast.Assign(targets=[ast.Tuple(elts=[a.targets[0], b.targets[0]], ctx=ast.Store())], value=ast.Tuple(elts=[a.value, b.value], ctx=ast.Load()))
            ast.copy_location(tup, a)
            ast.fix_missing_locations(tup)
            block[i:i + 2] = [tup]
        i += 1


def _ctor_call(e: ast.AST) -> bool:
    if not isinstance(e, ast.Call):
        return False
    f = e.func
    name = f.id if isinstance(f, ast.Name) else f.attr if isinstance(f, ast.Attribute) else ""
    return name[:1].isupper() and not name.isupper()


def _ifelse_temp_to_expr(fn: T.Any) -> None:
    """`if C: t = A else: t = B` for a temporary the inliner generated  ->  `t = <A if C else B>` (boolean constants folded)."""
    for b in list(_blocks(fn)):
        for i, st in enumerate(b):
            if isinstance(st, ast.If) and len(st.body) == 1 and len(st.orelse) == 1 and all(isinstance(x, ast.Assign) and len(x.targets) == 1 and isinstance(x.targets[0], ast.Name) for x in (st.body[0], st.orelse[0])):
                ta, tb = st.body[0].targets[0].id, st.orelse[0].targets[0].id
                plain_local = ta == tb and ta not in {a_.arg for a_ in fn.args.args + fn.args.kwonlyargs} and \
                    sum(1 for x in _own_nodes(fn) if isinstance(x, ast.Name) and x.id == ta and isinstance(x.ctx, (ast.Store, ast.Del))) == 2 and \
                    sum(1 for x in _own_nodes(fn) if isinstance(x, ast.Name) and x.id == ta and isinstance(x.ctx, ast.Load)) == 1 and _query(st.test) and \
                    i + 1 < len(b) and any(isinstance(x, ast.Name) and x.id == ta for x in ast.walk(b[i + 1])) and not _ctor_call(st.body[0].value) and not _ctor_call(st.orelse[0].value)
                if ta == tb and ("__" in ta or plain_local):
                    A, B = st.body[0].value, st.orelse[0].value
                    ca = A.value if isinstance(A, ast.Constant) and isinstance(A.value, bool) else None
                    cb = B.value if isinstance(B, ast.Constant) and isinstance(B.value, bool) else None
                    neg = ast.UnaryOp(op=ast.Not(), operand=st.test)
                    if ca is True:
                        e: ast.expr = ast.BoolOp(op=ast.Or(), values=[st.test, B])
                    elif cb is False:
                        e = ast.BoolOp(op=ast.And(), values=[st.test, A])
                    elif ca is False:
                        e = ast.BoolOp(op=ast.And(), values=[neg, B])
                    elif cb is True:
                        e = ast.BoolOp(op=ast.Or(), values=[neg, A])
                    else:
                        e = ast.IfExp(test=st.test, body=A, orelse=B)
                    new_st = ast.copy_location(ast.Assign(targets=[ast.Name(id=ta, ctx=ast.Store())], value=e), st)
                    ast.fix_missing_locations(new_st)
                    b[i] = new_st


def _collapse_generated_temps(fn: T.Any) -> None:
    """`x__helperN = E` directly followed by `t = x__helperN` (the temporary the inliner made, used once)  ->  `t = E`;
    a generated temporary that is a plain copy of a single-assignment local is replaced by that local."""
    stores: dict[str, list[ast.AST]] = {}
    for n in _own_nodes(fn):
        if isinstance(n, ast.Name) and isinstance(n.ctx, (ast.Store, ast.Del)):
            stores.setdefault(n.id, []).append(n)
    params = {a.arg for a in fn.args.args + fn.args.kwonlyargs}
    for b in list(_blocks(fn)):
        for st in list(b):
            if isinstance(st, ast.Assign) and len(st.targets) == 1 and isinstance(st.targets[0], ast.Name) and "__v" in st.targets[0].id and isinstance(st.value, ast.Name):
                t, src = st.targets[0].id, st.value.id
                if len(stores.get(t, [])) == 1 and len(stores.get(src, [])) == 1 and src not in params:
                    for n in _own_nodes(fn):
                        if isinstance(n, ast.Name) and n.id == t and isinstance(n.ctx, ast.Load):
                            n.id = src
                    b.remove(st)
                    if not b:
                        b.append(ast.copy_location(ast.Pass(), st))
    loads: dict[str, int] = {}
    for n in _own_nodes(fn):
        if isinstance(n, ast.Name) and isinstance(n.ctx, ast.Load):
            loads[n.id] = loads.get(n.id, 0) + 1
    for b in list(_blocks(fn)):
        i = 0
        while i + 1 < len(b):
            a, c = b[i], b[i + 1]
            if isinstance(a, ast.Assign) and len(a.targets) == 1 and isinstance(a.targets[0], ast.Name) \
                    and ("__" in a.targets[0].id or (isinstance(c, ast.Assign) and len(stores.get(a.targets[0].id, [])) == 1 and a.targets[0].id not in params)) \
                    and isinstance(c, (ast.Assign, ast.Return)) and isinstance(c.value, ast.Name) and c.value.id == a.targets[0].id and loads.get(a.targets[0].id, 0) == 1:
                c.value = a.value
                del b[i]
                continue
            i += 1


def _blocks(node: ast.AST) -> T.Iterator[list[ast.stmt]]:
    for n in ast.walk(node):
        for field in ("body", "orelse", "finalbody"):
            b = getattr(n, field, None)
            if isinstance(b, list) and b and all(isinstance(x, ast.stmt) for x in b):
                yield b
        if isinstance(n, ast.Try):
            for h in n.handlers:
                yield h.body


def _literal(e: ast.AST) -> bool:
    """A literal whose every leaf is a constant, a name or an attribute chain (no calls): safe to copy to its use sites."""
    if isinstance(e, ast.Constant):
        return True
    if isinstance(e, (ast.Tuple, ast.List, ast.Set)):
        return all(_literal(x) or _attr_chain(x) or isinstance(x, ast.Name) for x in e.elts)
    if isinstance(e, ast.Dict):
        return all(k is not None and (_literal(k) or _attr_chain(k) or isinstance(k, ast.Name)) and (_literal(v) or _attr_chain(v) or isinstance(v, ast.Name)) for k, v in zip(e.keys, e.values))
    return False


def _module_constants(tree: ast.Module, known_globals: set[str] | None) -> None:
    """A NEW private module-level constant bound once to a literal tuple / list / set / dict / constant is copied back to its use
    sites (`_TLS_SCHEMES = (b"https", b"wss")` ... `scheme in _TLS_SCHEMES`  ->  `scheme in (b"https", b"wss")`)."""
    if known_globals is None:
        return
    binds: dict[str, list[ast.stmt]] = {}
    for st in tree.body:
        tg = None
        if isinstance(st, ast.Assign) and len(st.targets) == 1 and isinstance(st.targets[0], ast.Name):
            tg = st.targets[0].id
        elif isinstance(st, ast.AnnAssign) and isinstance(st.target, ast.Name) and st.value is not None:
            tg = st.target.id
        if tg is not None:
            binds.setdefault(tg, []).append(st)
    consts: dict[str, ast.AST] = {}
    for name, sts in binds.items():
        if name in known_globals or len(sts) != 1 or not (name.startswith("_") or name.isupper()):
            continue
        val = sts[0].value  # type: ignore[attr-defined]
        if not _literal(val):
            continue
        # never rebound or mutated anywhere in the module
        stores = [n for n in ast.walk(tree) if isinstance(n, ast.Name) and n.id == name and isinstance(n.ctx, (ast.Store, ast.Del))]
        mutated = any(isinstance(n, ast.Attribute) and isinstance(n.value, ast.Name) and n.value.id == name and n.attr in
                      ("append", "extend", "insert", "pop", "remove", "clear", "update", "setdefault", "add", "discard", "sort", "reverse", "popitem") for n in ast.walk(tree)) or \
            any(isinstance(n, ast.Subscript) and isinstance(n.value, ast.Name) and n.value.id == name and isinstance(n.ctx, (ast.Store, ast.Del)) for n in ast.walk(tree)) or \
            any(isinstance(n, (ast.Global, ast.Nonlocal)) and name in n.names for n in ast.walk(tree))
        if len(stores) != 1 or mutated:
            continue
        consts[name] = val
    if not consts:
        return

    class Sub(ast.NodeTransformer):
        def visit_Name(self, n: ast.Name) -> ast.AST:
            if isinstance(n.ctx, ast.Load) and n.id in consts:
                new = _clone(consts[n.id])
                for x in ast.walk(new):
                    ast.copy_location(x, n)
                return new
            return n

    for fn in [n for n in ast.walk(tree) if isinstance(n, FUNC_KINDS)]:
        shadow = {a.arg for a in fn.args.args + fn.args.kwonlyargs} | {x.id for x in _own_nodes(fn) if isinstance(x, ast.Name) and isinstance(x.ctx, ast.Store)}
        if shadow & set(consts):
            continue
        Sub().generic_visit(fn)


def _flag_loops(block: list[ast.stmt]) -> None:
    """`flag = False; while not flag: ...; flag = True`  ->  `while True: ...; break`   (the flag is written only in tail position of
    the loop body and read only by the loop test).  Also `...; flag = <cond>` as the last statement -> `if <cond>: break`."""
    i = 0
    while i + 1 < len(block):
        a, lp = block[i], block[i + 1]
        if isinstance(a, ast.Assign) and len(a.targets) == 1 and isinstance(a.targets[0], ast.Name) and isinstance(a.value, ast.Constant) and a.value.value is False \
                and isinstance(lp, ast.While) and not lp.orelse and isinstance(lp.test, ast.UnaryOp) and isinstance(lp.test.op, ast.Not) \
                and isinstance(lp.test.operand, ast.Name) and lp.test.operand.id == a.targets[0].id:
            flag = a.targets[0].id
            ok = [True]

            def tail(stmts: list[ast.stmt]) -> None:
                """rewrite tail-position writes of the flag; any other occurrence makes the rewrite invalid"""
                for j, st in enumerate(stmts):
                    last = j == len(stmts) - 1
                    if isinstance(st, ast.Assign) and len(st.targets) == 1 and isinstance(st.targets[0], ast.Name) and st.targets[0].id == flag:
                        if not last:
                            ok[0] = False
                            return
                        if isinstance(st.value, ast.Constant) and st.value.value is True:
                            stmts[j] = ast.copy_location(ast.Break(), st)
                        elif isinstance(st.value, ast.Constant) and st.value.value is False:
                            stmts[j] = ast.copy_location(ast.Pass(), st)
                        else:
                            stmts[j] = ast.copy_location(ast.If(test=st.value, body=[ast.copy_location(ast.Break(), st)], orelse=[]), st)
                    elif isinstance(st, ast.If) and last:
                        tail(st.body)
                        tail(st.orelse)
                    elif isinstance(st, ast.Try) and last and not st.finalbody:
                        # `try: ... except X: ... else: flag = True` - the request loop idiom
                        for h in st.handlers:
                            tail(h.body)
                        tail(st.orelse if st.orelse else st.body)
                        if st.orelse and any(isinstance(x, ast.Name) and x.id == flag for b in st.body for x in ast.walk(b)):
                            ok[0] = False
                    elif any(isinstance(x, ast.Name) and x.id == flag for x in ast.walk(st)):
                        ok[0] = False
                        return

            body_copy = [_clone(x) for x in lp.body]
            tail(body_copy)
            used_after = any(isinstance(x, ast.Name) and x.id == flag for st in block[i + 2:] for x in ast.walk(st))
            if ok[0] and not used_after:
                lp.body = body_copy
                lp.test = ast.copy_location(ast.Constant(value=True), lp.test)
                ast.fix_missing_locations(lp)
                del block[i]
                continue
        i += 1


def _break_then_exit(block: list[ast.stmt]) -> None:
    """for x in L:                         for x in L:
           if P: S; break         ==>          if P: S; REST
       else:                               E
           E
       REST (always raises / returns)
    The single break only served to reach REST; with REST in its place the else clause is what follows a loop that ran out."""
    i = 0
    while i < len(block):
        lp = block[i]
        rest = block[i + 1:]
        if isinstance(lp, (ast.For, ast.AsyncFor)) and lp.orelse and rest and isinstance(rest[-1], (ast.Raise, ast.Return)) \
                and not any(isinstance(x, (ast.Break, ast.Continue)) for st in rest for x in ast.walk(st)) and sum(1 for st in rest for _ in ast.walk(st)) <= 80:
            holders = []
            def find(stmts: list[ast.stmt]) -> None:
                for j, st in enumerate(stmts):
                    if isinstance(st, ast.Break):
                        holders.append((stmts, j))
                    elif isinstance(st, (ast.For, ast.AsyncFor, ast.While)):
                        continue
                    else:
                        for fld in ("body", "orelse", "finalbody"):
                            find(getattr(st, fld, []) or [])
                        for h in getattr(st, "handlers", []) or []:
                            find(h.body)
            find(lp.body)
            if len(holders) == 1 and holders[0][1] == len(holders[0][0]) - 1:
                stmts, j = holders[0]
                tail = lp.orelse
                # an else clause that falls through runs into REST as well
                follow = [] if _always_exits(tail) else [_clone(r_) for r_ in rest]
                stmts[j:j + 1] = rest
                lp.orelse = []
                block[i + 1:] = tail + follow
        i += 1


def _flag_loops_fn(fn: T.Any) -> None:
    """The same rewrite when the initialisation `flag = False` and the `while not flag:` loop are not adjacent (the loop sits in a
    `try`, other set-up lies in between): the flag must have no other reader than the loop test and no other writer than its
    initialisation and the loop body."""
    own = list(_own_nodes(fn))
    for lp in [n for n in own if isinstance(n, ast.While)]:
        if lp.orelse or not (isinstance(lp.test, ast.UnaryOp) and isinstance(lp.test.op, ast.Not) and isinstance(lp.test.operand, ast.Name)):
            continue
        flag = lp.test.operand.id
        inside = {id(x) for st in lp.body for x in ast.walk(st)}
        occ = [n for n in own if isinstance(n, ast.Name) and n.id == flag]
        outside = [n for n in occ if id(n) not in inside and n is not lp.test.operand]
        if len(outside) != 1 or not isinstance(outside[0].ctx, ast.Store):
            continue
        init = next((st for st in own if isinstance(st, ast.Assign) and len(st.targets) == 1 and st.targets[0] is outside[0]), None)
        if init is None or not (isinstance(init.value, ast.Constant) and init.value.value is False) or init.lineno > lp.lineno:
            continue
        if any(isinstance(x, (ast.For, ast.AsyncFor, ast.While)) and any(y is init for y in ast.walk(x)) for x in own):
            continue
        # place the initialisation next to the loop in a scratch block and reuse the adjacent-form rewrite
        scratch: list[ast.stmt] = [init, lp]
        _flag_loops(scratch)
        if len(scratch) == 1:
            for b in _blocks(fn):
                if any(x is init for x in b):
                    b[:] = [x for x in b if x is not init] or [ast.copy_location(ast.Pass(), init)]
                    break


def _stmt_key(st: ast.stmt) -> str:
    """Text of a statement for comparison; an annotated assignment compares equal to the plain one."""
    if isinstance(st, ast.AnnAssign) and st.value is not None:
        return _norm(ast.Assign(targets=[st.target], value=st.value, lineno=0, col_offset=0))
    return _norm(st)


def _inline_named_tests(fn: T.Any) -> None:
    """`t = <side-effect free test>` directly followed by `if t:` / `while t:` (t bound once, read once)  ->  `if <test>:`."""
    own = list(_own_nodes(fn))
    stores: dict[str, int] = {}
    loads: dict[str, int] = {}
    for n in own:
        if isinstance(n, ast.Name):
            d = stores if isinstance(n.ctx, (ast.Store, ast.Del)) else loads
            d[n.id] = d.get(n.id, 0) + 1
    params = {a.arg for a in fn.args.args + fn.args.kwonlyargs}
    for b in list(_blocks(fn)):
        i = 0
        while i + 1 < len(b):
            a, nx = b[i], b[i + 1]
            host_field = "test" if isinstance(nx, ast.If) else "value" if isinstance(nx, (ast.Assign, ast.AnnAssign, ast.Return)) and getattr(nx, "value", None) is not None else None
            if isinstance(a, ast.Assign) and len(a.targets) == 1 and isinstance(a.targets[0], ast.Name) and host_field is not None:
                t = a.targets[0].id
                boolish = isinstance(a.value, (ast.Compare, ast.BoolOp)) or (isinstance(a.value, ast.UnaryOp) and isinstance(a.value.op, ast.Not))
                if boolish and t not in params and stores.get(t) == 1 and loads.get(t) == 1 and _query(a.value):
                    host = getattr(nx, host_field)
                    hits = [x for x in ast.walk(host) if isinstance(x, ast.Name) and x.id == t]
                    # the test is evaluated before anything in the host that could disturb what it reads
                    early = _query(host) or (isinstance(host, ast.IfExp) and any(x is hits[0] for x in ast.walk(host.test))) if hits else False
                    if len(hits) == 1 and early:
                        class S_(ast.NodeTransformer):
                            def visit_Name(self, n: ast.Name) -> ast.AST:
                                return _clone(a.value) if n is hits[0] else n
                        setattr(nx, host_field, S_().visit(host))
                        ast.fix_missing_locations(nx)
                        del b[i]
                        i = max(i - 1, 0)       # a chain of named tests collapses step by step
                        continue
            i += 1


def _snapshot_aliases(fn: T.Any) -> None:
    """`v = self.f` (v bound once) whose every use is reached before anything can change `self.f` - no store to the field, no
    call, no suspension in between - is a mere abbreviation: the uses read `self.f` again.  Decided on straight-line code: the
    uses must follow the binding in the same or a nested block, and the statements are scanned in order up to the last use."""
    own = list(_own_nodes(fn))
    stores: dict[str, int] = {}
    for n in own:
        if isinstance(n, ast.Name) and isinstance(n.ctx, (ast.Store, ast.Del)):
            stores[n.id] = stores.get(n.id, 0) + 1
    params = {a.arg for a in fn.args.args + fn.args.kwonlyargs}
    for b in list(_blocks(fn)):
        for i, a in enumerate(list(b)):
            if not (isinstance(a, ast.Assign) and len(a.targets) == 1 and isinstance(a.targets[0], ast.Name) and isinstance(a.value, ast.Attribute)
                    and isinstance(a.value.value, ast.Name) and a.value.value.id == "self"):
                continue
            v, fld = a.targets[0].id, a.value.attr
            if v in params or a not in b:
                continue
            k = b.index(a)
            rest = b[k + 1:]
            uses = [x for st in rest for x in ast.walk(st) if isinstance(x, ast.Name) and x.id == v]
            all_uses = [x for x in own if isinstance(x, ast.Name) and x.id == v and isinstance(x.ctx, ast.Load)]
            if stores.get(v) != 1:
                # several bindings of v (one per branch): this one owns the reads that follow it in ITS block, provided v is not
                # re-bound there and every other read of v follows another binding in another block in the same way
                if any(isinstance(x.ctx, (ast.Store, ast.Del)) for x in uses):
                    continue
                others = [d for d in own if isinstance(d, ast.Assign) and d is not a and len(d.targets) == 1 and isinstance(d.targets[0], ast.Name) and d.targets[0].id == v]
                claimed = set(id(x) for x in uses)
                fine = len(others) + 1 == stores.get(v)
                for d in others:
                    blk = next((bb for bb in _blocks(fn) if any(x is d for x in bb)), None)
                    if blk is None or any(x is d for st in rest for x in ast.walk(st)):
                        fine = False
                        break
                    after = blk[next(j for j, x in enumerate(blk) if x is d) + 1:]
                    claimed |= {id(x) for st in after for x in ast.walk(st) if isinstance(x, ast.Name) and x.id == v and isinstance(x.ctx, ast.Load)}
                if not fine or claimed != {id(x) for x in all_uses}:
                    continue
                all_uses = uses
            if not uses or len(uses) != len(all_uses) or any(isinstance(x, (ast.For, ast.AsyncFor, ast.While)) for st in rest for x in ast.walk(st) if any(u in list(ast.walk(x)) for u in uses)):
                continue
            # scan simple statements in order; a statement may use v and then disturb the field (evaluation before the store)
            disturbed = False
            ok = True
            def scan(stmts: list[ast.stmt]) -> None:
                nonlocal disturbed, ok
                for st in stmts:
                    if not ok:
                        return
                    if isinstance(st, (ast.If,)):
                        if disturbed and any(x in uses for x in ast.walk(st.test)):
                            ok = False
                            return
                        if any(isinstance(x, (ast.Call, ast.Await)) for x in ast.walk(st.test)) and not _query(st.test):
                            disturbed = True
                        before = disturbed
                        scan(st.body)
                        after_body = disturbed
                        disturbed = before
                        scan(st.orelse)
                        disturbed = disturbed or after_body
                        continue
                    if isinstance(st, (ast.With, ast.AsyncWith, ast.Try, ast.For, ast.AsyncFor, ast.While)):
                        if any(x in uses for x in ast.walk(st)):
                            ok = False
                            return
                        disturbed = True
                        continue
                    has_use = any(x in uses for x in ast.walk(st))
                    if has_use and disturbed:
                        ok = False
                        return
                    writes_field = any(isinstance(x, ast.Attribute) and x.attr == fld and isinstance(x.ctx, (ast.Store, ast.Del)) for x in ast.walk(st))
                    calls = any(isinstance(x, (ast.Await, ast.Yield, ast.YieldFrom)) for x in ast.walk(st)) or not _query(st.value if isinstance(st, (ast.Assign, ast.AugAssign, ast.AnnAssign, ast.Expr, ast.Return)) and getattr(st, "value", None) is not None else ast.Pass())
                    top = getattr(st, "value", None)
                    top = top.value if isinstance(top, ast.Await) else top
                    recv_only = isinstance(top, ast.Call) and isinstance(top.func, ast.Attribute) and any(top.func.value is u for u in uses) \
                        and sum(1 for x in ast.walk(st) if any(x is u for u in uses)) == 1 and all(_query(a_) for a_ in list(top.args) + [k_.value for k_ in top.keywords])
                    if has_use and calls and recv_only:
                        disturbed = True        # the receiver is read before the call runs
                        continue
                    if has_use and calls and not isinstance(st, ast.Return):
                        # the use and a call in one statement: order inside the statement is not analysed
                        ok = False
                        return
                    if writes_field or calls:
                        disturbed = True
            scan(rest)
            if not ok:
                continue
            for u in uses:
                u_parent = next(p for p in own if any(ch is u for ch in ast.iter_child_nodes(p)))
                new = ast.copy_location(_clone(a.value), u)
                for fname, val in ast.iter_fields(u_parent):
                    if val is u:
                        setattr(u_parent, fname, new)
                    elif isinstance(val, list):
                        for j, x in enumerate(val):
                            if x is u:
                                val[j] = new
            b.remove(a)
            own = list(_own_nodes(fn))
            stores = {}
            for n in own:
                if isinstance(n, ast.Name) and isinstance(n.ctx, (ast.Store, ast.Del)):
                    stores[n.id] = stores.get(n.id, 0) + 1


def _conditional_wrap(fn: T.Any) -> None:
    """Two spellings of `x is W(base) if C else base` are brought to one:
         x = W(..) if C else B                  ->   if C: x = W(..) else: x = B
         x = B; if C: x = W(..x..)  (no else)   ->   if C: x = W(..B..) else: x = B        (B an attribute chain, W a constructor)"""
    def ctor(e: ast.AST) -> bool:
        if not isinstance(e, ast.Call):
            return False
        f = e.func
        name = f.id if isinstance(f, ast.Name) else f.attr if isinstance(f, ast.Attribute) else ""
        return name[:1].isupper() and not name.isupper()
    for b in list(_blocks(fn)):
        i = 0
        while i < len(b):
            st = b[i]
            tg = st.targets[0] if isinstance(st, ast.Assign) and len(st.targets) == 1 else st.target if isinstance(st, ast.AnnAssign) and st.value is not None else None
            if isinstance(tg, ast.Name) and isinstance(st.value, ast.IfExp) and (ctor(st.value.body) != ctor(st.value.orelse)) and _query(st.value.test):  # type: ignore[union-attr]
                e = st.value  # type: ignore[union-attr]
                new = ast.If(test=e.test, body=[ast.Assign(targets=[ast.Name(id=tg.id, ctx=ast.Store())], value=e.body)], orelse=[ast.Assign(targets=[ast.Name(id=tg.id, ctx=ast.Store())], value=e.orelse)])
                ast.fix_missing_locations(ast.copy_location(new, st))
                for x in ast.walk(new):
                    if not hasattr(x, "lineno"):
                        ast.copy_location(x, st)
                b[i] = new
            elif isinstance(tg, ast.Name) and _attr_chain(st.value) and isinstance(st.value, ast.Attribute) and i + 1 < len(b) and isinstance(b[i + 1], ast.If) and not b[i + 1].orelse \
                    and len(b[i + 1].body) == 1 and isinstance(b[i + 1].body[0], ast.Assign) and len(b[i + 1].body[0].targets) == 1 \
                    and isinstance(b[i + 1].body[0].targets[0], ast.Name) and b[i + 1].body[0].targets[0].id == tg.id and ctor(b[i + 1].body[0].value) \
                    and _query(b[i + 1].test) and not any(isinstance(x, ast.Name) and x.id == tg.id for x in ast.walk(b[i + 1].test)):
                nx = b[i + 1]
                base_ = st.value
                class S_(ast.NodeTransformer):
                    def visit_Name(self, n: ast.Name) -> ast.AST:
                        return ast.copy_location(_clone(base_), n) if n.id == tg.id and isinstance(n.ctx, ast.Load) else n
                nx.body[0].value = S_().visit(nx.body[0].value)
                nx.orelse = [ast.copy_location(ast.Assign(targets=[ast.Name(id=tg.id, ctx=ast.Store())], value=_clone(base_)), st)]
                ast.fix_missing_locations(nx)
                del b[i]
                continue
            i += 1


def _dead_constant_stores(fn: T.Any) -> None:
    """`v = None` (any constant) for a local that is never read - what is left of an abbreviation whose uses were substituted."""
    own = list(_own_nodes(fn))
    loaded = {n.id for n in own if isinstance(n, ast.Name) and isinstance(n.ctx, (ast.Load, ast.Del))}
    params = {a.arg for a in fn.args.args + fn.args.kwonlyargs}
    for b in list(_blocks(fn)):
        for st in list(b):
            if isinstance(st, ast.Assign) and len(st.targets) == 1 and isinstance(st.targets[0], ast.Name) and isinstance(st.value, ast.Constant) \
                    and st.targets[0].id not in loaded and st.targets[0].id not in params:
                b.remove(st)
                if not b:
                    b.append(ast.copy_location(ast.Pass(), st))


def _distribute_selected_callee(fn: T.Any) -> None:
    """`if C: K = A else: K = B` followed by one statement that calls `K(...)` (K used nowhere else)
         ->  the statement moves into the branches with the chosen callee written out: `if C: v = A(...) else: v = B(...)`."""
    own = list(_own_nodes(fn))
    for b in list(_blocks(fn)):
        # a bare annotation `K: T` declares nothing at run time
        b[:] = [st for st in b if not (isinstance(st, ast.AnnAssign) and st.value is None and isinstance(st.target, ast.Name))] or [ast.Pass()]
        i = 0
        while i + 1 < len(b):
            tree, nx = b[i], b[i + 1]
            if isinstance(tree, ast.If) and isinstance(nx, (ast.Assign, ast.Expr, ast.Return)):
                leaves = _leaves(tree)
                ks = {lf[-1].targets[0].id for lf in (leaves or []) if lf and isinstance(lf[-1], ast.Assign) and len(lf[-1].targets) == 1 and isinstance(lf[-1].targets[0], ast.Name)
                      and (isinstance(lf[-1].value, ast.Name) or _attr_chain(lf[-1].value))}
                if leaves and len(ks) == 1 and all(lf and isinstance(lf[-1], ast.Assign) and isinstance(lf[-1].targets[0], ast.Name) and lf[-1].targets[0].id in ks
                                                   and (isinstance(lf[-1].value, ast.Name) or _attr_chain(lf[-1].value)) for lf in leaves):
                    K = next(iter(ks))
                    loads = [n for n in own if isinstance(n, ast.Name) and n.id == K and isinstance(n.ctx, ast.Load)]
                    calls = [c for c in ast.walk(nx) if isinstance(c, ast.Call) and isinstance(c.func, ast.Name) and c.func.id == K]
                    if len(loads) == 1 and len(calls) == 1 and calls[0].func is loads[0]:
                        for lf in leaves:
                            chosen = lf[-1].value
                            cp = _clone(nx)
                            for c in ast.walk(cp):
                                if isinstance(c, ast.Call) and isinstance(c.func, ast.Name) and c.func.id == K:
                                    c.func = ast.copy_location(_clone(chosen), c.func)
                            ast.fix_missing_locations(cp)
                            lf[-1] = cp
                        del b[i + 1]
                        own = list(_own_nodes(fn))
                        continue
            i += 1


def _distribute_tuple_local(fn: T.Any) -> None:
    """`if C: t = (a1, a2) else: t = (b1, b2)` followed by `x, y = t` (t used nowhere else)
         ->  `if C: x = a1; y = a2 else: x = b1; y = b2`   (no value reads one of the targets)."""
    own = list(_own_nodes(fn))
    for b in list(_blocks(fn)):
        i = 0
        while i + 1 < len(b):
            tree, un = b[i], b[i + 1]
            if isinstance(tree, ast.If) and isinstance(un, ast.Assign) and len(un.targets) == 1 and isinstance(un.targets[0], ast.Tuple) and isinstance(un.value, ast.Name):
                t = un.value.id
                tg = un.targets[0].elts
                uses = [n for n in own if isinstance(n, ast.Name) and n.id == t]
                leaves = _leaves(tree)
                if leaves and all(lf and isinstance(lf[-1], ast.Assign) and len(lf[-1].targets) == 1 and isinstance(lf[-1].targets[0], ast.Name) and lf[-1].targets[0].id == t
                                  and isinstance(lf[-1].value, ast.Tuple) and len(lf[-1].value.elts) == len(tg) for lf in leaves) and len(uses) == len(leaves) + 1:
                    tnames = {_norm(x) for x in tg}
                    if not any(_norm(y) in tnames for lf in leaves for e in lf[-1].value.elts for y in ast.walk(e) if isinstance(y, (ast.Name, ast.Attribute))):
                        for lf in leaves:
                            last = lf[-1]
                            lf[-1:] = [ast.fix_missing_locations(ast.copy_location(ast.Assign(targets=[_clone(x)], value=e), last)) for x, e in zip(tg, last.value.elts)]
                        del b[i + 1]
                        own = list(_own_nodes(fn))
                        continue
            i += 1


def _tail_bool_returns(fn: T.Any) -> None:
    """A predicate that ends `if C: return False else: return E` (any of the four constant placements)  ->  `return not C and E`; chains (`elif`) are folded from
    the innermost test outwards.  Order and number of evaluations are those of the if-chain, so the operands need not be pure; where the value of the test
    itself becomes the result it must be a boolean expression."""
    def fold(st: ast.stmt) -> ast.stmt:
        if not isinstance(st, ast.If) or len(st.body) != 1 or len(st.orelse) != 1:
            return st
        b, o = fold(st.body[0]), fold(st.orelse[0])
        if not (isinstance(b, ast.Return) and isinstance(o, ast.Return) and b.value is not None and o.value is not None):
            return st
        if any(isinstance(n, (ast.Await, ast.Yield, ast.YieldFrom, ast.NamedExpr)) for x in (st.test, b.value, o.value) for n in ast.walk(x)):
            return st
        A, B = b.value, o.value
        ca = A.value if isinstance(A, ast.Constant) and isinstance(A.value, bool) else None
        cb = B.value if isinstance(B, ast.Constant) and isinstance(B.value, bool) else None
        neg = ast.UnaryOp(op=ast.Not(), operand=st.test)
        if ca is True and _is_boolean(st.test):
            e: ast.expr = ast.BoolOp(op=ast.Or(), values=[st.test, B])
        elif cb is False and _is_boolean(st.test):
            e = ast.BoolOp(op=ast.And(), values=[st.test, A])
        elif ca is False:
            e = ast.BoolOp(op=ast.And(), values=[neg, B])
        elif cb is True:
            e = ast.BoolOp(op=ast.Or(), values=[neg, A])
        else:
            return st
        new = ast.copy_location(ast.Return(value=e), st)
        ast.fix_missing_locations(new)
        return new
    if fn.body and isinstance(fn.body[-1], ast.If):
        fn.body[-1] = fold(fn.body[-1])


def _hoist_common_tail_return(fn: T.Any) -> None:
    """`if C: A; return x else: B; return x` as the last statement of a function  ->  `if C: A else: B` + `return x`
    (x a plain name / constant: evaluating it later changes nothing)."""
    for _ in range(4):
        if not fn.body or not isinstance(fn.body[-1], ast.If):
            return
        st = fn.body[-1]
        if not (st.body and st.orelse and isinstance(st.body[-1], ast.Return) and isinstance(st.orelse[-1], ast.Return)):
            return
        a, b = st.body[-1], st.orelse[-1]
        if a.value is None or not isinstance(a.value, (ast.Name, ast.Constant)) or b.value is None or ast.dump(a.value) != ast.dump(b.value):
            return
        st.body, st.orelse = st.body[:-1], st.orelse[:-1]
        if not st.body and not st.orelse:
            fn.body[-1:] = [a]
            return
        if not st.body:
            st.test = ast.copy_location(ast.UnaryOp(op=ast.Not(), operand=st.test), st.test)
            st.body, st.orelse = st.orelse, []
        fn.body.append(a)
        fn.body[:] = _guard_clauses(fn.body, True, False)


def _walrus_loops(fn: T.Any) -> None:
    """`while (v := E) <op> K: body`  ->  `v = E` / `while v <op> K: body; v = E`  (the priming form the repository uses)."""
    for b in list(_blocks(fn)):
        i = 0
        while i < len(b):
            lp = b[i]
            if isinstance(lp, ast.While) and not lp.orelse:
                t = lp.test
                ne = t.left if isinstance(t, ast.Compare) and isinstance(t.left, ast.NamedExpr) else t if isinstance(t, ast.NamedExpr) else \
                    t.operand if isinstance(t, ast.UnaryOp) and isinstance(t.op, ast.Not) and isinstance(t.operand, ast.NamedExpr) else None
                if ne is not None and isinstance(ne.target, ast.Name) and sum(1 for x in ast.walk(t) if isinstance(x, ast.NamedExpr)) == 1 \
                        and not any(isinstance(x, ast.Continue) for st in lp.body for x in ast.walk(st)):
                    v = ne.target.id
                    prime = ast.copy_location(ast.Assign(targets=[ast.Name(id=v, ctx=ast.Store())], value=ne.value), lp)
                    again = ast.copy_location(ast.Assign(targets=[ast.Name(id=v, ctx=ast.Store())], value=_clone(ne.value)), lp)
                    ref = ast.copy_location(ast.Name(id=v, ctx=ast.Load()), ne)
                    if isinstance(t, ast.Compare):
                        t.left = ref
                    elif isinstance(t, ast.UnaryOp):
                        t.operand = ref
                    else:
                        lp.test = ref
                    lp.body.append(again)
                    ast.fix_missing_locations(prime)
                    ast.fix_missing_locations(lp)
                    b[i:i] = [prime]
                    i += 1
            i += 1


def _expand_starred_tuples(fn: T.Any) -> None:
    """`t = (a, b, c)` (t bound once to a tuple of plain names) used only as `f(*t)`  ->  `f(a, b, c)`."""
    own = list(_own_nodes(fn))
    for b in list(_blocks(fn)):
        for st in list(b):
            if isinstance(st, ast.Assign) and len(st.targets) == 1 and isinstance(st.targets[0], ast.Name) and isinstance(st.value, ast.Tuple) \
                    and all(isinstance(e, ast.Name) for e in st.value.elts):
                t = st.targets[0].id
                stores = [n for n in own if isinstance(n, ast.Name) and n.id == t and isinstance(n.ctx, (ast.Store, ast.Del))]
                loads = [n for n in own if isinstance(n, ast.Name) and n.id == t and isinstance(n.ctx, ast.Load)]
                elts = {e.id for e in st.value.elts}
                rebound = any(isinstance(n, ast.Name) and n.id in elts and isinstance(n.ctx, (ast.Store, ast.Del)) for n in own)
                starred = [n for n in own if isinstance(n, ast.Starred) and any(n.value is l for l in loads)]
                calls = [c for c in own if isinstance(c, ast.Call) and any(a in starred for a in c.args)]
                if len(stores) == 1 and loads and len(starred) == len(loads) and not rebound and len(calls) == len(starred):
                    for c in calls:
                        new_args: list[ast.expr] = []
                        for a in c.args:
                            if a in starred:
                                new_args += [ast.copy_location(ast.Name(id=e.id, ctx=ast.Load()), a) for e in st.value.elts]
                            else:
                                new_args.append(a)
                        c.args = new_args
                    b.remove(st)
                    if not b:
                        b.append(ast.copy_location(ast.Pass(), st))
                    own = list(_own_nodes(fn))


def _drop_empty_else(fn: T.Any) -> None:
    for n in _own_nodes(fn):
        if isinstance(n, ast.If) and n.orelse and all(isinstance(x, ast.Pass) for x in n.orelse) and n.body and not all(isinstance(x, ast.Pass) for x in n.body):
            n.orelse = []


def _merge_identical_branches(fn: T.Any) -> None:
    """`if A: S elif B: S [else: R]`  ->  `if A or B: S [else: R]`  (same statements, side-effect free tests)."""
    changed = True
    while changed:
        changed = False
        for n in list(_own_nodes(fn)):
            if isinstance(n, ast.If) and len(n.orelse) == 1 and isinstance(n.orelse[0], ast.If):
                m = n.orelse[0]
                if [ast.dump(x) for x in n.body] == [ast.dump(x) for x in m.body] and _query(n.test) and _query(m.test):
                    n.test = ast.copy_location(ast.BoolOp(op=ast.Or(), values=[n.test, m.test]), n.test)
                    n.orelse = m.orelse
                    changed = True
                    break


def _return_in_loop_to_break(fn: T.Any) -> None:
    """`while True: ...; if C: return X; ...` as the LAST statement of a function, with that single return and no break
          ->  `while True: ...; if C: break; ...` followed by `return X`."""
    if not fn.body or not isinstance(fn.body[-1], ast.While):
        return
    lp = fn.body[-1]
    if not (isinstance(lp.test, ast.Constant) and lp.test.value is True) or lp.orelse:
        return
    inner = [x for st in lp.body for x in ast.walk(st)]
    if any(isinstance(x, (ast.Break, ast.Yield, ast.YieldFrom)) for x in inner) or any(isinstance(x, (ast.While, ast.For, ast.AsyncFor, ast.Try, ast.With, ast.AsyncWith)) for x in inner):
        return
    rets = [x for x in inner if isinstance(x, ast.Return)]
    if len(rets) != 1:
        return
    # the return must be the last statement of an `if` body that sits directly in the loop body
    for i, st in enumerate(lp.body):
        if isinstance(st, ast.If) and st.body and st.body[-1] is rets[0]:
            st.body[-1] = ast.copy_location(ast.Break(), rets[0])
            if st.orelse:
                # `if C: break else: rest`  ->  `if C: break` + rest
                rest, st.orelse = st.orelse, []
                lp.body[i + 1:i + 1] = rest
            fn.body.append(rets[0])
            return


def _rotate_priming(block: list[ast.stmt]) -> None:
    """`S; while T: B...; S`  (the statements S before the loop are repeated as the last statements of its body)
          ->  `while True: S; if not T: break; B...`"""
    i = 0
    while i < len(block):
        lp = block[i]
        if isinstance(lp, ast.While) and not lp.orelse and not (isinstance(lp.test, ast.Constant) and lp.test.value is True) and lp.body:
            # longest k such that the k statements before the loop equal the last k statements of the body
            k = 0
            while k < min(i, len(lp.body)) and _stmt_key(block[i - 1 - k]) == _stmt_key(lp.body[len(lp.body) - 1 - k]) and not _is_exit(block[i - 1 - k]) \
                    and not any(isinstance(x, (ast.Break, ast.Continue)) for x in ast.walk(lp.body[len(lp.body) - 1 - k])):
                k += 1
            no_jump = not any(isinstance(x, (ast.Continue,)) for st in lp.body for x in ast.walk(st))
            if k >= 1 and no_jump:
                S = block[i - k:i]
                B = lp.body[:len(lp.body) - k]
                neg = ast.copy_location(ast.UnaryOp(op=ast.Not(), operand=lp.test), lp.test)
                pos = _negative(neg)
                test = pos if pos is not None and False else neg
                # fold `not (not X)` and `not (a <= b)` style negations where trivially possible
                if isinstance(lp.test, ast.UnaryOp) and isinstance(lp.test.op, ast.Not):
                    test = lp.test.operand
                brk = ast.copy_location(ast.If(test=test, body=[ast.copy_location(ast.Break(), lp)], orelse=[]), lp)
                lp.body = S + [brk] + B
                lp.test = ast.copy_location(ast.Constant(value=True), lp.test)
                ast.fix_missing_locations(lp)
                del block[i - k:i]
                i -= k
        i += 1


def _fuse_comprehensions(fn: T.Any) -> None:
    """`t = [F(y) for y in L if Q(y)]` used only as the iterable of other comprehensions `[E(x) for x in t if P(x)]`
       ->  `[E(F(y)) for y in L if Q(y) and P(F(y))]`   (all parts side-effect free; `t` disappears)."""
    own = list(_own_nodes(fn))
    stores: dict[str, int] = {}
    for n in own:
        if isinstance(n, ast.Name) and isinstance(n.ctx, (ast.Store, ast.Del)):
            stores[n.id] = stores.get(n.id, 0) + 1
    params = {a.arg for a in fn.args.args + fn.args.kwonlyargs}
    for b in list(_blocks(fn)):
        for st in list(b):
            if not (isinstance(st, ast.Assign) and len(st.targets) == 1 and isinstance(st.targets[0], ast.Name) and isinstance(st.value, ast.ListComp)):
                continue
            t, comp = st.targets[0].id, st.value
            if stores.get(t, 0) != 1 or t in params or len(comp.generators) != 1 or comp.generators[0].is_async or not _pure(comp):
                continue
            g = comp.generators[0]
            pat_vars = {x.id for x in ast.walk(g.target) if isinstance(x, ast.Name)}
            uses = [n for n in own if isinstance(n, ast.Name) and n.id == t and isinstance(n.ctx, ast.Load)]
            hosts = []
            ok = bool(uses)
            for u in uses:
                host = next((c for c in own if isinstance(c, (ast.ListComp, ast.GeneratorExp, ast.SetComp)) and len(c.generators) == 1 and c.generators[0].iter is u), None)
                if host is None or not _pure(host):
                    ok = False
                    break
                g2 = host.generators[0]
                # the inner element must destructure the same way as the outer pattern
                if isinstance(g2.target, ast.Name):
                    m = {g2.target.id: comp.elt}
                elif isinstance(g2.target, ast.Tuple) and isinstance(comp.elt, ast.Tuple) and len(g2.target.elts) == len(comp.elt.elts) and all(isinstance(x, ast.Name) for x in g2.target.elts):
                    m = {x.id: e for x, e in zip(g2.target.elts, comp.elt.elts)}
                else:
                    ok = False
                    break
                free = {x.id for part in [host.elt] + list(g2.ifs) for x in ast.walk(part) if isinstance(x, ast.Name)} - set(m)
                if free & pat_vars:
                    ok = False
                    break
                hosts.append((host, m))
            if not ok:
                continue
            for host, m in hosts:
                class S_(ast.NodeTransformer):
                    def visit_Name(self, n: ast.Name) -> ast.AST:
                        if isinstance(n.ctx, ast.Load) and n.id in m:
                            return _clone(m[n.id])
                        return n
                g2 = host.generators[0]
                host.elt = S_().visit(host.elt)
                new_ifs = [_clone(c) for c in g.ifs] + [S_().visit(c) for c in g2.ifs]
                host.generators = [ast.comprehension(target=_clone(g.target), iter=_clone(g.iter), ifs=new_ifs, is_async=0)]
                ast.fix_missing_locations(host)
            b.remove(st)
            if not b:
                b.append(ast.copy_location(ast.Pass(), st))
            own = list(_own_nodes(fn))


def _query(e: ast.AST) -> bool:
    """Side-effect free test: `_pure`, also allowing the repo's query methods (is_* / has_* / can_*)."""
    for n in ast.walk(e):
        if isinstance(n, (ast.Await, ast.Yield, ast.YieldFrom, ast.NamedExpr, ast.Lambda)):
            return False
        if isinstance(n, ast.Call):
            f = n.func
            ok = isinstance(f, ast.Attribute) and (f.attr.startswith(("is_", "has_", "can_")) or f.attr in ("lower", "upper", "decode", "encode", "strip", "startswith", "endswith", "get", "items", "keys", "values")) \
                or isinstance(f, ast.Name) and f.id in ("len", "min", "max", "bytes", "str", "int", "isinstance", "tuple", "list", "set")
            if not ok:
                return False
    return True


def _search_loops(fn: T.Any) -> None:
    """First-match search loop  ->  filter-then-first (the form the repository uses):
         for x in L:                      found = [x for x in L if P(x)]
             if P(x):                     if found:
                 S; break          ==>        x = found[0]; S
         else:                            else:
             E                                E
    Exact when P is a side-effect free query (it is then irrelevant that the comprehension also tests the elements after the
    first match) and the loop body is this single `if`."""
    used = {n.id for n in ast.walk(fn) if isinstance(n, ast.Name)}
    serial = [0]
    for b in list(_blocks(fn)):
        i = 0
        while i < len(b):
            lp = b[i]
            if isinstance(lp, ast.For) and isinstance(lp.target, ast.Name) and len(lp.body) == 1 and isinstance(lp.body[0], ast.If) and not lp.body[0].orelse \
                    and lp.body[0].body and isinstance(lp.body[0].body[-1], ast.Break) and _query(lp.body[0].test) and _query(lp.iter):
                inner = lp.body[0].body[:-1]
                if not any(isinstance(x, (ast.Break, ast.Continue)) for st in inner for x in ast.walk(st)):
                    serial[0] += 1
                    name = f"{lp.target.id}s__found{serial[0]}"
                    while name in used:
                        serial[0] += 1
                        name = f"{lp.target.id}s__found{serial[0]}"
                    used.add(name)
                    comp = ast.ListComp(elt=ast.Name(id=lp.target.id, ctx=ast.Load()), generators=[ast.comprehension(target=_clone(lp.target), iter=lp.iter, ifs=[lp.body[0].test], is_async=0)])
                    a = ast.copy_location(ast.Assign(targets=[ast.Name(id=name, ctx=ast.Store())], value=comp), lp)
                    first = ast.copy_location(ast.Assign(targets=[ast.Name(id=lp.target.id, ctx=ast.Store())],
                                                         value=ast.Subscript(value=ast.Name(id=name, ctx=ast.Load()), slice=ast.Constant(value=0), ctx=ast.Load())), lp)
                    branch = ast.copy_location(ast.If(test=ast.Name(id=name, ctx=ast.Load()), body=[first] + inner, orelse=list(lp.orelse)), lp)
                    ast.fix_missing_locations(a)
                    ast.fix_missing_locations(branch)
                    b[i:i + 1] = [a, branch]
                    i += 2
                    continue
            i += 1


def _none_test(test: ast.expr) -> tuple[ast.expr, bool] | None:
    """(`X`, True) for `X is None`, (`X`, False) for `X is not None`."""
    if isinstance(test, ast.Compare) and len(test.ops) == 1 and isinstance(test.ops[0], (ast.Is, ast.IsNot)) \
            and isinstance(test.comparators[0], ast.Constant) and test.comparators[0].value is None:
        return test.left, isinstance(test.ops[0], ast.Is)
    return None


_NONNULL_FIELDS: dict[int, set[str]] = {}       # id(function) -> fields of its class that are bound once, in __init__, to a value that cannot be None


def _nonnull_expr(e: ast.AST, fn: T.Any, nonnull_methods: set[str], depth: int = 0) -> bool:
    """The expression cannot be None: a constructor call (CamelCase callee), a method of the class whose return annotation does
    not admit None, the first element of a filtered copy of one of the object's lists, or a local bound only to such values."""
    if depth > 3:
        return False
    if isinstance(e, ast.Call):
        f = e.func
        name = f.id if isinstance(f, ast.Name) else f.attr if isinstance(f, ast.Attribute) else ""
        if name[:1].isupper() and not name.isupper():
            return True
        return isinstance(f, ast.Attribute) and isinstance(f.value, ast.Name) and f.value.id == "self" and name in nonnull_methods
    if isinstance(e, ast.Subscript) and isinstance(e.slice, ast.Constant) and isinstance(e.slice.value, int) and isinstance(e.value, ast.Name):
        defs = [n for n in _own_nodes(fn) if isinstance(n, ast.Assign) and len(n.targets) == 1 and isinstance(n.targets[0], ast.Name) and n.targets[0].id == e.value.id]
        def pool_list(x: ast.AST) -> bool:
            if isinstance(x, ast.Call) and isinstance(x.func, ast.Name) and x.func.id == "list" and len(x.args) == 1:
                x = x.args[0]
            return isinstance(x, ast.Attribute) and isinstance(x.value, ast.Name) and x.value.id == "self"
        return bool(defs) and all(isinstance(d.value, ast.ListComp) and len(d.value.generators) == 1 and isinstance(d.value.elt, ast.Name)
                                  and isinstance(d.value.generators[0].target, ast.Name) and d.value.elt.id == d.value.generators[0].target.id
                                  and pool_list(d.value.generators[0].iter) for d in defs)
    if isinstance(e, ast.Attribute) and isinstance(e.value, ast.Name) and e.value.id == "self":
        return e.attr in _NONNULL_FIELDS.get(id(fn), set())
    if isinstance(e, ast.Name):
        params = {a.arg for a in fn.args.args + fn.args.kwonlyargs}
        if e.id in params:
            return False
        stores = [n for n in _own_nodes(fn) if isinstance(n, ast.Name) and isinstance(n.ctx, ast.Store) and n.id == e.id]
        defs = [n for n in _own_nodes(fn) if isinstance(n, (ast.Assign, ast.AnnAssign)) and getattr(n, "value", None) is not None
                and any(isinstance(t, ast.Name) and t.id == e.id for t in (n.targets if isinstance(n, ast.Assign) else [n.target]))]
        return bool(defs) and len(defs) == len(stores) and all(_nonnull_expr(d.value, fn, nonnull_methods, depth + 1) for d in defs)
    return False


def _fold_none_tests(fn: T.Any, nonnull_methods: set[str]) -> None:
    """`if None is not None: S` disappears, `if <non-null> is not None: S` becomes S (and the mirrored forms)."""
    for b in list(_blocks(fn)):
        i = 0
        while i < len(b):
            st = b[i]
            if isinstance(st, ast.If) and isinstance(st.test, ast.Constant) and isinstance(st.test.value, bool):
                # a parameter bound to a literal at the (inlined) call site
                b[i:i + 1] = st.body if st.test.value else st.orelse
                if not b:
                    b.append(ast.copy_location(ast.Pass(), st))
                continue
            nt = _none_test(st.test) if isinstance(st, ast.If) else None
            if nt is not None:
                x, is_none = nt
                val: bool | None = None
                if isinstance(x, ast.Constant) and x.value is None:
                    val = is_none
                elif _nonnull_expr(x, fn, nonnull_methods):
                    val = not is_none
                elif isinstance(x, ast.Name):
                    # the binding that reaches the test in the same block
                    for prev in reversed(b[:i]):
                        if isinstance(prev, ast.Assign) and len(prev.targets) == 1 and isinstance(prev.targets[0], ast.Name) and prev.targets[0].id == x.id:
                            if isinstance(prev.value, ast.Constant) and prev.value.value is None:
                                val = is_none
                            elif _nonnull_expr(prev.value, fn, nonnull_methods):
                                val = not is_none
                            elif isinstance(prev.value, ast.Name):
                                x = prev.value          # a copy: follow it further back
                                continue
                            break
                        if any(isinstance(y, ast.Name) and y.id == x.id and isinstance(y.ctx, (ast.Store, ast.Del)) for y in ast.walk(prev)):
                            break
                if val is not None:
                    taken = st.body if val else st.orelse
                    b[i:i + 1] = taken
                    if not b:
                        b.append(ast.copy_location(ast.Pass(), st))
                    continue
            i += 1


def _drop_implied_asserts(fn: T.Any) -> None:
    """`if T: assert T; ...` - an assertion that repeats the test of the branch it opens (nothing but quiet statements - no call,
    no await, no store - in between) cannot fail and is dropped; it is what an inlined helper's own precondition check becomes."""
    def quiet(st: ast.stmt) -> bool:
        return isinstance(st, (ast.Assign, ast.AnnAssign, ast.Pass, ast.Expr)) and not any(isinstance(x, (ast.Call, ast.Await, ast.Yield, ast.YieldFrom)) for x in ast.walk(st)) \
            and not any(isinstance(x, ast.Attribute) and isinstance(x.ctx, ast.Store) for x in ast.walk(st))
    for n in list(_own_nodes(fn)):
        if isinstance(n, ast.If):
            want = _norm(n.test)
            for j, st in enumerate(n.body):
                if isinstance(st, ast.Assert) and _norm(st.test) == want:
                    del n.body[j]
                    if not n.body:
                        n.body.append(ast.copy_location(ast.Pass(), n))
                    break
                if not quiet(st):
                    break


def _leaves(st: ast.If) -> list[list[ast.stmt]] | None:
    """The branch statement lists of an if / elif / else tree that fall through to the statement after it (None if the tree has
    an implicit empty else)."""
    out: list[list[ast.stmt]] = []
    for br in (st.body, st.orelse):
        if not br:
            return None
        if _always_exits(br):
            continue
        if isinstance(br[-1], ast.If):
            sub = _leaves(br[-1])
            if sub is None:
                out.append(br)
            else:
                out.extend(sub)
        else:
            out.append(br)
    return out


def _sink_none_test(fn: T.Any) -> bool:
    """`if A: v = E1 else: v = None` followed by `if v is not None: S`  ->  the test moves into the branches and folds where
    the branch has just bound v to None (the shape an inlined `return None` / `return x` helper leaves behind)."""
    changed = False
    for b in list(_blocks(fn)):
        i = 0
        while i + 1 < len(b):
            tree, tst = b[i], b[i + 1]
            nt = _none_test(tst.test) if isinstance(tst, ast.If) else None
            if isinstance(tree, ast.If) and nt is not None and isinstance(nt[0], ast.Name):
                v = nt[0].id
                leaves = _leaves(tree)
                def last_bind(leaf: list[ast.stmt]) -> ast.expr | None:
                    for st in reversed(leaf):
                        if isinstance(st, ast.Assign) and len(st.targets) == 1 and isinstance(st.targets[0], ast.Name) and st.targets[0].id == v:
                            return st.value
                        if any(isinstance(x, ast.Name) and x.id == v and isinstance(x.ctx, ast.Store) for x in ast.walk(st)):
                            return None
                    return None
                if leaves and any(isinstance(last_bind(lf), ast.Constant) and last_bind(lf).value is None for lf in leaves) \
                        and sum(1 for _ in ast.walk(tst)) <= 200:
                    for lf in leaves:
                        lf.append(_clone(tst))
                    del b[i + 1]
                    changed = True
                    continue
            i += 1
    if changed:
        # fold `v is [not] None` directly after `v = None`
        for b in list(_blocks(fn)):
            i = 1
            while i < len(b):
                prev, st = b[i - 1], b[i]
                nt = _none_test(st.test) if isinstance(st, ast.If) else None
                if nt is not None and isinstance(nt[0], ast.Name) and isinstance(prev, ast.Assign) and len(prev.targets) == 1 and isinstance(prev.targets[0], ast.Name) \
                        and prev.targets[0].id == nt[0].id and isinstance(prev.value, ast.Constant) and prev.value.value is None:
                    taken = st.body if nt[1] else st.orelse
                    b[i:i + 1] = taken
                    continue
                i += 1
    return changed


def _class_constants(tree: ast.Module, known_attrs: set[str] | None) -> None:
    """A NEW class-level constant bound to a literal (`STREAM_EVENTS = (h2.events.ResponseReceived, ...)`) is copied back to the
    `self.NAME` / `Class.NAME` reads in the class's methods - unless an instance attribute of that name is ever stored."""
    if known_attrs is None:
        return
    stored = {n.attr for n in ast.walk(tree) if isinstance(n, ast.Attribute) and isinstance(n.ctx, (ast.Store, ast.Del))}
    for c in [n for n in ast.walk(tree) if isinstance(n, ast.ClassDef)]:
        consts: dict[str, ast.AST] = {}
        for st in c.body:
            tg = st.targets[0].id if isinstance(st, ast.Assign) and len(st.targets) == 1 and isinstance(st.targets[0], ast.Name) else \
                st.target.id if isinstance(st, ast.AnnAssign) and isinstance(st.target, ast.Name) and st.value is not None else None
            if tg is None or f"{c.name}.{tg}" in known_attrs or tg in stored or not _literal(st.value):  # type: ignore[attr-defined]
                continue
            if sum(1 for s2 in c.body if isinstance(s2, (ast.Assign, ast.AnnAssign)) and any(isinstance(x, ast.Name) and x.id == tg and isinstance(x.ctx, ast.Store) for x in ast.walk(s2))) != 1:
                continue
            consts[tg] = st.value  # type: ignore[attr-defined]
        if not consts:
            continue

        class Sub(ast.NodeTransformer):
            def visit_Attribute(self, n: ast.Attribute) -> ast.AST:
                self.generic_visit(n)
                if isinstance(n.ctx, ast.Load) and n.attr in consts and isinstance(n.value, ast.Name) and n.value.id in ("self", "cls", c.name):
                    new = _clone(consts[n.attr])
                    for x in ast.walk(new):
                        ast.copy_location(x, n)
                    return new
                return n
        for m in c.body:
            if isinstance(m, FUNC_KINDS):
                Sub().generic_visit(m)


class _NotCompare(ast.NodeTransformer):
    """`not (a is None)` -> `a is not None` (identity and membership tests only: their negated operators are exact complements)."""
    _INV = {ast.Is: ast.IsNot, ast.IsNot: ast.Is, ast.In: ast.NotIn, ast.NotIn: ast.In}

    def visit_UnaryOp(self, n: ast.UnaryOp) -> ast.AST:
        self.generic_visit(n)
        c = n.operand
        if isinstance(n.op, ast.Not) and isinstance(c, ast.Compare) and len(c.ops) == 1 and type(c.ops[0]) in self._INV:
            return ast.copy_location(ast.Compare(left=c.left, ops=[self._INV[type(c.ops[0])]()], comparators=c.comparators), n)
        return n


def canonicalise(tree: ast.Module, known_globals: set[str] | None = None, known_class_attrs: set[str] | None = None) -> None:
    _module_constants(tree, known_globals)
    _class_constants(tree, known_class_attrs)
    _Small().visit(tree)
    for fn in [n for n in ast.walk(tree) if isinstance(n, FUNC_KINDS)]:
        fn.body = _guard_clauses(fn.body, True, False)
        if not fn.body:
            fn.body = [ast.Pass()]
    mutable: dict[int, set[str]] = {}
    for c in [n for n in ast.walk(tree) if isinstance(n, ast.ClassDef)]:
        fields: set[str] = set()
        for m in c.body:
            if isinstance(m, FUNC_KINDS) and m.name != "__init__":
                for x in ast.walk(m):
                    if isinstance(x, ast.Attribute) and isinstance(x.ctx, (ast.Store, ast.Del)) and isinstance(x.value, ast.Name) and x.value.id == "self":
                        fields.add(x.attr)
        for m in c.body:
            if isinstance(m, FUNC_KINDS):
                mutable[id(m)] = fields
    nullable: set[str] = set()
    declared: set[str] = set()
    for m in [n for n in ast.walk(tree) if isinstance(n, FUNC_KINDS)]:
        if m.returns is not None:
            txt = ast.unparse(m.returns)
            (nullable if ("None" in txt or "Optional" in txt or "Any" in txt or "object" in txt) else declared).add(m.name)
        else:
            nullable.add(m.name)
    nonnull_methods = declared - nullable
    _NONNULL_FIELDS.clear()
    for c in [n for n in ast.walk(tree) if isinstance(n, ast.ClassDef)]:
        init = next((m for m in c.body if isinstance(m, FUNC_KINDS) and m.name == "__init__"), None)
        if init is None:
            continue
        ann = {a.arg: ast.unparse(a.annotation) for a in init.args.args + init.args.kwonlyargs if a.annotation is not None}
        defaults = dict(zip([a.arg for a in init.args.args][len(init.args.args) - len(init.args.defaults):], init.args.defaults))
        written_elsewhere = mutable.get(id(init), set())
        ok_fields: set[str] = set()
        writes: dict[str, list[ast.AST]] = {}
        for st in ast.walk(init):
            if isinstance(st, (ast.Assign, ast.AnnAssign)) and getattr(st, "value", None) is not None:
                for t in (st.targets if isinstance(st, ast.Assign) else [st.target]):
                    if isinstance(t, ast.Attribute) and isinstance(t.value, ast.Name) and t.value.id == "self":
                        writes.setdefault(t.attr, []).append(st.value)
        for fld, vals in writes.items():
            if fld in written_elsewhere or len(vals) != 1:
                continue
            v = vals[0]
            if isinstance(v, ast.Name) and v.id in ann and not any(w in ann[v.id] for w in ("None", "Optional", "Any", "object")) \
                    and not (isinstance(defaults.get(v.id), ast.Constant) and defaults[v.id].value is None):
                ok_fields.add(fld)
            elif _nonnull_expr(v, init, nonnull_methods):
                ok_fields.add(fld)
        for m in c.body:
            if isinstance(m, FUNC_KINDS):
                _NONNULL_FIELDS[id(m)] = ok_fields
    for fn in [n for n in ast.walk(tree) if isinstance(n, FUNC_KINDS)]:
        _aliases(fn, mutable.get(id(fn)))
        for b in list(_blocks(fn)):
            _accumulators(b)
            _extend_to_concat(b)
            _split_tuple_assign(b)
            _flag_loops(b)
            _rotate_priming(b)
            _break_then_exit(b)
        _walrus_loops(fn)
        _expand_starred_tuples(fn)
        _merge_identical_branches(fn)
        _inline_named_tests(fn)
        _tail_bool_returns(fn)
        _snapshot_aliases(fn)
        _dead_constant_stores(fn)
        _conditional_wrap(fn)
        _distribute_tuple_local(fn)
        _distribute_selected_callee(fn)
        _hoist_common_tail_return(fn)
        _flag_loops_fn(fn)
        _return_in_loop_to_break(fn)
        _search_loops(fn)
        _fuse_comprehensions(fn)
        _drop_implied_asserts(fn)
        _fold_none_tests(fn, nonnull_methods)
        for _ in range(4):
            if not _sink_none_test(fn):
                break
            _fold_none_tests(fn, nonnull_methods)
            fn.body = _guard_clauses(fn.body, True, False) or [ast.Pass()]
            _aliases(fn, mutable.get(id(fn)))
        _snapshot_aliases(fn)
        _dead_constant_stores(fn)
        _ifelse_temp_to_expr(fn)
        _collapse_generated_temps(fn)
        _drop_empty_else(fn)
    _NotCompare().visit(tree)
    ast.fix_missing_locations(tree)
