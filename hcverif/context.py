"""Shared, lazily built analysis state for one ./check run."""
from __future__ import annotations

import typing as T

from .load import Names, Program
from .report import Report


class Context:
    def __init__(self, prog: Program, rep: Report):
        self.prog = prog
        self.rep = rep
        self._names: dict[str, Names] = {}
        self._cache: dict[str, T.Any] = {}
        self._install_guard_expander()

    def _install_guard_expander(self) -> None:
        import ast as _ast

        from . import guards
        from .load import func_of

        busy: set[int] = set()

        def expander(test: _ast.AST) -> _ast.AST | None:
            if id(test) in busy or not any(isinstance(n, _ast.Name) for n in _ast.walk(test)):
                return None
            if "escape" not in self._cache:
                return None  # the escape fixpoint (which the CFG depends on) is still being computed
            f = func_of(test)
            if f is None:
                return None
            busy.add(id(test))
            try:
                alts = self.prov.expand(test, f, test, pure=True)
            finally:
                busy.discard(id(test))
            return alts[0] if len(alts) == 1 else None

        guards.set_expander(expander)

    def names(self, tree: str) -> Names:
        if tree not in self._names:
            self._names[tree] = Names(self.prog, tree)
        return self._names[tree]

    def memo(self, key: str, build: T.Callable[[], T.Any]) -> T.Any:
        if key not in self._cache:
            self._cache[key] = build()
        return self._cache[key]

    @property
    def types(self) -> T.Any:
        from .types import Types

        return self.memo("types", lambda: Types(self.prog))

    @property
    def callgraph(self) -> T.Any:
        from .callgraph import CallGraph

        def build() -> T.Any:
            cg = CallGraph(self.prog, self.types)
            # fail closed: a call of a method that the (repo) class of its receiver does not define - and that is not a stored
            # callable attribute - would be treated as an external call that cannot fail
            import ast as _ast

            from .load import AnalysisError

            bad = []
            for sites in cg.sites.values():
                for s in sites:
                    for c in s.callees:
                        if c.ext and c.ext.startswith("?") and c.recv is not None and c.recv[0] == "cls" and not c.recv[1].external_bases():
                            name = c.ext.rsplit(".", 1)[-1]
                            cls = c.recv[1]
                            stored = any(isinstance(n, _ast.Attribute) and n.attr == name and isinstance(n.ctx, _ast.Store)
                                         for k in cls.mro() for m in k.methods.values() for n in _ast.walk(m.node))
                            declared = any(isinstance(st, (_ast.AnnAssign, _ast.Assign)) and any(isinstance(t, _ast.Name) and t.id == name for t in
                                           ([st.target] if isinstance(st, _ast.AnnAssign) else st.targets)) for k in cls.mro() for st in k.node.body)
                            if not stored and not declared:
                                bad.append(f"{s.owner.module.relpath}:{s.lineno} {c.ext[1:]}")
            if bad:
                raise AnalysisError("call of a method that the receiver's class does not define (the analysis cannot see what it does): " + "; ".join(sorted(set(bad))[:5]))
            return cg

        return self.memo("callgraph", build)

    @property
    def escape(self) -> T.Any:
        from .escape import Escape

        return self.memo("escape", lambda: Escape(self.prog, self.callgraph))

    @property
    def prov(self) -> T.Any:
        from .prov import Prov

        return self.memo("prov", lambda: Prov(self))

    def cfg(self, func: T.Any) -> T.Any:
        from .cfg import build_cfg

        return self.memo(f"cfg:{func.qual}", lambda: build_cfg(func, self.escape))
