"""E4: statement-level control-flow graph with exceptional edges.

One node per simple statement / branch test / loop head / with-enter / with-exit / handler
entry.  Exceptional edges carry the set of exception classes (from E7 summaries; `Cancelled`
at awaits that can actually suspend, removed inside shield scopes); handler matching is by
subclass test; map_exceptions rewrites the class set at the with-exit; `finally` bodies are
duplicated per continuation."""
from __future__ import annotations

import ast
import typing as T

from .escape import CANCELLED, Ctx, Esc, Escape, Src
from .load import FUNC_KINDS, AnalysisError, FuncInfo, norm


class Node:
    __slots__ = ("id", "kind", "ast", "raises", "succ", "pred", "shield", "label", "item", "cur", "_own")

    def __init__(self, id_: int, kind: str, node: ast.AST | None, label: str = ""):
        self.id = id_
        self.kind = kind
        self.ast = node
        self.raises: Esc = Esc()
        self.succ: list[Edge] = []
        self.pred: list[Edge] = []
        self.shield = False
        self.label = label
        self.item: ast.withitem | None = None
        self.cur: Esc | None = None
        self._own: Esc | None = None

    @property
    def own(self) -> Esc:
        """Sources that originate at this node (as opposed to exceptions merely passing through
        a with-exit, a finally or a re-raise inside a handler)."""
        return self.raises if self._own is None else self._own

    @property
    def lineno(self) -> int:
        n = self.ast
        if isinstance(n, ast.withitem):
            n = n.context_expr
        return getattr(n, "lineno", 0) if n is not None else 0

    def text(self) -> str:
        if self.label:
            return self.label
        if self.ast is None:
            return self.kind
        n = self.ast
        if isinstance(n, ast.withitem):
            return f"{self.kind} {ast.unparse(n.context_expr)[:60]}"
        if isinstance(n, (ast.If, ast.While)):
            return f"{self.kind} {ast.unparse(n.test)[:60]}"
        if isinstance(n, (ast.For, ast.AsyncFor)):
            return f"for {ast.unparse(n.target)} in {ast.unparse(n.iter)[:50]}"
        if isinstance(n, ast.ExceptHandler):
            return f"except {ast.unparse(n.type) if n.type else ''}"
        return ast.unparse(n).split("\n")[0][:70]

    def __repr__(self) -> str:
        return f"<N{self.id} {self.kind} L{self.lineno} {self.text()[:40]}>"

    def may_cancel(self) -> bool:
        return any(s.cls == CANCELLED for s in self.own.values())


class Edge:
    __slots__ = ("src", "dst", "kind", "classes")

    def __init__(self, src: Node, dst: Node, kind: str, classes: frozenset[str] | None = None):
        self.src, self.dst, self.kind, self.classes = src, dst, kind, classes

    def __repr__(self) -> str:
        return f"<E {self.src.id}->{self.dst.id} {self.kind}{' ' + ','.join(sorted(self.classes)) if self.classes else ''}>"


class Out:
    __slots__ = ("normal", "exc", "ret", "brk", "cont")

    def __init__(self) -> None:
        self.normal: list[tuple[Node, str]] = []
        self.exc: list[tuple[Node, Esc]] = []
        self.ret: list[Node] = []
        self.brk: list[Node] = []
        self.cont: list[Node] = []

    def absorb(self, o: "Out", normal: bool = False) -> None:
        self.exc += o.exc
        self.ret += o.ret
        self.brk += o.brk
        self.cont += o.cont
        if normal:
            self.normal += o.normal


class CFG:
    def __init__(self, func: FuncInfo, esc: Escape):
        self.func = func
        self.esc = esc
        self.nodes: list[Node] = []
        self.entry = self._node("entry", None)
        self.exit = self._node("exit", None)
        self.exc_exit = self._node("exc_exit", None)
        self._by_ast: dict[int, list[Node]] = {}
        out = self._block(func.node.body, Ctx(func), [(self.entry, "n")])
        for n, k in out.normal:
            self._edge(n, self.exit, k)
        for n in out.ret:
            self._edge(n, self.exit, "ret")
        for n, e in out.exc:
            self._edge(n, self.exc_exit, "exc", frozenset(e.classes()))
        if out.brk or out.cont:
            raise AnalysisError(f"break/continue outside loop in {func.qual}")

    # ---- construction helpers ---------------------------------------------------------------
    def _node(self, kind: str, node: ast.AST | None, label: str = "") -> Node:
        n = Node(len(self.nodes), kind, node, label)
        self.nodes.append(n)
        if node is not None:
            self._by_ast.setdefault(id(node), []).append(n)
        return n

    def _edge(self, a: Node, b: Node, kind: str, classes: frozenset[str] | None = None) -> None:
        for e in a.succ:
            if e.dst is b and e.kind == kind:
                if classes:
                    e.classes = frozenset((e.classes or frozenset()) | classes)
                return
        e = Edge(a, b, kind, classes)
        a.succ.append(e)
        b.pred.append(e)

    def _connect(self, preds: list[tuple[Node, str]], n: Node) -> None:
        for p, k in preds:
            self._edge(p, n, k)

    def _simple(self, kind: str, node: ast.AST, ctx: Ctx, preds: list[tuple[Node, str]], raises: Esc | None = None) -> tuple[Node, Out]:
        n = self._node(kind, node)
        n.shield = ctx.shield
        n.cur = ctx.cur
        self._connect(preds, n)
        n.raises = raises if raises is not None else self.esc.expr_sources(node, ctx)
        out = Out()
        out.normal = [(n, "n")]
        if n.raises:
            out.exc = [(n, n.raises)]
        return n, out

    # ---- statements ---------------------------------------------------------------------------
    def _block(self, stmts: list[ast.stmt], ctx: Ctx, preds: list[tuple[Node, str]]) -> Out:
        out = Out()
        cur_preds = preds
        cur_ctx = ctx
        for st in stmts:
            if not cur_preds:
                break  # unreachable code after raise/return
            o, cur_ctx = self._stmt(st, cur_ctx, cur_preds)
            out.absorb(o)
            cur_preds = o.normal
        out.normal = cur_preds
        return out

    def _stmt(self, st: ast.stmt, ctx: Ctx, preds: list[tuple[Node, str]]) -> tuple[Out, Ctx]:
        esc = self.esc
        f = self.func
        if isinstance(st, FUNC_KINDS + (ast.ClassDef, ast.Import, ast.ImportFrom, ast.Global, ast.Nonlocal)):
            n, o = self._simple("stmt", st, ctx, preds, Esc())
            return o, ctx
        if isinstance(st, ast.Pass):
            n, o = self._simple("stmt", st, ctx, preds, Esc())
            return o, ctx
        if isinstance(st, ast.Return):
            n, o = self._simple("return", st, ctx, preds)
            o.normal = []
            o.ret = [n]
            return o, ctx
        if isinstance(st, ast.Raise):
            n, o = self._simple("raise", st, ctx, preds, esc._raise(st, ctx))
            if ctx.cur is not None:
                n._own = Esc()  # raising inside a handler continues the propagation of the caught exception
            o.normal = []
            return o, ctx
        if isinstance(st, ast.Break):
            n, o = self._simple("break", st, ctx, preds, Esc())
            o.normal = []
            o.brk = [n]
            return o, ctx
        if isinstance(st, ast.Continue):
            n, o = self._simple("continue", st, ctx, preds, Esc())
            o.normal = []
            o.cont = [n]
            return o, ctx
        if isinstance(st, ast.Assert):
            e, _ = esc.stmt(st, ctx)
            n, o = self._simple("assert", st, ctx, preds, e)
            return o, ctx
        if isinstance(st, ast.If):
            t, o = self._simple("if", st, ctx, preds, esc.expr_sources(st.test, ctx))
            k = esc._isinstance_narrow(st.test, ctx)
            bctx, ectx, after = ctx, ctx, ctx
            if k is not None and ctx.cur is not None:
                inside = ctx.cur.only(lambda s: esc.is_sub(s.cls, k) or esc.is_sub(k, s.cls))
                outside = ctx.cur.only(lambda s: not esc.is_sub(s.cls, k))
                bctx, ectx = ctx.with_(cur=inside), ctx.with_(cur=outside)
                if esc._always_exits(st.body):
                    after = ectx
            ob = self._block(st.body, bctx, [(t, "t")])
            oe = self._block(st.orelse, ectx, [(t, "f")]) if st.orelse else None
            o.normal = ob.normal + (oe.normal if oe is not None else [(t, "f")])
            o.absorb(ob)
            if oe is not None:
                o.absorb(oe)
            return o, after
        if isinstance(st, ast.While):
            t, o = self._simple("while", st, ctx, preds, esc.expr_sources(st.test, ctx))
            ob = self._block(st.body, ctx, [(t, "t")])
            self._connect(ob.normal, t)
            for c in ob.cont:
                self._edge(c, t, "cont")
            o.exc += ob.exc
            o.ret += ob.ret
            infinite = isinstance(st.test, ast.Constant) and bool(st.test.value) is True
            after: list[tuple[Node, str]] = [] if infinite else [(t, "f")]
            if st.orelse and not infinite:
                oe = self._block(st.orelse, ctx, after)
                o.absorb(oe)
                after = oe.normal
            o.normal = after + [(b, "brk") for b in ob.brk]
            return o, ctx
        if isinstance(st, (ast.For, ast.AsyncFor)):
            e = Esc()
            e.merge(esc.expr_sources(st.iter, ctx))
            for s in esc.cg.sites_at(st):
                e.merge(esc.site_escapes(s, ctx))
            if isinstance(st, ast.AsyncFor) and not ctx.shield and esc.await_suspends(st):
                e.add(Src(CANCELLED, "cancel", (f"{f.module.relpath}:{st.lineno} {f.short}: async for",), esc._origin(f, "asyncfor:" + norm(st.iter))))
            t, o = self._simple("for", st, ctx, preds, e)
            ob = self._block(st.body, ctx, [(t, "t")])
            self._connect(ob.normal, t)
            for c in ob.cont:
                self._edge(c, t, "cont")
            o.exc += ob.exc
            o.ret += ob.ret
            after = [(t, "f")]
            if st.orelse:
                oe = self._block(st.orelse, ctx, after)
                o.absorb(oe)
                after = oe.normal
            o.normal = after + [(b, "brk") for b in ob.brk]
            return o, ctx
        if isinstance(st, (ast.With, ast.AsyncWith)):
            return self._with(st, ctx, preds, 0), ctx
        if isinstance(st, ast.Try):
            return self._try(st, ctx, preds), ctx
        if isinstance(st, ast.Match):
            raise AnalysisError(f"match statement not modelled ({f.where})")
        n, o = self._simple("stmt", st, ctx, preds)
        return o, ctx

    def _with(self, st: ast.With | ast.AsyncWith, ctx: Ctx, preds: list[tuple[Node, str]], i: int) -> Out:
        esc = self.esc
        f = self.func
        if i >= len(st.items):
            return self._block(st.body, ctx, preds)
        item = st.items[i]
        is_async = isinstance(st, ast.AsyncWith)
        kind = esc._cm_kind(item, ctx)
        # enter: evaluate the context expression, then __enter__/__aenter__
        ent = Esc()
        ent.merge(esc.expr_sources(item.context_expr, ctx))
        sites = esc.cg.sites_at(item)
        for s in sites:
            if s.kind == "enter":
                ent.merge(esc.site_escapes(s, ctx))
        enter_susp = is_async and any(esc._site_suspends(s) for s in sites if s.kind == "enter")
        exit_susp = is_async and any(esc._site_suspends(s) for s in sites if s.kind == "exit")
        if enter_susp and not ctx.shield:
            ent.add(Src(CANCELLED, "cancel", (f"{f.module.relpath}:{item.context_expr.lineno} {f.short}: async with {ast.unparse(item.context_expr)[:50]} (enter)",),
                        esc._origin(f, "asyncwith:" + norm(item.context_expr))))
        en, o = self._simple("with_enter", item, ctx, preds, ent)
        en.item = item
        inner_ctx = ctx.with_(shield=True) if kind in ("AsyncShieldCancellation", "ShieldCancellation") else ctx
        ob = self._with(st, inner_ctx, [(en, "n")], i + 1)
        pairs = esc._map_of(item, ctx)

        def exit_raises() -> Esc:
            x = Esc()
            for s in sites:
                if s.kind == "exit":
                    x.merge(esc.site_escapes(s, ctx))
            if exit_susp and not ctx.shield:
                x.add(Src(CANCELLED, "cancel", (f"{f.module.relpath}:{item.context_expr.lineno} {f.short}: async with {ast.unparse(item.context_expr)[:50]} (exit)",),
                          esc._origin(f, "asyncwith-exit:" + norm(item.context_expr))))
            return x

        def exit_node(kind_: str) -> Node:
            x = self._node(kind_, item)
            x.item = item
            x.shield = ctx.shield
            x.raises = exit_raises()
            return x

        res = Out()
        res.exc += o.exc  # failures of the enter itself bypass the exit
        if ob.normal:
            xn = exit_node("with_exit")
            self._connect(ob.normal, xn)
            res.normal = [(xn, "n")]
            if xn.raises:
                res.exc.append((xn, xn.raises))
        if ob.exc:
            xe = exit_node("with_exc_exit")
            incoming = Esc()
            for n, e in ob.exc:
                self._edge(n, xe, "exc", frozenset(e.classes()))
                incoming.merge(e)
            if pairs is not None:
                incoming = esc.apply_map(incoming, pairs, f"{f.module.relpath}:{item.context_expr.lineno} {f.short}: map_exceptions")
            total = Esc(incoming)
            total.merge(xe.raises)
            xe._own = xe.raises
            xe.raises = total
            res.exc.append((xe, total))
        for attr in ("ret", "brk", "cont"):
            pend: list[Node] = getattr(ob, attr)
            if pend:
                xr = exit_node("with_exit")
                for n in pend:
                    self._edge(n, xr, attr)
                getattr(res, attr).append(xr)
                if xr.raises:
                    res.exc.append((xr, xr.raises))
        return res

    def _try(self, st: ast.Try, ctx: Ctx, preds: list[tuple[Node, str]]) -> Out:
        esc = self.esc
        f = self.func
        ob = self._block(st.body, ctx, preds)
        res = Out()
        htypes = [esc.handler_types(f.module, h) for h in st.handlers]
        hnodes: list[Node | None] = [None] * len(st.handlers)
        caught: list[Esc] = [Esc() for _ in st.handlers]
        for n, e in ob.exc:
            remaining = Esc()
            per: list[Esc] = [Esc() for _ in st.handlers]
            for s in e.values():
                done = False
                for i, types_ in enumerate(htypes):
                    if any(esc.is_sub(s.cls, k) for k in types_):
                        per[i].add(s)
                        done = True
                        break
                    if any(esc.is_sub(k, s.cls) for k in types_):
                        per[i].add(s)
                if not done:
                    remaining.add(s)
            for i, pe in enumerate(per):
                if pe:
                    if hnodes[i] is None:
                        hnodes[i] = self._node("handler", st.handlers[i])
                        hnodes[i].shield = ctx.shield  # type: ignore[union-attr]
                    self._edge(n, hnodes[i], "exc", frozenset(pe.classes()))  # type: ignore[arg-type]
                    caught[i].merge(pe)
            if remaining:
                res.exc.append((n, remaining))
        # else-branch continues the body's normal flow (its exceptions are not caught by these handlers)
        normal = ob.normal
        res.ret += ob.ret
        res.brk += ob.brk
        res.cont += ob.cont
        if st.orelse:
            oe = self._block(st.orelse, ctx, normal)
            res.absorb(oe)
            normal = oe.normal
        res.normal = list(normal)
        for i, h in enumerate(st.handlers):
            hn = hnodes[i]
            if hn is None:
                continue
            hn.cur = caught[i]
            oh = self._block(h.body, ctx.with_(cur=caught[i], cur_name=h.name), [(hn, "n")])
            res.absorb(oh, normal=True)
        if not st.finalbody:
            return res
        # finally: one copy per continuation kind
        fin = Out()
        if res.normal:
            o1 = self._block(st.finalbody, ctx, res.normal)
            fin.absorb(o1, normal=True)
        if res.exc:
            join = self._node("finally_exc", st, "finally (exceptional)")
            join.shield = ctx.shield
            total = Esc()
            for n, e in res.exc:
                self._edge(n, join, "exc", frozenset(e.classes()))
                total.merge(e)
            o2 = self._block(st.finalbody, ctx, [(join, "n")])
            fin.absorb(o2)
            if o2.normal:
                rr = self._node("reraise", st, "re-raise after finally")
                rr.raises = total
                rr._own = Esc()
                self._connect(o2.normal, rr)
                fin.exc.append((rr, total))
        for attr in ("ret", "brk", "cont"):
            pend: list[Node] = getattr(res, attr)
            if pend:
                join = self._node("finally_" + attr, st, f"finally ({attr})")
                for n in pend:
                    self._edge(n, join, attr)
                o3 = self._block(st.finalbody, ctx, [(join, "n")])
                fin.exc += o3.exc
                fin.ret += o3.ret
                fin.brk += o3.brk
                fin.cont += o3.cont
                if o3.normal:
                    tail = self._node("finally_end", st, f"end finally ({attr})")
                    self._connect(o3.normal, tail)
                    getattr(fin, attr).append(tail)
        return fin

    # ---- queries ---------------------------------------------------------------------------------
    def nodes_for(self, node: ast.AST) -> list[Node]:
        """CFG nodes whose ast is `node` or the statement containing `node`."""
        from .load import parent

        n: ast.AST | None = node
        while isinstance(n, (ast.With, ast.AsyncWith, ast.Try)):
            n = n.items[0] if isinstance(n, (ast.With, ast.AsyncWith)) else n.body[0]
        while n is not None:
            got = self._by_ast.get(id(n))
            if got:
                return got
            n = parent(n)
        return []

    def reachable(self, starts: T.Iterable[Node], follow: T.Callable[[Edge], bool] | None = None,
                  stop: T.Callable[[Node], bool] | None = None) -> set[int]:
        seen: set[int] = set()
        todo = list(starts)
        while todo:
            n = todo.pop()
            if n.id in seen:
                continue
            seen.add(n.id)
            if stop is not None and stop(n):
                continue
            for e in n.succ:
                if follow is None or follow(e):
                    todo.append(e.dst)
        return seen

    def dominators(self) -> dict[int, set[int]]:
        if hasattr(self, "_dom"):
            return self._dom
        ids = [n.id for n in self.nodes if n is self.entry or n.pred]
        dom: dict[int, set[int]] = {i: set(ids) for i in ids}
        dom[self.entry.id] = {self.entry.id}
        changed = True
        while changed:
            changed = False
            for i in ids:
                if i == self.entry.id:
                    continue
                preds = [e.src.id for e in self.nodes[i].pred if e.src.id in dom]
                new = set.intersection(*(dom[p] for p in preds)) | {i} if preds else {i}
                if new != dom[i]:
                    dom[i] = new
                    changed = True
        self._dom = dom
        return dom

    def dominates(self, a: Node, b: Node) -> bool:
        return a.id in self.dominators().get(b.id, set())

    def solve(self, init: T.Any, transfer: T.Callable[[Node, T.Any, Edge], T.Any], join: T.Callable[[T.Any, T.Any], T.Any],
              bottom: T.Any = None, limit: int = 20000) -> dict[int, T.Any]:
        """Forward dataflow: state at node entry.  transfer(node, state_in, out_edge) -> state on that edge
        (None = edge infeasible)."""
        state: dict[int, T.Any] = {self.entry.id: init}
        work = [self.entry]
        steps = 0
        while work:
            steps += 1
            if steps > limit:
                raise AnalysisError(f"dataflow did not converge on {self.func.qual}")
            n = work.pop()
            s_in = state[n.id]
            for e in n.succ:
                s_out = transfer(n, s_in, e)
                if s_out is None:
                    continue
                old = state.get(e.dst.id, bottom)
                new = s_out if old is bottom or old is None else join(old, s_out)
                if e.dst.id not in state or new != old:
                    state[e.dst.id] = new
                    work.append(e.dst)
        return state

    def paths(self, start: Node, is_end: T.Callable[[Node], bool], follow: T.Callable[[Edge], bool] | None = None,
              limit: int = 20000) -> list[list[Edge]]:
        """Acyclic edge paths from start to nodes satisfying is_end (each loop traversed at most once)."""
        out: list[list[Edge]] = []
        stack: list[tuple[Node, list[Edge], frozenset[int]]] = [(start, [], frozenset([start.id]))]
        while stack:
            n, path, seen = stack.pop()
            if is_end(n) and path:
                out.append(path)
                if len(out) > limit:
                    raise AnalysisError(f"path bound exceeded in {self.func.qual}")
                continue
            for e in n.succ:
                if follow is not None and not follow(e):
                    continue
                if e.dst.id in seen:
                    continue
                stack.append((e.dst, path + [e], seen | {e.dst.id}))
        return out

    def dump(self) -> str:
        lines = []
        for n in self.nodes:
            lines.append(f"N{n.id} [{n.kind}] L{n.lineno} {n.text()} {'SHIELD' if n.shield else ''} raises={sorted(n.raises.classes())}")
            for e in n.succ:
                lines.append(f"     -> N{e.dst.id} {e.kind} {sorted(e.classes) if e.classes else ''}")
        return "\n".join(lines)


def build_cfg(func: FuncInfo, esc: Escape) -> CFG:
    return CFG(func, esc)


# ---- reaching definitions ----------------------------------------------------------------------

def _targets(t: ast.AST) -> list[str]:
    if isinstance(t, ast.Name):
        return [t.id]
    if isinstance(t, (ast.Tuple, ast.List)):
        return [x for el in t.elts for x in _targets(el)]
    if isinstance(t, ast.Starred):
        return _targets(t.value)
    return []


def node_defs(n: Node) -> list[str]:
    a = n.ast
    if n.kind in ("stmt", "return", "assert"):
        if isinstance(a, ast.Assign):
            return [x for t in a.targets for x in _targets(t)]
        if isinstance(a, ast.AugAssign):
            return _targets(a.target)
        if isinstance(a, ast.AnnAssign) and a.value is not None:
            return _targets(a.target)
        if isinstance(a, (ast.Import, ast.ImportFrom)):
            return [(al.asname or al.name.split(".")[0]) for al in a.names]
    if n.kind == "for" and isinstance(a, (ast.For, ast.AsyncFor)):
        return _targets(a.target)
    if n.kind == "with_enter" and isinstance(a, ast.withitem) and a.optional_vars is not None:
        return _targets(a.optional_vars)
    if n.kind == "handler" and isinstance(a, ast.ExceptHandler) and a.name:
        return [a.name]
    return []


class ReachingDefs:
    """name -> set of defining node ids, at entry of every node.  A definition takes effect on
    the node's non-exceptional out-edges only (for `for`: on the iterate edge)."""

    def __init__(self, cfg: CFG):
        self.cfg = cfg
        params = cfg.func.param_names()
        a = cfg.func.args
        if a.vararg:
            params.append(a.vararg.arg)
        if a.kwarg:
            params.append(a.kwarg.arg)
        init = {p: frozenset([cfg.entry.id]) for p in params}

        def transfer(n: Node, s: dict[str, frozenset[int]], e: Edge) -> dict[str, frozenset[int]]:
            if e.kind == "exc":
                return s
            if n.kind == "for" and e.kind != "t":
                return s
            defs = node_defs(n)
            if not defs:
                return s
            s2 = dict(s)
            for d in defs:
                s2[d] = frozenset([n.id])
            return s2

        def join(a_: dict[str, frozenset[int]], b_: dict[str, frozenset[int]]) -> dict[str, frozenset[int]]:
            if a_ == b_:
                return a_
            out = dict(a_)
            for k, v in b_.items():
                out[k] = out.get(k, frozenset()) | v
            return out

        self.at = cfg.solve(init, transfer, join)

    def defs(self, name: str, at: Node) -> list[Node]:
        s = self.at.get(at.id, {})
        return [self.cfg.nodes[i] for i in sorted(s.get(name, frozenset()))]
