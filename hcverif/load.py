"""E1: loader / index.  Parses every unit of /repo and builds module, class and function
tables, import resolution and the in-repo class hierarchy.  Never imports httpcore."""
from __future__ import annotations

import ast
import os
import re
import typing as T

REPO = os.environ.get("HCVERIF_REPO", "/repo")


class AnalysisError(Exception):
    """The analysis lost its footing (exit 2) - never a silent pass."""


REQUIRED_UNITS = [
    "httpcore/__init__.py",
    "httpcore/_api.py",
    "httpcore/_exceptions.py",
    "httpcore/_models.py",
    "httpcore/_ssl.py",
    "httpcore/_synchronization.py",
    "httpcore/_trace.py",
    "httpcore/_utils.py",
    "httpcore/_backends/base.py",
    "httpcore/_backends/auto.py",
    "httpcore/_backends/anyio.py",
    "httpcore/_backends/trio.py",
    "httpcore/_backends/sync.py",
    "httpcore/_backends/mock.py",
    "scripts/unasync.py",
    "docs/exceptions.md",
] + [
    f"httpcore/{d}/{n}.py"
    for d in ("_async", "_sync")
    for n in (
        "__init__",
        "connection",
        "connection_pool",
        "http11",
        "http2",
        "http_proxy",
        "interfaces",
        "socks_proxy",
    )
]


def clone(node: T.Any) -> T.Any:
    """Structural copy of an AST (fields and positions only - not the analysis back-links such as _parent,
    which would make copy.deepcopy drag the whole module along)."""
    if isinstance(node, ast.AST):
        new = node.__class__()
        for f in node._fields:
            if hasattr(node, f):
                setattr(new, f, clone(getattr(node, f)))
        for a in ("lineno", "col_offset", "end_lineno", "end_col_offset"):
            if hasattr(node, a):
                setattr(new, a, getattr(node, a))
        return new
    if isinstance(node, list):
        return [clone(x) for x in node]
    return node


def set_parents(tree: ast.AST) -> None:
    for node in ast.walk(tree):
        for child in ast.iter_child_nodes(node):
            child._parent = node  # type: ignore[attr-defined]
    tree._parent = None  # type: ignore[attr-defined]


def parent(node: ast.AST) -> ast.AST | None:
    return getattr(node, "_parent", None)


def ancestors(node: ast.AST) -> T.Iterator[ast.AST]:
    p = parent(node)
    while p is not None:
        yield p
        p = parent(p)


def enclosing(node: ast.AST, kinds: tuple[type, ...]) -> ast.AST | None:
    for a in ancestors(node):
        if isinstance(a, kinds):
            return a
    return None


FUNC_KINDS = (ast.FunctionDef, ast.AsyncFunctionDef)


class FuncInfo:
    def __init__(self, module: "Module", cls: "ClassInfo | None", node: ast.AST):
        self.module = module
        self.cls = cls
        self.node: ast.FunctionDef | ast.AsyncFunctionDef = node  # type: ignore[assignment]
        self.name: str = node.name  # type: ignore[attr-defined]
        self.is_async = isinstance(node, ast.AsyncFunctionDef)
        self.qual = f"{module.name}:{cls.name + '.' if cls else ''}{self.name}"
        self.short = f"{cls.name + '.' if cls else ''}{self.name}"
        self.is_generator = any(
            isinstance(n, (ast.Yield, ast.YieldFrom)) and enclosing(n, FUNC_KINDS + (ast.Lambda,)) is node
            for n in ast.walk(node)
        )
        self.decorators = [ast.unparse(d) for d in node.decorator_list]  # type: ignore[attr-defined]
        node._finfo = self  # type: ignore[attr-defined]

    @property
    def args(self) -> ast.arguments:
        return self.node.args

    def param_names(self) -> list[str]:
        a = self.args
        return [x.arg for x in a.posonlyargs + a.args + a.kwonlyargs]

    def positional_params(self) -> list[str]:
        a = self.args
        return [x.arg for x in a.posonlyargs + a.args]

    def param_annotation(self, name: str) -> ast.expr | None:
        a = self.args
        for x in a.posonlyargs + a.args + a.kwonlyargs:
            if x.arg == name:
                return x.annotation
        return None

    def param_default(self, name: str) -> ast.expr | None:
        a = self.args
        pos = a.posonlyargs + a.args
        for i, x in enumerate(pos):
            if x.arg == name:
                j = i - (len(pos) - len(a.defaults))
                return a.defaults[j] if j >= 0 else None
        for x, d in zip(a.kwonlyargs, a.kw_defaults):
            if x.arg == name:
                return d
        return None

    def __repr__(self) -> str:
        return f"<Func {self.qual}>"

    @property
    def lineno(self) -> int:
        return self.node.lineno

    @property
    def where(self) -> str:
        return f"{self.module.relpath}:{self.node.lineno}"


class ClassInfo:
    def __init__(self, module: "Module", node: ast.ClassDef):
        self.module = module
        self.node = node
        self.name = node.name
        self.qual = f"{module.name}:{node.name}"
        self.methods: dict[str, FuncInfo] = {}
        self.class_assigns: dict[str, ast.expr] = {}
        self.bases: list[ClassInfo | str] = []  # filled by Program
        self.subclasses: list[ClassInfo] = []
        for item in node.body:
            if isinstance(item, FUNC_KINDS):
                self.methods[item.name] = FuncInfo(module, self, item)
            elif isinstance(item, ast.Assign) and len(item.targets) == 1 and isinstance(item.targets[0], ast.Name):
                self.class_assigns[item.targets[0].id] = item.value
            elif isinstance(item, ast.AnnAssign) and isinstance(item.target, ast.Name) and item.value is not None:
                self.class_assigns[item.target.id] = item.value
        node._cinfo = self  # type: ignore[attr-defined]

    def mro(self) -> list["ClassInfo"]:
        out: list[ClassInfo] = []
        todo: list[ClassInfo] = [self]
        while todo:
            c = todo.pop(0)
            if c in out:
                continue
            out.append(c)
            todo.extend(b for b in c.bases if isinstance(b, ClassInfo))
        return out

    def find_method(self, name: str) -> FuncInfo | None:
        for c in self.mro():
            if name in c.methods:
                return c.methods[name]
        return None

    def all_subclasses(self) -> list["ClassInfo"]:
        out: list[ClassInfo] = []
        todo = list(self.subclasses)
        while todo:
            c = todo.pop()
            if c not in out:
                out.append(c)
                todo.extend(c.subclasses)
        return out

    def is_subclass_of(self, other: "ClassInfo") -> bool:
        return other in self.mro()

    def external_bases(self) -> list[str]:
        out = []
        for c in self.mro():
            out.extend(b for b in c.bases if isinstance(b, str))
        return out

    def __repr__(self) -> str:
        return f"<Class {self.qual}>"

    @property
    def where(self) -> str:
        return f"{self.module.relpath}:{self.node.lineno}"


class Module:
    def __init__(self, name: str, relpath: str, src: str, alpha: bool = True, tree: ast.Module | None = None, notes: list[str] | None = None):
        self.name = name
        self.relpath = relpath
        self.src = src
        self.alpha_notes: list[str] = []
        if tree is not None:
            self.tree = tree                 # parsed and normalised by the caller (whole-program normalisation)
            self.alpha_notes = notes or []
        else:
            try:
                self.tree = ast.parse(src, filename=relpath)
            except SyntaxError as exc:
                raise AnalysisError(f"unparsable unit {relpath}: {exc}") from exc
            if alpha:
                from . import alpha as _alpha

                self.alpha_notes = _alpha.normalise_module(relpath, self.tree)
        set_parents(self.tree)
        self.imports: dict[str, tuple[str, str | None]] = {}
        self.classes: dict[str, ClassInfo] = {}
        self.functions: dict[str, FuncInfo] = {}
        self.assigns: dict[str, ast.expr] = {}
        self.package = name.rsplit(".", 1)[0] if "." in name else ""
        if relpath.endswith("__init__.py"):
            self.package = name
        self._index()

    def _abs_module(self, level: int, mod: str | None) -> str:
        if level == 0:
            return mod or ""
        parts = self.package.split(".")
        base = parts[: len(parts) - (level - 1)]
        if mod:
            base = base + mod.split(".")
        return ".".join(base)

    def _index(self) -> None:
        for node in ast.walk(self.tree):
            if isinstance(node, ast.Import):
                for a in node.names:
                    bind = a.asname or a.name.split(".")[0]
                    target = a.name if a.asname else a.name.split(".")[0]
                    self.imports[bind] = (target, None)
            elif isinstance(node, ast.ImportFrom):
                absmod = self._abs_module(node.level, node.module)
                for a in node.names:
                    self.imports[a.asname or a.name] = (absmod, a.name)
        def scan(body: list[ast.stmt]) -> None:
            for item in body:
                if isinstance(item, ast.ClassDef):
                    # first definition wins (the ImportError fallbacks in __init__ come later)
                    self.classes.setdefault(item.name, ClassInfo(self, item))
                elif isinstance(item, FUNC_KINDS):
                    self.functions.setdefault(item.name, FuncInfo(self, None, item))
                elif isinstance(item, ast.Assign):
                    for t in item.targets:
                        if isinstance(t, ast.Name):
                            self.assigns[t.id] = item.value
                elif isinstance(item, ast.AnnAssign) and isinstance(item.target, ast.Name) and item.value:
                    self.assigns[item.target.id] = item.value
                elif isinstance(item, ast.Try):
                    scan(item.body)
                    for h in item.handlers:
                        scan(h.body)
                elif isinstance(item, ast.If):
                    scan(item.body)
                    scan(item.orelse)
        scan(self.tree.body)

    def all_functions(self) -> list[FuncInfo]:
        out = list(self.functions.values())
        for c in self.classes.values():
            out.extend(c.methods.values())
        return out

    def line(self, lineno: int) -> str:
        lines = self.src.splitlines()
        return lines[lineno - 1] if 0 < lineno <= len(lines) else ""


class Program:
    def __init__(self, root: str | None = None, alpha: bool = True):
        self.root = root or REPO
        self.alpha = alpha
        self.modules: dict[str, Module] = {}
        self.texts: dict[str, str] = {}
        for rel in REQUIRED_UNITS:
            if not os.path.isfile(os.path.join(self.root, rel)):
                raise AnalysisError(f"required unit missing: {rel}")
        rels = []
        for dirpath, dirnames, filenames in os.walk(os.path.join(self.root, "httpcore")):
            dirnames[:] = sorted(d for d in dirnames if d != "__pycache__")
            for fn in sorted(filenames):
                if fn.endswith(".py"):
                    rels.append(os.path.relpath(os.path.join(dirpath, fn), self.root))
        if self.alpha:
            from . import alpha as _alpha

            srcs, trees = {}, {}
            for rel in rels:
                with open(os.path.join(self.root, rel), encoding="utf-8") as f:
                    srcs[rel] = f.read()
                try:
                    trees[rel] = ast.parse(srcs[rel], filename=rel)
                except SyntaxError as exc:
                    raise AnalysisError(f"unparsable unit {rel}: {exc}") from exc
            notes = _alpha.normalise_program(trees)
            for rel in rels:
                name = rel[:-3].replace(os.sep, ".")
                if name.endswith(".__init__"):
                    name = name[: -len(".__init__")]
                self.modules[name] = Module(name, rel, srcs[rel], alpha=True, tree=trees[rel], notes=notes.get(rel, []))
        else:
            for rel in rels:
                self._load(rel)
        for rel in ("scripts/unasync.py",):
            with open(os.path.join(self.root, rel), encoding="utf-8") as f:
                self.texts[rel] = f.read()
        with open(os.path.join(self.root, "docs/exceptions.md"), encoding="utf-8") as f:
            self.texts["docs/exceptions.md"] = f.read()
        self._link()
        self.subs = self._parse_subs()

    def _load(self, rel: str) -> None:
        with open(os.path.join(self.root, rel), encoding="utf-8") as f:
            src = f.read()
        name = rel[:-3].replace(os.sep, ".")
        if name.endswith(".__init__"):
            name = name[: -len(".__init__")]
        self.modules[name] = Module(name, rel, src, alpha=self.alpha)

    # ---- resolution ---------------------------------------------------------------
    def resolve(self, module: Module, name: str, _depth: int = 0) -> ClassInfo | FuncInfo | str | None:
        """Resolve a bare name used in `module` to a repo class/function, or to an
        external dotted name (string), or None."""
        if _depth > 8:
            return None
        if name in module.classes:
            return module.classes[name]
        if name in module.functions:
            return module.functions[name]
        if name in module.imports:
            mod, sym = module.imports[name]
            if sym is None:
                return mod  # module object
            target = self.modules.get(mod)
            if target is not None:
                r = self.resolve(target, sym, _depth + 1)
                if r is not None:
                    return r
                if sym in target.assigns:
                    return f"{mod}.{sym}"
                return None
            sub = self.modules.get(f"{mod}.{sym}")
            if sub is not None:
                return sub.name
            return f"{mod}.{sym}"
        if name in module.assigns:
            return f"{module.name}.{name}"
        return None

    def resolve_expr(self, module: Module, expr: ast.expr) -> ClassInfo | FuncInfo | str | None:
        """Resolve Name / dotted Attribute expressions denoting classes, functions or
        external symbols (e.g. `h11.LocalProtocolError`, `socksio.socks5.SOCKS5Connection`)."""
        if isinstance(expr, ast.Name):
            return self.resolve(module, expr.id)
        if isinstance(expr, ast.Attribute):
            base = self.resolve_expr(module, expr.value)
            if isinstance(base, str):
                m = self.modules.get(base)
                if m is not None:
                    r = self.resolve(m, expr.attr)
                    if r is not None:
                        return r
                return f"{base}.{expr.attr}"
            if isinstance(base, ClassInfo):
                return f"{base.qual}.{expr.attr}"
        if isinstance(expr, ast.Constant) and isinstance(expr.value, str):
            try:
                return self.resolve_expr(module, ast.parse(expr.value, mode="eval").body)
            except SyntaxError:
                return None
        return None

    def _link(self) -> None:
        for m in self.modules.values():
            for c in m.classes.values():
                for b in c.node.bases:
                    r = self.resolve_expr(m, b)
                    if isinstance(r, ClassInfo):
                        c.bases.append(r)
                        r.subclasses.append(c)
                    elif isinstance(r, str):
                        c.bases.append(r)
                    else:
                        c.bases.append(ast.unparse(b))

    # ---- lookups ------------------------------------------------------------------
    def module(self, name: str) -> Module:
        if name not in self.modules:
            raise AnalysisError(f"module {name} not found")
        return self.modules[name]

    def cls(self, module: str, name: str) -> ClassInfo:
        m = self.module(module)
        if name not in m.classes:
            raise AnalysisError(f"anchor vanished: class {name} in {m.relpath}")
        return m.classes[name]

    def func(self, module: str, qual: str) -> FuncInfo:
        m = self.module(module)
        if "." in qual:
            cn, fn = qual.split(".", 1)
            c = self.cls(module, cn)
            if fn not in c.methods:
                if fn in m.functions and fn.startswith("_"):
                    return m.functions[fn]      # a private method that never used `self`, turned into a function of the same unit
                raise AnalysisError(f"anchor vanished: method {qual} in {m.relpath}")
            return c.methods[fn]
        if qual not in m.functions:
            raise AnalysisError(f"anchor vanished: function {qual} in {m.relpath}")
        return m.functions[qual]

    def maybe_func(self, module: str, qual: str) -> FuncInfo | None:
        try:
            return self.func(module, qual)
        except AnalysisError:
            return None

    def all_functions(self) -> list[FuncInfo]:
        out: list[FuncInfo] = []
        for m in self.modules.values():
            out.extend(m.all_functions())
        return out

    def all_classes(self) -> list[ClassInfo]:
        out: list[ClassInfo] = []
        for m in self.modules.values():
            out.extend(m.classes.values())
        return out

    # ---- unasync table --------------------------------------------------------------
    def _parse_subs(self) -> list[tuple[str, str]]:
        src = self.texts["scripts/unasync.py"]
        try:
            tree = ast.parse(src)
        except SyntaxError as exc:
            raise AnalysisError(f"scripts/unasync.py unparsable: {exc}") from exc
        for node in tree.body:
            if isinstance(node, ast.Assign) and any(isinstance(t, ast.Name) and t.id == "SUBS" for t in node.targets):
                try:
                    subs = ast.literal_eval(node.value)
                except Exception as exc:  # noqa: BLE001
                    raise AnalysisError(f"SUBS table is not a literal: {exc}") from exc
                return [(a, b) for a, b in subs]
        raise AnalysisError("anchor vanished: SUBS table in scripts/unasync.py")

    def unasync_line(self, line: str) -> str:
        for regex, repl in self.compiled_subs():
            line = regex.sub(repl, line)
        return line

    def compiled_subs(self) -> list[tuple[re.Pattern[str], str]]:
        if not hasattr(self, "_csubs"):
            self._csubs = [(re.compile(r"(^|\b)" + rx + r"($|\b)"), repl) for rx, repl in self.subs]
        return self._csubs


class Names:
    """Role names for one tree.  `t(name)` maps an async-tree identifier to the tree's
    own spelling using the repository's own SUBS table (so `AsyncHTTP11Connection` ->
    `HTTP11Connection`, `handle_async_request` -> `handle_request`, `aclose` -> `close`)."""

    def __init__(self, prog: Program, tree: str):
        assert tree in ("async", "sync")
        self.prog = prog
        self.tree = tree
        self.pkg = "httpcore._async" if tree == "async" else "httpcore._sync"
        self._cache: dict[str, str] = {}

    def t(self, ident: str) -> str:
        if self.tree == "async":
            return ident
        if ident not in self._cache:
            self._cache[ident] = self.prog.unasync_line(ident)
        return self._cache[ident]

    def mod(self, short: str) -> str:
        return f"{self.pkg}.{short}"

    def cls(self, short_mod: str, async_name: str) -> ClassInfo:
        return self.prog.cls(self.mod(short_mod), self.t(async_name))

    def func(self, short_mod: str, async_qual: str) -> FuncInfo:
        return self.prog.func(self.mod(short_mod), ".".join(self.t(p) for p in async_qual.split(".")))

    def maybe_func(self, short_mod: str, async_qual: str) -> FuncInfo | None:
        try:
            return self.func(short_mod, async_qual)
        except AnalysisError:
            return None

    def modules(self) -> list[Module]:
        return [m for n, m in self.prog.modules.items() if n == self.pkg or n.startswith(self.pkg + ".")]

    def functions(self) -> list[FuncInfo]:
        out: list[FuncInfo] = []
        for m in self.modules():
            out.extend(m.all_functions())
        return out


TREES = ("async", "sync")
CORE_MODS = ("connection", "connection_pool", "http11", "http2", "http_proxy", "interfaces", "socks_proxy")


# ---- small AST helpers used everywhere ---------------------------------------------

def strip_await(e: ast.AST) -> ast.AST:
    while isinstance(e, ast.Await):
        e = e.value
    return e


def chain(e: ast.AST) -> list[str] | None:
    """`self._h11_state.send` -> ['self', '_h11_state', 'send']; None if not a pure chain."""
    e = strip_await(e)
    out: list[str] = []
    while isinstance(e, ast.Attribute):
        out.append(e.attr)
        e = e.value
    if isinstance(e, ast.Name):
        out.append(e.id)
        return list(reversed(out))
    return None


def call_chain(call: ast.AST) -> list[str] | None:
    call = strip_await(call)
    if isinstance(call, ast.Call):
        return chain(call.func)
    return None


def norm(e: ast.AST | None) -> str:
    if e is None:
        return "<none>"
    return re.sub(r"\s+", "", ast.unparse(e))


def calls_in(node: ast.AST) -> list[ast.Call]:
    return [n for n in ast.walk(node) if isinstance(n, ast.Call)]


def own_nodes(func_node: ast.AST) -> T.Iterator[ast.AST]:
    """All nodes of a function body excluding nested function/class definitions."""
    todo = list(ast.iter_child_nodes(func_node))
    while todo:
        n = todo.pop()
        yield n
        if isinstance(n, FUNC_KINDS + (ast.ClassDef,)):
            continue
        todo.extend(ast.iter_child_nodes(n))


def stmt_of(node: ast.AST) -> ast.stmt | None:
    n: ast.AST | None = node
    while n is not None and not isinstance(n, ast.stmt):
        n = parent(n)
    return n  # type: ignore[return-value]


def func_of(node: ast.AST) -> FuncInfo | None:
    f = enclosing(node, FUNC_KINDS)
    return getattr(f, "_finfo", None) if f is not None else None


def kw(call: ast.Call, name: str) -> ast.expr | None:
    for k in call.keywords:
        if k.arg == name:
            return k.value
    return None


def const(e: ast.AST | None) -> T.Any:
    return e.value if isinstance(e, ast.Constant) else None


def loc(module: Module, node: ast.AST) -> str:
    return f"{module.relpath}:{getattr(node, 'lineno', 0)}"
