"""E7: exception-escape (effect) analysis over the call graph, with handler filtering,
map_exceptions rewriting, shield scopes, isinstance narrowing in handlers, cause tags and
witness chains.  Also computes the may-suspend effect (which awaits are cancellation points)."""
from __future__ import annotations

import ast
import typing as T

from . import boundary as B
from .callgraph import CallGraph, CallSite
from .load import FUNC_KINDS, AnalysisError, ClassInfo, FuncInfo, Program, chain, enclosing, norm, own_nodes, parent, strip_await

CANCELLED = "Cancelled"


class Src:
    """One escaping exception: class, cause tag, and the chain source -> ... -> here."""
    __slots__ = ("cls", "tag", "chain", "origin")

    def __init__(self, cls: str, tag: str, chain_: tuple[str, ...], origin: str):
        self.cls, self.tag, self.chain, self.origin = cls, tag, chain_, origin

    def via(self, hop: str) -> "Src":
        if len(self.chain) >= 10:
            return self
        return Src(self.cls, self.tag, self.chain + (hop,), self.origin)

    def key(self) -> tuple[str, str, str]:
        return (self.cls, self.tag, self.origin)

    def __repr__(self) -> str:
        return f"<{self.cls}/{self.tag} from {self.origin}>"


class Esc(dict):  # (cls, tag, origin) -> Src
    def add(self, s: Src) -> None:
        k = s.key()
        old = self.get(k)
        if old is None or len(s.chain) < len(old.chain):
            self[k] = s

    def merge(self, other: "Esc", hop: str | None = None) -> None:
        for s in other.values():
            self.add(s.via(hop) if hop else s)

    def classes(self) -> set[str]:
        return {k[0] for k in self}

    def only(self, pred: T.Callable[[Src], bool]) -> "Esc":
        e = Esc()
        for s in self.values():
            if pred(s):
                e.add(s)
        return e


# sources inside these functions are configuration / environment faults, outside every quantifier
CONFIG_FUNCS = {"Trace.trace", "Trace.atrace", "current_async_library", "default_ssl_context"}


class Ctx:
    __slots__ = ("func", "shield", "cur", "cur_name")

    def __init__(self, func: FuncInfo, shield: bool = False, cur: Esc | None = None, cur_name: str | None = None):
        self.func, self.shield, self.cur, self.cur_name = func, shield, cur, cur_name

    def with_(self, **kw: T.Any) -> "Ctx":
        c = Ctx(self.func, self.shield, self.cur, self.cur_name)
        for k, v in kw.items():
            setattr(c, k, v)
        return c


class Escape:
    def __init__(self, prog: Program, cg: CallGraph):
        self.prog = prog
        self.cg = cg
        self.types = cg.types
        self.parent: dict[str, str] = dict(B.EXC_PARENT)
        exc_mod = prog.module("httpcore._exceptions")
        self.repo_exceptions: dict[str, ClassInfo] = {}
        for c in exc_mod.classes.values():
            base = "Exception"
            for b in c.bases:
                if isinstance(b, ClassInfo):
                    base = b.name
                elif isinstance(b, str):
                    base = b.replace("builtins.", "")
            self.parent[c.name] = base
            self.repo_exceptions[c.name] = c
        self.net_classes = set()
        base_mod = prog.module("httpcore._backends.base")
        for n in B.NETWORK_INTERFACES:
            c = base_mod.classes.get(n)
            if c is None:
                raise AnalysisError(f"anchor vanished: {n} in _backends/base.py")
            self.net_classes.add(c.qual)
            for s in c.all_subclasses():
                self.net_classes.add(s.qual)
        self.unknown_boundary: list[str] = []
        self.handler_caught: dict[int, Esc] = {}
        self.attr_exc: dict[tuple[str, str], Esc] = {}
        self._suspend: dict[str, bool] = {}
        self._esc: dict[str, Esc] = {}
        self._compute_suspend()
        self._fixpoint()

    # ---- hierarchy ----------------------------------------------------------------------
    def exc_name(self, module: T.Any, e: ast.expr | None) -> str | None:
        """Resolve an exception class expression to its model name."""
        if e is None:
            return "BaseException"
        if isinstance(e, ast.Call):
            e = e.func
        r = self.prog.resolve_expr(module, e)
        if isinstance(r, ClassInfo):
            return r.name if r.name in self.parent else None
        if isinstance(r, str):
            r = r.replace("builtins.", "")
            if r in self.parent:
                return r
            # h2.exceptions.X / anyio.X etc. not in the frozen table: keep the dotted name under Exception
            if "." in r:
                self.parent.setdefault(r, "Exception")
                return r
            return None
        if isinstance(e, ast.Name) and e.id in self.parent:
            return e.id
        return None

    def is_sub(self, c: str, k: str) -> bool:
        c = B.EXC_ALIASES.get(c, c)
        k = B.EXC_ALIASES.get(k, k)
        seen = 0
        while c and seen < 20:
            if c == k:
                return True
            c = B.EXC_ALIASES.get(self.parent.get(c, ""), self.parent.get(c, ""))
            seen += 1
        return False

    def handler_types(self, module: T.Any, h: ast.ExceptHandler) -> list[str]:
        if h.type is None:
            return ["BaseException"]
        elts = h.type.elts if isinstance(h.type, ast.Tuple) else [h.type]
        out = []
        for e in elts:
            n = self.exc_name(module, e)
            if n is None:
                raise AnalysisError(f"cannot resolve exception class `{ast.unparse(e)}` at {module.relpath}:{h.lineno}")
            out.append(n)
        return out

    # ---- may-suspend ----------------------------------------------------------------------
    def _site_suspends(self, s: CallSite) -> bool:
        for c in s.callees:
            if c.func is not None:
                if c.func.cls is not None and c.func.cls.qual in self.net_classes and c.func.name in B.NETWORK_CONTRACT:
                    if c.func.name in B.NETWORK_SUSPENDING:
                        return True
                    continue
                if c.func.is_async and self._suspend.get(c.func.qual, False):
                    return True
            else:
                return True  # awaited external coroutine (anyio / trio / user callback)
        return False

    def _func_suspends(self, f: FuncInfo) -> bool:
        if not f.is_async:
            return False
        for n in own_nodes(f.node):
            if isinstance(n, ast.Await):
                inner = strip_await(n)
                sites = self.cg.sites_at(inner) if isinstance(inner, ast.Call) else []
                if not sites:
                    return True  # awaiting a bare awaitable (e.g. the user's trace coroutine)
                if any(self._site_suspends(s) for s in sites if s.kind == "call"):
                    return True
            elif isinstance(n, ast.AsyncWith):
                for item in n.items:
                    if any(self._site_suspends(s) for s in self.cg.sites_at(item)):
                        return True
            elif isinstance(n, ast.AsyncFor) or (isinstance(n, ast.comprehension) and n.is_async):
                sites = self.cg.sites_at(n)
                if not sites or any(self._site_suspends(s) for s in sites):
                    return True
                if isinstance(n.iter, ast.Call) and any(self._site_suspends(s) for s in self.cg.sites_at(n.iter)):
                    return True
        return False

    def _compute_suspend(self) -> None:
        funcs = [f for f in self.prog.all_functions() if f.is_async]
        changed = True
        while changed:
            changed = False
            for f in funcs:
                if not self._suspend.get(f.qual, False) and self._func_suspends(f):
                    self._suspend[f.qual] = True
                    changed = True

    def may_suspend(self, f: FuncInfo) -> bool:
        return self._suspend.get(f.qual, False)

    def await_suspends(self, node: ast.AST) -> bool:
        """Is this Await / async-with item / async-for a cancellation point?"""
        if isinstance(node, ast.Await):
            inner = strip_await(node)
            sites = [s for s in (self.cg.sites_at(inner) if isinstance(inner, ast.Call) else []) if s.kind == "call"]
            if not sites:
                return True
            return any(self._site_suspends(s) for s in sites)
        sites = self.cg.sites_at(node)
        if isinstance(node, (ast.AsyncFor, ast.comprehension)):
            extra = self.cg.sites_at(node.iter) if isinstance(node.iter, ast.Call) else []
            if not sites and not extra:
                return True
            return any(self._site_suspends(s) for s in sites + extra)
        return any(self._site_suspends(s) for s in sites)

    # ---- fixpoint ----------------------------------------------------------------------------
    def _fixpoint(self) -> None:
        funcs = self.prog.all_functions()
        for f in funcs:
            self._esc[f.qual] = Esc()
        for rounds in range(40):
            changed = False
            for f in funcs:
                new = self._analyse(f)
                old = self._esc[f.qual]
                if set(new) - set(old):
                    merged = Esc(old)
                    merged.merge(new)
                    self._esc[f.qual] = merged
                    changed = True
            if not changed:
                self.rounds = rounds + 1
                return
        raise AnalysisError("escape analysis did not converge in 40 rounds")

    def of(self, f: FuncInfo) -> Esc:
        return self._esc.get(f.qual, Esc())

    def _analyse(self, f: FuncInfo) -> Esc:
        if f.short == "map_exceptions":
            return Esc()  # modelled as a class-set transformer at its with-sites
        out = self.block(f.node.body, Ctx(f))
        if f.short in CONFIG_FUNCS:
            cfg = Esc()
            for s in out.values():
                cfg.add(Src(s.cls, "config" if s.cls != CANCELLED else s.tag, s.chain, s.origin))
            return cfg
        return out

    # ---- sources -------------------------------------------------------------------------------
    def _where(self, f: FuncInfo, node: ast.AST) -> str:
        n = node.context_expr if isinstance(node, ast.withitem) else (node.iter if isinstance(node, ast.comprehension) else node)
        return f"{f.module.relpath}:{getattr(n, 'lineno', 0)}"

    def _origin(self, f: FuncInfo, construct: str) -> str:
        return f"{f.qual.split(':')[0].replace('httpcore.', '')}:{f.short}|{construct}"

    def site_escapes(self, s: CallSite, ctx: Ctx) -> Esc:
        out = Esc()
        f = ctx.func
        hop = f"{self._where(f, s.node)} {f.short}: {s.text()[:70]}"
        for c in s.callees:
            if c.func is not None:
                tf = c.func
                if tf.cls is not None and tf.cls.qual in self.net_classes and tf.name in B.NETWORK_CONTRACT \
                        and not (f.cls is not None and f.cls.qual in self.net_classes and f.module.name.startswith("httpcore._backends")):
                    for cls, tag in B.NETWORK_CONTRACT[tf.name].items():
                        out.add(Src(cls, tag, (hop,), self._origin(f, f"{s.text()}")))
                    continue
                callee_esc = self._esc.get(tf.qual, Esc())
                for src in callee_esc.values():
                    if src.cls == CANCELLED:
                        continue  # cancellation is attributed at the await itself
                    out.add(src.via(hop))
            elif c.ext is not None:
                name = c.ext
                if name in B.RAISES:
                    for cls, tag in B.RAISES[name].items():
                        out.add(Src(cls, tag, (hop,), self._origin(f, s.text())))
                elif s.kind == "call" and B.is_strict(name):
                    note = f"{name} at {self._where(f, s.node)}"
                    if note not in self.unknown_boundary:
                        self.unknown_boundary.append(note)
        return out

    def implicit_sources(self, node: ast.AST, ctx: Ctx) -> Esc:
        """int(), .decode(), [i], d[k], del d[k], list.remove - the implicit raisers of the vocabulary."""
        out = Esc()
        f = ctx.func
        for n in ast.walk(node):
            if isinstance(n, FUNC_KINDS + (ast.Lambda,)):
                continue
            if isinstance(n, ast.Call):
                ch = chain(n.func)
                if isinstance(n.func, ast.Name) and n.func.id == "int" and n.args and not isinstance(n.args[0], ast.Constant):
                    out.add(Src("ValueError", self._data_tag(n.args[0], f), (f"{self._where(f, n)} {f.short}: {ast.unparse(n)[:70]}",),
                                self._origin(f, norm(n))))
                elif isinstance(n.func, ast.Attribute) and n.func.attr == "decode" and not any(k.arg == "errors" for k in n.keywords) and len(n.args) < 2:
                    rt = self.types.expr_type(n.func.value, f)
                    if rt[0] in ("any", "ext", "union") and (rt == ("any",) or "bytes" in str(rt)):
                        out.add(Src("UnicodeDecodeError", self._data_tag(n.func.value, f),
                                    (f"{self._where(f, n)} {f.short}: {ast.unparse(n)[:70]}",), self._origin(f, norm(n))))
                elif isinstance(n.func, ast.Attribute) and n.func.attr == "remove":
                    rt = self.types.expr_type(n.func.value, f)
                    if rt[0] == "list":
                        out.add(Src("ValueError", "internal-invariant", (f"{self._where(f, n)} {f.short}: {ast.unparse(n)[:70]}",),
                                    self._origin(f, norm(n))))
            elif isinstance(n, ast.Subscript) and not isinstance(n.slice, ast.Slice):
                if isinstance(n.ctx, ast.Store):
                    continue
                vt = self.types.expr_type(n.value, f)
                is_dict = vt[0] == "dict" or isinstance(n.value, ast.Dict)
                idx = n.slice
                if is_dict:
                    if not self._key_guarded(n, f):
                        out.add(Src("KeyError", self._data_tag(n.slice, f), (f"{self._where(f, n)} {f.short}: {ast.unparse(n)[:70]}",),
                                    self._origin(f, norm(n))))
                elif isinstance(idx, ast.Constant) and isinstance(idx.value, int) and not isinstance(n.ctx, ast.Del):
                    if self._maybe_empty_list(n.value, f) and not self._truthy_guarded(n, f):
                        out.add(Src("IndexError", self._data_tag(n.value, f), (f"{self._where(f, n)} {f.short}: {ast.unparse(n)[:70]}",),
                                    self._origin(f, norm(n))))
        return out

    def _data_tag(self, e: ast.AST, f: FuncInfo) -> str:
        """Whose data can make this implicit operation fail: the caller's configuration
        (URL / origin components), the caller's request, or the peer."""
        txt = ast.unparse(e)
        roots = {n.id for n in ast.walk(e) if isinstance(n, ast.Name)}
        attrs = {n.attr for n in ast.walk(e) if isinstance(n, ast.Attribute)}
        if attrs & {"_origin", "_remote_origin", "_proxy_origin", "url", "scheme", "host"} and not attrs & {"headers"}:
            return "config"
        if roots & {"origin", "url", "scheme", "proxy_url"} and not roots & {"event", "response", "data"}:
            return "config"
        if "request.headers" in txt or (roots & {"request"} and "headers" in attrs):
            return "local-send"
        return "peer-input"

    def _maybe_empty_list(self, v: ast.AST, f: FuncInfo) -> bool:
        if isinstance(v, (ast.ListComp, ast.GeneratorExp)):
            return True
        if isinstance(v, ast.Name):
            for n in own_nodes(f.node):
                if isinstance(n, ast.Assign) and any(isinstance(t, ast.Name) and t.id == v.id for t in n.targets):
                    if isinstance(n.value, ast.ListComp) or (isinstance(n.value, ast.List) and not n.value.elts):
                        return True
        return False

    def _guards(self, node: ast.AST) -> list[tuple[ast.expr, bool]]:
        from .guards import guards_of

        return guards_of(node)

    def _truthy_guarded(self, sub: ast.Subscript, f: FuncInfo) -> bool:
        want = norm(sub.value)
        for test, pol in self._guards(sub):
            for atom, p in _conj_atoms(test, pol):
                if p and norm(atom) == want:
                    return True
                if p and isinstance(atom, ast.Call) and isinstance(atom.func, ast.Name) and atom.func.id == "len" and atom.args and norm(atom.args[0]) == want:
                    return True
        return False

    def _key_guarded(self, sub: ast.Subscript, f: FuncInfo) -> bool:
        d, k = norm(sub.value), norm(sub.slice)
        for test, pol in self._guards(sub):
            for atom, p in _conj_atoms(test, pol):
                if p and isinstance(atom, ast.Compare) and len(atom.ops) == 1 and isinstance(atom.ops[0], ast.In) \
                        and norm(atom.left) == k and norm(atom.comparators[0]) == d:
                    return True
                if p and isinstance(atom, ast.Call) and isinstance(atom.func, ast.Attribute) and atom.func.attr == "get" \
                        and norm(atom.func.value) == d and atom.args and norm(atom.args[0]) == k:
                    return True
        # `while not d.get(k): ...` followed by d[k] in the same block
        st = sub
        while st is not None and not isinstance(st, ast.stmt):
            st = parent(st)  # type: ignore[assignment]
        p_ = parent(st) if st is not None else None
        if p_ is not None:
            for field in ("body", "orelse", "finalbody"):
                blk = getattr(p_, field, None)
                if isinstance(blk, list) and st in blk:
                    for prev in blk[: blk.index(st)]:
                        if isinstance(prev, ast.While) and not any(isinstance(x, ast.Break) for x in ast.walk(prev)):
                            for atom, pol in _conj_atoms(prev.test, False):
                                if pol and isinstance(atom, ast.Call) and isinstance(atom.func, ast.Attribute) and atom.func.attr == "get" \
                                        and norm(atom.func.value) == d and atom.args and norm(atom.args[0]) == k:
                                    return True
        return False

    def expr_sources(self, node: ast.AST, ctx: Ctx, awaits: bool = True) -> Esc:
        """Everything evaluating `node` (an expression or a simple statement) may raise."""
        out = Esc()
        f = ctx.func
        for n in ast.walk(node):
            for s in self.cg.sites_at(n):
                if s.owner is f and s.kind in ("call", "prop", "dunder"):
                    out.merge(self.site_escapes(s, ctx))
                    if s.kind == "call" and isinstance(n, ast.Call):
                        # calling a generator function runs nothing; iteration is attributed to the for-site
                        pass
            if awaits and isinstance(n, ast.Await) and not ctx.shield and self.await_suspends(n):
                out.add(Src(CANCELLED, "cancel", (f"{self._where(f, n)} {f.short}: {ast.unparse(n)[:70]}",),
                            self._origin(f, norm(n))))
            if isinstance(n, ast.comprehension):
                for s in self.cg.sites_at(n):
                    if s.owner is f:
                        out.merge(self.site_escapes(s, ctx))
                if n.is_async and not ctx.shield and self.await_suspends(n):
                    out.add(Src(CANCELLED, "cancel", (f"{self._where(f, n)} {f.short}: async comprehension",), self._origin(f, norm(n.iter))))
            if isinstance(n, (ast.Yield, ast.YieldFrom)):
                out.add(Src("GeneratorExit", "generator-close", (f"{self._where(f, n)} {f.short}: yield",), self._origin(f, "yield")))
        out.merge(self.implicit_sources(node, ctx))
        return out

    # ---- statements ----------------------------------------------------------------------------
    def block(self, stmts: list[ast.stmt], ctx: Ctx) -> Esc:
        out = Esc()
        cur = ctx
        for st in stmts:
            e, cur = self.stmt(st, cur)
            out.merge(e)
        return out

    def _always_exits(self, stmts: list[ast.stmt]) -> bool:
        if not stmts:
            return False
        last = stmts[-1]
        if isinstance(last, (ast.Raise, ast.Return, ast.Continue, ast.Break)):
            return True
        if isinstance(last, ast.If):
            return self._always_exits(last.body) and self._always_exits(last.orelse)
        return False

    def _isinstance_narrow(self, test: ast.expr, ctx: Ctx) -> str | None:
        if ctx.cur is None or ctx.cur_name is None:
            return None
        if isinstance(test, ast.Call) and isinstance(test.func, ast.Name) and test.func.id == "isinstance" and len(test.args) == 2 \
                and isinstance(test.args[0], ast.Name) and test.args[0].id == ctx.cur_name:
            return self.exc_name(ctx.func.module, test.args[1])
        return None

    def stmt(self, st: ast.stmt, ctx: Ctx) -> tuple[Esc, Ctx]:
        f = ctx.func
        out = Esc()
        if isinstance(st, FUNC_KINDS + (ast.ClassDef, ast.Import, ast.ImportFrom, ast.Pass, ast.Break, ast.Continue, ast.Global, ast.Nonlocal)):
            return out, ctx
        if isinstance(st, ast.Raise):
            return self._raise(st, ctx), ctx
        if isinstance(st, ast.Assert):
            out.merge(self.expr_sources(st.test, ctx))
            out.add(Src("AssertionError", "assert", (f"{self._where(f, st)} {f.short}: {ast.unparse(st)[:70]}",), self._origin(f, norm(st))))
            return out, ctx
        if isinstance(st, ast.If):
            out.merge(self.expr_sources(st.test, ctx))
            k = self._isinstance_narrow(st.test, ctx)
            if k is not None and ctx.cur is not None:
                inside = ctx.cur.only(lambda s: self.is_sub(s.cls, k) or self.is_sub(k, s.cls))
                outside = ctx.cur.only(lambda s: not self.is_sub(s.cls, k))
                out.merge(self.block(st.body, ctx.with_(cur=inside)))
                out.merge(self.block(st.orelse, ctx.with_(cur=outside)))
                if self._always_exits(st.body):
                    return out, ctx.with_(cur=outside)
                return out, ctx
            out.merge(self.block(st.body, ctx))
            out.merge(self.block(st.orelse, ctx))
            return out, ctx
        if isinstance(st, ast.While):
            out.merge(self.expr_sources(st.test, ctx))
            out.merge(self.block(st.body, ctx))
            out.merge(self.block(st.orelse, ctx))
            return out, ctx
        if isinstance(st, (ast.For, ast.AsyncFor)):
            out.merge(self.expr_sources(st.iter, ctx))
            for s in self.cg.sites_at(st):
                out.merge(self.site_escapes(s, ctx))
            if isinstance(st, ast.AsyncFor) and not ctx.shield and self.await_suspends(st):
                out.add(Src(CANCELLED, "cancel", (f"{self._where(f, st)} {f.short}: async for {ast.unparse(st.iter)[:50]}",),
                            self._origin(f, "asyncfor:" + norm(st.iter))))
            out.merge(self.block(st.body, ctx))
            out.merge(self.block(st.orelse, ctx))
            return out, ctx
        if isinstance(st, (ast.With, ast.AsyncWith)):
            return self._with(st, ctx, 0), ctx
        if isinstance(st, ast.Try):
            return self._try(st, ctx), ctx
        if isinstance(st, ast.Match):
            raise AnalysisError(f"match statement not modelled ({f.where})")
        # simple statements
        out.merge(self.expr_sources(st, ctx))
        return out, ctx

    def _raise(self, st: ast.Raise, ctx: Ctx) -> Esc:
        f = ctx.func
        out = Esc()
        hop = f"{self._where(f, st)} {f.short}: {ast.unparse(st)[:70]}"
        if st.exc is None:
            if ctx.cur is not None:
                out.merge(ctx.cur)
            return out
        e = st.exc
        if isinstance(e, ast.Name) and ctx.cur is not None and e.id == ctx.cur_name:
            out.merge(ctx.cur)
            return out
        if isinstance(e, ast.Attribute) and isinstance(e.value, ast.Name) and e.value.id == "self" and f.cls is not None:
            stored = self.attr_exc.get((f.cls.qual, e.attr))
            if stored is not None:
                out.merge(stored, hop)
            return out
        out.merge(self.expr_sources(e, ctx))
        cls = self.exc_name(f.module, e)
        if cls is None:
            # `raise exc_class()` where the class is a parameter of the routine: every class a call site passes (or the default)
            c_ = e.func if isinstance(e, ast.Call) else e
            if isinstance(c_, ast.Name) and c_.id in f.param_names():
                pcs = self._param_classes(f, c_.id)
                if pcs:
                    for pc in pcs:
                        out.add(Src(pc, "explicit", (hop,), self._origin(f, norm(st))))
                    return out
        if cls is None:
            # raising a computed exception object (e.g. `raise to_exc(exc)`): unknown class
            cls = "Exception"
        tags = {"explicit"}
        # wrapping the caught exception keeps its cause
        if ctx.cur is not None and ctx.cur_name is not None and any(isinstance(n, ast.Name) and n.id == ctx.cur_name for n in ast.walk(e)):
            tags = {s.tag for s in ctx.cur.values() if s.cls != CANCELLED and s.cls != "GeneratorExit"} or {"explicit"}
        for tag in tags:
            out.add(Src(cls, tag, (hop,), self._origin(f, norm(st))))
        return out

    def _map_of(self, item: ast.withitem, ctx: Ctx) -> list[tuple[str, str]] | None:
        call = item.context_expr
        if not (isinstance(call, ast.Call) and (chain(call.func) or [""])[-1] == "map_exceptions" and call.args):
            return None
        arg = call.args[0]
        f = ctx.func
        if isinstance(arg, ast.Name):
            defs = [n for n in own_nodes(f.node)
                    if (isinstance(n, ast.Assign) and any(isinstance(t, ast.Name) and t.id == arg.id for t in n.targets))
                    or (isinstance(n, ast.AnnAssign) and isinstance(n.target, ast.Name) and n.target.id == arg.id and n.value is not None)]
            if not defs:
                # a module-level constant
                defs = [n for n in f.module.tree.body
                        if (isinstance(n, ast.Assign) and any(isinstance(t, ast.Name) and t.id == arg.id for t in n.targets))
                        or (isinstance(n, ast.AnnAssign) and isinstance(n.target, ast.Name) and n.target.id == arg.id and n.value is not None)]
            if len(defs) > 1:
                # one binding per branch: the one that precedes the `with` in its own block (or an enclosing one)
                from .load import parent as _parent

                node: ast.AST | None = item
                chosen = None
                while node is not None and chosen is None and node is not f.node:
                    par = _parent(node)
                    for fld in ("body", "orelse", "finalbody"):
                        lst = getattr(par, fld, None)
                        if isinstance(lst, list) and any(x is node for x in lst):
                            before = lst[:next(i for i, x in enumerate(lst) if x is node)]
                            cand = [d for d in defs if any(d is x for x in before)]
                            if cand:
                                chosen = cand[-1]
                    node = par
                if chosen is not None:
                    defs = [chosen]
            if len(defs) != 1:
                raise AnalysisError(f"map_exceptions argument `{arg.id}` has {len(defs)} definitions in {f.qual}")
            arg = defs[0].value  # type: ignore[assignment]
        if isinstance(arg, ast.Attribute) and isinstance(arg.value, ast.Name) and (arg.value.id in ("self", "cls") or (f.cls is not None and arg.value.id == f.cls.name)) and f.cls is not None:
            # a class-level table
            for k_ in f.cls.mro():
                cdefs = [n for n in k_.node.body
                         if (isinstance(n, ast.Assign) and any(isinstance(t, ast.Name) and t.id == arg.attr for t in n.targets))
                         or (isinstance(n, ast.AnnAssign) and isinstance(n.target, ast.Name) and n.target.id == arg.attr and n.value is not None)]
                if len(cdefs) == 1:
                    arg = cdefs[0].value  # type: ignore[assignment]
                    break
        if not isinstance(arg, ast.Dict):
            raise AnalysisError(f"map_exceptions argument is not a dict literal in {f.qual}")
        pairs = []
        for k, v in zip(arg.keys, arg.values):
            kn, vn = self.exc_name(f.module, k), self.exc_name(f.module, v)
            if kn is not None and vn is None and isinstance(v, ast.Name) and v.id in f.param_names():
                # the target class is a parameter of the routine: every class some call site passes (or the default) - all entries share the key
                vns = self._param_classes(f, v.id)
                if vns:
                    pairs.extend((kn, x) for x in vns)
                    continue
            if kn is None or vn is None:
                raise AnalysisError(f"cannot resolve map_exceptions entry {ast.unparse(k) if k else k}: {ast.unparse(v)} in {f.qual}")
            pairs.append((kn, vn))
        return pairs

    def _param_classes(self, f: FuncInfo, pname: str, _depth: int = 3) -> list[str]:
        """Exception classes bound to parameter `pname` of `f` by any call in the program (by callee name) or by its default."""
        out: list[str] = []
        args = f.node.args
        names = [a.arg for a in args.posonlyargs + args.args]
        pos = names.index(pname) - (1 if names and names[0] in ("self", "cls") else 0) if pname in names else None
        dflt = None
        pos_defaults = dict(zip(names[len(names) - len(args.defaults):], args.defaults))
        kw_defaults = {a.arg: d for a, d in zip(args.kwonlyargs, args.kw_defaults) if d is not None}
        dflt = pos_defaults.get(pname, kw_defaults.get(pname))
        unresolved = False
        for g in self.prog.all_functions():
            for c in own_nodes(g.node):
                if not (isinstance(c, ast.Call) and (chain(c.func) or [""])[-1] == f.name):
                    continue
                val = next((k.value for k in c.keywords if k.arg == pname), None)
                if val is None and pos is not None and 0 <= pos < len(c.args):
                    val = c.args[pos]
                if val is None:
                    continue
                n = self.exc_name(g.module, val)
                if n is None and isinstance(val, ast.Name) and val.id in g.param_names() and _depth > 0:
                    # handed on from the caller's own parameter
                    more = self._param_classes(g, val.id, _depth - 1) if g is not f else []
                    # a caller whose own parameter is bound nowhere (its call sites were normalised away) contributes nothing
                    out.extend(x for x in more if x not in out)
                elif n is None:
                    unresolved = True
                elif n not in out:
                    out.append(n)
        if dflt is not None:
            n = self.exc_name(f.module, dflt)
            if n is not None and n not in out:
                out.append(n)
        return [] if unresolved else out

    def apply_map(self, body: Esc, pairs: list[tuple[str, str]], hop: str) -> Esc:
        out = Esc()
        for s in body.values():
            if not self.is_sub(s.cls, "Exception"):
                out.add(s)
                continue
            definite = False
            for k, v in pairs:
                if self.is_sub(s.cls, k):
                    for k2, v2 in pairs:
                        if k2 == k:         # several targets under one key: a parameter-valued target class
                            out.add(Src(v2, s.tag, s.chain + (hop,), s.origin))
                    definite = True
                    break
                if self.is_sub(k, s.cls):
                    out.add(Src(v, s.tag, s.chain + (hop,), s.origin))
            if not definite:
                out.add(s)
        return out

    def _cm_kind(self, item: ast.withitem, ctx: Ctx) -> str:
        t = self.types.expr_type(item.context_expr, ctx.func)
        if t[0] == "cls":
            return t[1].name
        ch = chain(item.context_expr.func) if isinstance(item.context_expr, ast.Call) else None
        return ch[-1] if ch else "?"

    def _with(self, st: ast.With | ast.AsyncWith, ctx: Ctx, i: int) -> Esc:
        f = ctx.func
        if i >= len(st.items):
            return self.block(st.body, ctx)
        item = st.items[i]
        out = Esc()
        out.merge(self.expr_sources(item.context_expr, ctx))
        kind = self._cm_kind(item, ctx)
        enter_exit = Esc()
        for s in self.cg.sites_at(item):
            enter_exit.merge(self.site_escapes(s, ctx))
        if isinstance(st, ast.AsyncWith) and not ctx.shield and self.await_suspends(item):
            enter_exit.add(Src(CANCELLED, "cancel", (f"{self._where(f, item)} {f.short}: async with {ast.unparse(item.context_expr)[:50]}",),
                               self._origin(f, "asyncwith:" + norm(item.context_expr))))
        out.merge(enter_exit)
        inner_ctx = ctx
        if kind in ("AsyncShieldCancellation", "ShieldCancellation"):
            inner_ctx = ctx.with_(shield=True)
        body = self._with(st, inner_ctx, i + 1)
        pairs = self._map_of(item, ctx)
        if pairs is not None:
            body = self.apply_map(body, pairs, f"{self._where(f, item)} {f.short}: map_exceptions")
        out.merge(body)
        return out

    def _try(self, st: ast.Try, ctx: Ctx) -> Esc:
        f = ctx.func
        out = Esc()
        body = self.block(st.body, ctx)
        remaining = Esc()
        caught: list[Esc] = [Esc() for _ in st.handlers]
        htypes = [self.handler_types(f.module, h) for h in st.handlers]
        for s in body.values():
            done = False
            for i, types_ in enumerate(htypes):
                if any(self.is_sub(s.cls, k) for k in types_):
                    caught[i].add(s)
                    done = True
                    break
                if any(self.is_sub(k, s.cls) for k in types_):
                    caught[i].add(s)  # may be caught; also may pass on
            if not done:
                remaining.add(s)
        out.merge(remaining)
        for h, c in zip(st.handlers, caught):
            prev = self.handler_caught.get(id(h))
            if prev is None:
                self.handler_caught[id(h)] = c
            else:
                prev.merge(c)
            # record `self.attr = exc` stores so that `raise self.attr` elsewhere knows its class set
            if h.name and f.cls is not None:
                for n in ast.walk(h):
                    if isinstance(n, ast.Assign) and isinstance(n.value, ast.Name) and n.value.id == h.name:
                        for t in n.targets:
                            if isinstance(t, ast.Attribute) and isinstance(t.value, ast.Name) and t.value.id == "self":
                                slot = self.attr_exc.setdefault((f.cls.qual, t.attr), Esc())
                                slot.merge(c.only(lambda s: self.is_sub(s.cls, "Exception")))
            if c or True:
                out.merge(self.block(h.body, ctx.with_(cur=c, cur_name=h.name)))
        out.merge(self.block(st.orelse, ctx))
        out.merge(self.block(st.finalbody, ctx))
        return out


def _conj_atoms(test: ast.expr, polarity: bool) -> list[tuple[ast.expr, bool]]:
    """Atoms that are known to hold (with polarity) when `test` evaluates to `polarity`."""
    if isinstance(test, ast.UnaryOp) and isinstance(test.op, ast.Not):
        return _conj_atoms(test.operand, not polarity)
    if isinstance(test, ast.BoolOp):
        if isinstance(test.op, ast.And) and polarity:
            return [a for v in test.values for a in _conj_atoms(v, True)]
        if isinstance(test.op, ast.Or) and not polarity:
            return [a for v in test.values for a in _conj_atoms(v, False)]
        return []
    return [(test, polarity)]
