"""Thorough-tier cross-check of the annotation-driven type resolver (E2) against mypy used as a library
(mypy analyses the source statically; nothing of httpcore is executed).  For every method call
`recv.m(...)` in the core trees the class mypy infers for `recv` is compared with hcverif's."""
from __future__ import annotations

import ast
import os
import typing as T


def crosscheck(ctx: T.Any) -> dict[str, T.Any]:
    try:
        from mypy import build
        from mypy.find_sources import create_source_list
        from mypy.nodes import CallExpr, MemberExpr
        from mypy.options import Options
        from mypy.types import AnyType, Instance, UnionType, get_proper_type
    except Exception as exc:  # noqa: BLE001
        return {"available": False, "why": f"mypy not importable: {exc}"}
    root = ctx.prog.root
    cwd = os.getcwd()
    os.chdir(root)
    try:
        opts = Options()
        opts.preserve_asts = True
        opts.export_types = True
        opts.incremental = False
        opts.cache_dir = os.devnull
        opts.follow_imports = "normal"
        opts.ignore_missing_imports = True
        sources = create_source_list(["httpcore"], opts)
        res = build.build(sources, opts)
    except Exception as exc:  # noqa: BLE001
        os.chdir(cwd)
        return {"available": False, "why": f"mypy build failed: {type(exc).__name__}: {exc}"}
    os.chdir(cwd)
    types = res.types
    # index mypy member-call receivers by (module, line, col, attr)
    mp: dict[tuple[str, int, int, str], str] = {}
    for expr, ty in types.items():
        if isinstance(expr, MemberExpr):
            t = get_proper_type(types.get(expr.expr)) if expr.expr in types else None
            if t is None:
                continue
            names = []
            for x in (t.items if isinstance(t, UnionType) else [t]):
                x = get_proper_type(x)
                if isinstance(x, Instance):
                    names.append(x.type.name)
                elif isinstance(x, AnyType):
                    names.append("Any")
            if names:
                mp[(getattr(expr, "line", -1), getattr(expr, "column", -1), expr.name)] = "|".join(sorted(set(names)))  # type: ignore[index]
    agree = disagree = skipped = 0
    samples = []
    for tree in ("async", "sync"):
        for f in ctx.names(tree).functions():
            for n in ast.walk(f.node):
                if isinstance(n, ast.Call) and isinstance(n.func, ast.Attribute):
                    mine = ctx.types.expr_type(n.func.value, f)
                    cands = mine[1] if mine[0] == "union" else [mine]
                    my_names = sorted({c[1].name for c in cands if c[0] == "cls"})
                    if not my_names:
                        skipped += 1
                        continue
                    key = (n.func.lineno, n.func.col_offset, n.func.attr)
                    theirs = mp.get(key)  # positions are unique enough within the compared set; module is implied by the line walk
                    if theirs is None or theirs == "Any":
                        skipped += 1
                        continue
                    # the async and sync twins have identical positions: compare modulo the Async prefix
                    strip = lambda x: x[5:] if x.startswith("Async") and x[5:6].isupper() else x
                    if {strip(x) for x in my_names} & {strip(x) for x in theirs.split("|")}:
                        agree += 1
                    else:
                        disagree += 1
                        if len(samples) < 10:
                            samples.append(f"{f.module.relpath}:{n.lineno} {ast.unparse(n.func)}: hcverif {my_names} vs mypy {theirs}")
    return {"available": True, "agree": agree, "disagree": disagree, "not_compared": skipped, "disagreements": samples, "mypy_errors": len(res.errors)}
