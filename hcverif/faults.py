"""Which of a node's raise sources are *real fault points* for the path rules (C05, C06, C07):
cancellation, network errors, protocol errors and anything else a peer, the network or the
scheduler can cause - as opposed to configuration faults, typing-narrowing asserts, explicit
misuse guards and the rows of the infeasible table (DESIGN.md C15.R3)."""
from __future__ import annotations

import typing as T

from .cfg import CFG, Edge, Node
from .escape import CANCELLED, Esc, Src


def is_real(s: Src) -> bool:
    from .rules.c15 import INFEASIBLE, NARROWING_ASSERTS, narrowing_key

    if s.tag == "config":
        return False
    if s.cls == "GeneratorExit":
        return False
    construct = s.origin.split("|", 1)[1] if "|" in s.origin else s.origin
    if s.cls == "AssertionError" and narrowing_key(construct) in NARROWING_ASSERTS:
        return False
    if s.cls in ("TypeError", "RuntimeError", "NotImplementedError") and s.tag == "explicit":
        return False
    for fn, frag, cls, _ in INFEASIBLE:
        if cls == s.cls and frag.replace(" ", "") in construct:
            return False
    if s.cls == "ValueError" and construct.startswith("self._connections.remove("):
        return False   # the side condition (element read from that very list) is decided by C15.R1
    if s.cls == "h11.LocalProtocolError" and "start_next_cycle" in construct:
        return False
    if s.cls == "KeyError" and "extensions[" in construct:
        return False
    return True


def real_sources(n: Node) -> list[Src]:
    return [s for s in n.own.values() if is_real(s)]


def kinds(srcs: T.Iterable[Src]) -> set[str]:
    """'Cancelled' and/or 'Exception'."""
    out = set()
    for s in srcs:
        out.add("Cancelled" if s.cls == CANCELLED else "Exception")
    return out


def real_exc_edges(n: Node, kind: str | None = None) -> list[Edge]:
    """Exceptional out-edges of n that can carry one of n's real fault classes (optionally of one kind)."""
    real = {s.cls for s in real_sources(n) if kind is None or (s.cls == CANCELLED) == (kind == "Cancelled")}
    return [e for e in n.succ if e.kind == "exc" and e.classes and (set(e.classes) & real)]


def _of_kind(classes: T.Iterable[str], kind: str | None) -> set[str]:
    if kind is None:
        return set(classes)
    return {c for c in classes if (c == CANCELLED) == (kind == "Cancelled")}


def escapes_without(cfg: CFG, n: Node, is_recovery: T.Callable[[Node], bool], kind: str | None = None,
                    feasible: T.Callable[[Edge], bool] | None = None) -> bool:
    """Can an exception of the given kind raised at n propagate to the function's exceptional exit
    without passing a node satisfying is_recovery?  The propagation of *this* exception is followed:
    handler bodies along their normal edges; raise / re-raise / with-exit nodes pass it on along the
    exceptional edges whose class set still matches.  New faults raised by intermediate nodes are
    fault points of their own and are judged separately."""
    real = {s.cls for s in real_sources(n)}
    carried0 = _of_kind(real, kind)
    seen: set[tuple[int, frozenset[str]]] = set()
    todo: list[tuple[Node, frozenset[str]]] = []
    for e in n.succ:
        if e.kind == "exc" and e.classes and (set(e.classes) & carried0):
            todo.append((e.dst, frozenset(set(e.classes) & carried0)))
    while todo:
        m, carried = todo.pop()
        if (m.id, carried) in seen:
            continue
        seen.add((m.id, carried))
        if is_recovery(m):
            continue
        if m is cfg.exc_exit:
            return True
        if m.kind in ("raise", "reraise", "with_exc_exit"):
            # the exception (possibly rewritten by a handler / map_exceptions) continues outward
            now = _of_kind(m.raises.classes(), kind) if m.kind != "with_exc_exit" else (_of_kind(m.raises.classes(), kind) if _rewrites(m) else set(carried))
            for e in m.succ:
                if e.kind == "exc" and e.classes and (set(e.classes) & now):
                    todo.append((e.dst, frozenset(set(e.classes) & now)))
        else:
            for e in m.succ:
                if e.kind != "exc" and (feasible is None or feasible(e)):
                    todo.append((e.dst, carried))
    return False


def _rewrites(m: Node) -> bool:
    import ast as _ast

    it = m.item
    return it is not None and isinstance(it.context_expr, _ast.Call) and "map_exceptions" in _ast.unparse(it.context_expr.func)
