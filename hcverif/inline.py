"""Un-refactoring of *new* private helpers.

"Extract method" is the commonest behaviour-preserving refactor, and it would move anchored statements out of the
functions the rules look at.  Private helpers (methods `_x` of a class of the module, or module-level `_x(...)`) that do
not exist in the committed baseline and have a simple shape are inlined back into their call sites in the in-memory AST
before any analysis runs.

 statement helpers   called as a whole statement - `self._x(..)`, `v = self._x(..)`, `return self._x(..)`,
                     `raise _x(..)`, with or without `await`, also on another receiver of the same module
                     (`self._pool._x(..)`: `self` in the body becomes that receiver).  The body has no yield, nested
                     definition or *args/**kwargs, and every `return` is in tail position (the last statement, or the last
                     statement of an if/else branch that is itself in tail position; guard clauses count).  Returns become
                     assignments / returns / raises of the calling form.
 expression helpers  the body is a single `return <expr>` (docstring aside) without await / yield: every call, anywhere in
                     an expression, is replaced by the expression with the parameters substituted.
 Decorators `@staticmethod` / `@classmethod` are understood (no `self`).
Parameters are substituted by the argument expressions (simple arguments directly, others through a temporary); helper locals
get a suffix only where they clash with a name the caller uses.  Anything that does not fit is left exactly as written
(the rules then see the new helper as it is)."""
from __future__ import annotations

import ast
import typing as T

FUNC_KINDS = (ast.FunctionDef, ast.AsyncFunctionDef)


def _clone(node: T.Any) -> T.Any:
    if isinstance(node, ast.AST):
        new = node.__class__()
        for f in node._fields:
            if hasattr(node, f):
                setattr(new, f, _clone(getattr(node, f)))
        for a in ("lineno", "col_offset", "end_lineno", "end_col_offset"):
            if hasattr(node, a):
                setattr(new, a, getattr(node, a))
        return new
    if isinstance(node, list):
        return [_clone(x) for x in node]
    return node


def _strip_doc(body: list[ast.stmt]) -> list[ast.stmt]:
    if body and isinstance(body[0], ast.Expr) and isinstance(body[0].value, ast.Constant) and isinstance(body[0].value.value, str):
        return body[1:]
    return body


def _kind(fn: T.Any) -> str | None:
    """'method' (takes self), 'static' (staticmethod / classmethod / module function: no receiver parameter), or None."""
    decos = [ast.unparse(d) for d in fn.decorator_list]
    # memoisation of a function changes no result (the analysis looks at what is computed, not how often)
    decos = [d for d in decos if d.split("(")[0] not in ("functools.lru_cache", "lru_cache", "functools.cache", "cache")]
    if not decos:
        return "method"
    if decos == ["property"]:
        return "property"
    if decos == ["staticmethod"]:
        return "static"
    if decos == ["classmethod"]:
        return "class"
    return None


def _tail_returns_only(stmts: list[ast.stmt]) -> bool:
    """Every Return in `stmts` is in tail position."""
    for i, st in enumerate(stmts):
        last = i == len(stmts) - 1
        if isinstance(st, ast.Return):
            if not last:
                return False
        elif isinstance(st, ast.If) and last:
            if not _tail_returns_only(st.body) or not _tail_returns_only(st.orelse):
                return False
        elif any(isinstance(x, ast.Return) for x in ast.walk(st)):
            return False
    return True


def _guard_to_else(stmts: list[ast.stmt]) -> list[ast.stmt]:
    """`if C: ...return` followed by rest  ->  `if C: ...return else: rest` (so that returns are in tail position)."""
    out: list[ast.stmt] = []
    for i, st in enumerate(stmts):
        if isinstance(st, ast.If):
            st = _clone(st)
            st.body = _guard_to_else(st.body)
            st.orelse = _guard_to_else(st.orelse)
            rest = stmts[i + 1:]
            if rest and not st.orelse and st.body and isinstance(st.body[-1], (ast.Return, ast.Raise)):
                st.orelse = _guard_to_else(rest)
                out.append(st)
                return out
        out.append(st)
    return out


def inlinable(fn: T.Any) -> bool:
    if _kind(fn) is None or fn.args.vararg or fn.args.kwarg or fn.args.posonlyargs:
        return False
    body = _strip_doc(fn.body)
    if not body:
        return False
    for n in ast.walk(fn):
        if isinstance(n, (ast.Yield, ast.YieldFrom, ast.Lambda, ast.ClassDef, ast.Global, ast.Nonlocal)) or (isinstance(n, FUNC_KINDS) and n is not fn):
            return False
    return True


def _has_return(node: ast.AST | list[ast.stmt]) -> bool:
    nodes = node if isinstance(node, list) else [node]
    return any(isinstance(x, ast.Return) for n in nodes for x in ast.walk(n))


def _terminates(stmts: list[ast.stmt]) -> bool:
    """The block never falls through to the statement after it."""
    if not stmts:
        return False
    last = stmts[-1]
    if isinstance(last, (ast.Return, ast.Raise, ast.Break, ast.Continue)):
        return True
    if isinstance(last, ast.If):
        return bool(last.orelse) and _terminates(last.body) and _terminates(last.orelse)
    if isinstance(last, (ast.With, ast.AsyncWith)):
        return _terminates(last.body)
    if isinstance(last, ast.Try):
        return _terminates(last.finalbody) or ((_terminates(last.orelse) if last.orelse else _terminates(last.body)) and all(_terminates(h.body) for h in last.handlers))
    if isinstance(last, ast.While) and isinstance(last.test, ast.Constant) and bool(last.test.value) is True and not _own_breaks(last):
        return True
    return False


def _own_breaks(loop: ast.AST) -> bool:
    """Does the loop contain a `break` of its own (not one of a nested loop)?"""
    def walk(stmts: list[ast.stmt]) -> bool:
        for st in stmts:
            if isinstance(st, ast.Break):
                return True
            if isinstance(st, (ast.For, ast.AsyncFor, ast.While)):
                if walk(st.orelse):
                    return True
                continue
            for field in ("body", "orelse", "finalbody"):
                if walk(getattr(st, field, []) or []):
                    return True
            for h in getattr(st, "handlers", []) or []:
                if walk(h.body):
                    return True
        return False
    return walk(loop.body)  # type: ignore[attr-defined]


class _RetElim:
    """Single-exit form of a helper body for the calling forms `x = helper()` / `helper()`: every `return e` delivers its value
    (assignment to the target / evaluation) and control continues after the inlined body.
      * a return in tail position (last statement, through if / with / try) needs no jump;
      * a return inside a loop becomes `break`; the statements after the loop move into the loop's `else` clause when the loop has
        no other break (exact: the else clause runs precisely when the loop was not left by break) - otherwise a flag guards them;
      * any other non-tail return sets a flag and the statements after the enclosing compound statement run under `if not flag`."""

    def __init__(self, form: str, target: T.Any, name: str, serial: int, via_temp: bool):
        self.form, self.target = form, target
        self.flag = f"done__{name}{serial}"
        self.temp = f"ret__{name}{serial}" if via_temp and form == "assign" else None
        self.flag_read = False

    def deliver(self, r: ast.Return) -> list[ast.stmt]:
        val = r.value
        if self.form == "assign":
            tgt = _clone(self.target)
            if self.temp:
                tgt = ast.Name(id=self.temp, ctx=ast.Store())
            elif isinstance(val, ast.Name) and isinstance(self.target, ast.Name) and val.id == self.target.id:
                return []
            return [ast.copy_location(ast.Assign(targets=[tgt], value=val if val is not None else ast.Constant(value=None)), r)]
        if val is not None and any(isinstance(x, (ast.Call, ast.Await)) for x in ast.walk(val)):
            return [ast.copy_location(ast.Expr(value=val), r)]
        return []

    def set_flag(self, at: ast.AST) -> ast.stmt:
        return ast.copy_location(ast.Assign(targets=[ast.Name(id=self.flag, ctx=ast.Store())], value=ast.Constant(value=True)), at)

    def not_flag(self, body: list[ast.stmt], at: ast.AST) -> list[ast.stmt]:
        if not body:
            return []
        self.flag_read = True
        return [ast.copy_location(ast.If(test=ast.UnaryOp(op=ast.Not(), operand=ast.Name(id=self.flag, ctx=ast.Load())), body=body, orelse=[]), at)]

    def block(self, stmts: list[ast.stmt], tail: bool, loops: int) -> list[ast.stmt]:
        out: list[ast.stmt] = []
        for i, st in enumerate(stmts):
            rest = stmts[i + 1:]
            if isinstance(st, ast.Return):
                out += self.deliver(st)
                if loops:
                    out += [self.set_flag(st), ast.copy_location(ast.Break(), st)]
                elif not tail:
                    out.append(self.set_flag(st))
                return out or [ast.copy_location(ast.Pass(), st)]                      # whatever follows a return is dead
            if not _has_return(st):
                out.append(st)
                continue
            if isinstance(st, ast.If):
                if rest and _terminates(st.body):
                    st.orelse = list(st.orelse) + rest
                    rest = []
                elif rest and st.orelse and _terminates(st.orelse):
                    st.body = list(st.body) + rest
                    rest = []
                elif rest and not loops and sum(1 for r_ in rest for _ in ast.walk(r_)) <= 400:
                    # a return somewhere inside a branch that may also fall through: the continuation is duplicated into both
                    # branches (tail duplication) - no flag, and every return is then in tail position of its branch
                    st.body = list(st.body) + [_clone(r_) for r_ in rest]
                    st.orelse = list(st.orelse) + [_clone(r_) for r_ in rest]
                    rest = []
                t = tail and not rest
                st.body = self.block(st.body, t, loops) or [ast.copy_location(ast.Pass(), st)]
                st.orelse = self.block(st.orelse, t, loops) if st.orelse else []
                out.append(st)
            elif isinstance(st, (ast.With, ast.AsyncWith)):
                st.body = self.block(st.body, tail and not rest, loops) or [ast.copy_location(ast.Pass(), st)]
                out.append(st)
            elif isinstance(st, ast.Try):
                if _has_return(st.finalbody):
                    raise _NotInlinable("return inside a finally clause")
                t = tail and not rest
                body_returns = _has_return(st.body)
                st.body = self.block(st.body, t and not st.orelse, loops) or [ast.copy_location(ast.Pass(), st)]
                for h in st.handlers:
                    h.body = self.block(h.body, t, loops) or [ast.copy_location(ast.Pass(), h)]
                if st.orelse:
                    body = self.block(st.orelse, t, loops)
                    st.orelse = self.not_flag(body, st) if body_returns and not loops else body
                out.append(st)
            elif isinstance(st, (ast.For, ast.AsyncFor, ast.While)):
                st.body = self.block(st.body, False, loops + 1)
                if st.orelse:
                    st.orelse = self.block(st.orelse, tail and not rest, loops)
                out.append(st)
                infinite = isinstance(st, ast.While) and isinstance(st.test, ast.Constant) and bool(st.test.value) is True
                others = _own_breaks_other(st, self.flag)
                if loops:
                    # the converted return leaves the enclosing loop(s) too
                    self.flag_read = True
                    out.append(ast.copy_location(ast.If(test=ast.Name(id=self.flag, ctx=ast.Load()), body=[ast.copy_location(ast.Break(), st)], orelse=[]), st))
                    out += self.block(rest, False, loops)
                elif infinite and not others:
                    pass                         # `while True` left only by the converted returns: the rest was unreachable
                elif rest and not st.orelse and not others:
                    st.orelse = self.block(rest, tail, loops)
                else:
                    out += self.not_flag(self.block(rest, tail, loops), st)
                return out
            else:
                raise _NotInlinable(f"return inside {type(st).__name__}")
            if rest:
                # a non-tail return may have happened inside `st`
                if loops:
                    out += self.block(rest, False, loops)     # inside a loop the converted return has already left by `break`
                else:
                    out += self.not_flag(self.block(rest, tail, loops), st)
            return out
        return out


class _NotInlinable(Exception):
    pass


def _own_breaks_other(loop: ast.AST, flag: str) -> bool:
    """A `break` of this loop that does not come from a converted return (those are preceded by `flag = True`)."""
    def walk(stmts: list[ast.stmt]) -> bool:
        for j, st in enumerate(stmts):
            if isinstance(st, ast.Break):
                prev = stmts[j - 1] if j else None
                if not (isinstance(prev, ast.Assign) and isinstance(prev.targets[0], ast.Name) and prev.targets[0].id == flag):
                    return True
                continue
            if isinstance(st, (ast.For, ast.AsyncFor, ast.While)):
                # the nested loop's own breaks are not ours, but `if flag: break` right after it is a converted one
                if walk(st.orelse):
                    return True
                continue
            if isinstance(st, ast.If) and isinstance(st.test, ast.Name) and st.test.id == flag:
                continue
            for field in ("body", "orelse", "finalbody"):
                if walk(getattr(st, field, []) or []):
                    return True
            for h in getattr(st, "handlers", []) or []:
                if walk(h.body):
                    return True
        return False
    return walk(loop.body)  # type: ignore[attr-defined]


def expression_helper(fn: T.Any) -> ast.expr | None:
    if _kind(fn) is None or fn.args.vararg or fn.args.kwarg or fn.args.posonlyargs or isinstance(fn, ast.AsyncFunctionDef):
        return None
    def simplify(test: ast.expr, a: ast.expr, b: ast.expr, at: ast.AST) -> ast.expr:
        """`True if t else b` == `t or b`;  `a if t else False` == `t and a`;  `False if t else b` == `not t and b`;  `a if t else True` == `not t or a`."""
        def const(e: ast.expr) -> T.Any:
            return e.value if isinstance(e, ast.Constant) and isinstance(e.value, bool) else None
        ca, cb = const(a), const(b)
        neg = ast.UnaryOp(op=ast.Not(), operand=test)
        if ca is True:
            r: ast.expr = ast.BoolOp(op=ast.Or(), values=[test, b])
        elif cb is False:
            r = ast.BoolOp(op=ast.And(), values=[test, a])
        elif ca is False:
            r = ast.BoolOp(op=ast.And(), values=[neg, b])
        elif cb is True:
            r = ast.BoolOp(op=ast.Or(), values=[neg, a])
        else:
            r = ast.IfExp(test=test, body=a, orelse=b)
        return ast.copy_location(r, at)

    def plain(e: ast.expr) -> bool:
        """An alias-like right-hand side that may be substituted into the result: attribute chains, names, constants."""
        while isinstance(e, ast.Attribute):
            e = e.value
        return isinstance(e, (ast.Name, ast.Constant))

    def as_expr(stmts: list[ast.stmt]) -> ast.expr | None:
        temps: dict[str, ast.expr] = {}
        stmts = list(stmts)
        ordered: list[str] = []
        while len(stmts) > 1 and isinstance(stmts[0], (ast.Assign, ast.AnnAssign)):
            st = stmts[0]
            tg = st.targets[0] if isinstance(st, ast.Assign) and len(st.targets) == 1 else getattr(st, "target", None)
            if not (isinstance(tg, ast.Name) and getattr(st, "value", None) is not None):
                return None
            if not plain(st.value):
                # a computed temporary (a call): it may be substituted only if the result uses it exactly once and the
                # temporaries appear there in the order in which they were computed (evaluation order unchanged)
                ordered.append(tg.id)
            temps[tg.id] = _Subst(dict(temps), {}).visit(_clone(st.value))
            stmts = stmts[1:]
        if ordered:
            if not (len(stmts) == 1 and isinstance(stmts[0], ast.Return) and stmts[0].value is not None):
                return None
            seq = [x.id for x in sorted((x for x in ast.walk(stmts[0].value) if isinstance(x, ast.Name) and x.id in ordered), key=lambda x: (x.lineno, x.col_offset))]
            others_impure = any(isinstance(x, (ast.Call, ast.Await)) for x in ast.walk(stmts[0].value)
                                if isinstance(x, (ast.Call, ast.Await)) and not (isinstance(x, ast.Call) and isinstance(x.func, ast.Name) and x.func.id in ("min", "max", "len", "bool", "int", "tuple")))
            if seq != ordered or others_impure:
                return None
        e: ast.expr | None = None
        if len(stmts) == 1 and isinstance(stmts[0], ast.Return) and stmts[0].value is not None:
            e = stmts[0].value
        elif len(stmts) == 1 and isinstance(stmts[0], ast.If) and stmts[0].orelse:
            a, b = as_expr(stmts[0].body), as_expr(stmts[0].orelse)
            if a is not None and b is not None:
                e = simplify(stmts[0].test, a, b, stmts[0])
        if e is not None and temps:
            e = _Subst(dict(temps), {}).visit(_clone(e))
        return e

    e = as_expr(_guard_to_else(_strip_doc(fn.body)))
    if e is not None and not any(isinstance(x, (ast.Await, ast.Yield, ast.YieldFrom, ast.Lambda, ast.NamedExpr)) for x in ast.walk(e)):
        return e
    return None


def _call_of(st: ast.stmt) -> tuple[ast.Call, str, T.Any] | None:
    """(call, form, target) if the statement is a helper call in statement position."""
    def unwrap(e: T.Any) -> ast.Call | None:
        if isinstance(e, ast.Await):
            e = e.value
        return e if isinstance(e, ast.Call) else None
    if isinstance(st, ast.Expr):
        c = unwrap(st.value)
        return (c, "expr", None) if c else None
    if isinstance(st, ast.Assign) and len(st.targets) == 1:
        c = unwrap(st.value)
        return (c, "assign", st.targets[0]) if c else None
    if isinstance(st, ast.AnnAssign) and st.value is not None:
        c = unwrap(st.value)
        return (c, "assign", st.target) if c else None
    if isinstance(st, ast.Return) and st.value is not None:
        c = unwrap(st.value)
        return (c, "return", None) if c else None
    if isinstance(st, ast.Raise) and st.exc is not None and st.cause is None:
        c = unwrap(st.exc)
        return (c, "raise", None) if c else None
    return None


def _chain_ok(e: ast.AST) -> bool:
    while isinstance(e, ast.Attribute):
        e = e.value
    return isinstance(e, ast.Name)


_DEFS: dict[str, T.Any] = {}        # helper name -> definition, set by inline_new_helpers for the module being processed


def _helper_ref(call: ast.Call, names: T.Container[str]) -> tuple[str, ast.expr | None] | None:
    """(helper name, receiver expression or None) if `call` calls one of `names`.  A module-level helper is called by its bare
    name, a method through a receiver."""
    f = call.func
    if isinstance(f, ast.Name) and f.id in names:
        d = _DEFS.get(f.id)
        if d is not None and getattr(d, "_in_class", False):
            return None
        return f.id, None
    if isinstance(f, ast.Attribute) and f.attr in names and _chain_ok(f.value):
        d = _DEFS.get(f.attr)
        if d is not None and not getattr(d, "_in_class", False):
            return None
        return f.attr, f.value
    return None


def _simple(e: ast.AST) -> bool:
    while isinstance(e, ast.Attribute):
        e = e.value
    return isinstance(e, (ast.Name, ast.Constant))


class _Subst(ast.NodeTransformer):
    def __init__(self, mapping: dict[str, ast.AST], rename: dict[str, str]):
        self.mapping, self.rename = mapping, rename

    def visit_Name(self, n: ast.Name) -> ast.AST:
        if n.id in self.mapping and isinstance(n.ctx, ast.Load):
            return _clone(self.mapping[n.id])
        if n.id in self.rename:
            return ast.copy_location(ast.Name(id=self.rename[n.id], ctx=n.ctx), n)
        return n

    def visit_ExceptHandler(self, n: ast.ExceptHandler) -> ast.AST:
        self.generic_visit(n)
        if n.name in self.rename:
            n.name = self.rename[n.name]
        return n


def _bind(call: ast.Call, helper: T.Any, receiver: ast.expr | None) -> dict[str, ast.AST] | None:
    params = [a.arg for a in helper.args.args]
    defaults = dict(zip(params[len(params) - len(helper.args.defaults):], helper.args.defaults))
    kwonly = [a.arg for a in helper.args.kwonlyargs]
    for a, d in zip(helper.args.kwonlyargs, helper.args.kw_defaults):
        if d is not None:
            defaults[a.arg] = d
    bound: dict[str, ast.AST] = {}
    kind = _kind(helper)
    in_class = getattr(helper, "_in_class", False)
    if in_class and kind in ("method", "class"):
        if not params:
            return None
        first, params = params[0], params[1:]
        if kind == "method":
            if receiver is None:
                return None
            bound[first] = receiver
        else:
            bound[first] = receiver if receiver is not None else ast.Name(id="type(self)", ctx=ast.Load())
    if any(isinstance(a, ast.Starred) for a in call.args) or any(k.arg is None for k in call.keywords):
        return None
    if len(call.args) > len(params):
        return None
    for p, a in zip(params, call.args):
        bound[p] = a
    for k in call.keywords:
        if k.arg not in params + kwonly or k.arg in bound:
            return None
        bound[k.arg] = k.value
    for p in params + kwonly:
        if p not in bound:
            if p not in defaults:
                return None
            bound[p] = defaults[p]
    return bound


def _returns_to(stmts: list[ast.stmt], form: str, target: T.Any, at: ast.AST) -> list[ast.stmt]:
    """Replace the tail-position returns of `stmts` according to the calling form."""
    out = list(stmts)
    if not out:
        return _no_return(form, target, at)
    last = out[-1]
    if isinstance(last, ast.Return):
        val = last.value
        if form == "assign":
            if isinstance(val, ast.Name) and isinstance(target, ast.Name) and val.id == target.id:
                rep = []
            else:
                rep = [ast.copy_location(ast.Assign(targets=[_clone(target)], value=val if val is not None else ast.Constant(value=None)), last)]
        elif form == "return":
            rep = [ast.copy_location(ast.Return(value=val), last)]
        elif form == "raise":
            rep = [ast.copy_location(ast.Raise(exc=val, cause=None), last)]
        else:
            rep = [ast.copy_location(ast.Expr(value=val), last)] if val is not None and any(isinstance(x, (ast.Call, ast.Await)) for x in ast.walk(val)) else []
        return out[:-1] + rep
    if isinstance(last, ast.If) and (any(isinstance(x, ast.Return) for x in ast.walk(last))):
        last.body = _returns_to(last.body, form, target, at) or [ast.copy_location(ast.Pass(), last)]
        last.orelse = _returns_to(last.orelse, form, target, at) if last.orelse else _no_return(form, target, at)
        return out
    if isinstance(last, ast.Raise):
        return out
    return out + _no_return(form, target, at)


def _no_return(form: str, target: T.Any, at: ast.AST) -> list[ast.stmt]:
    if form == "assign":
        return [ast.copy_location(ast.Assign(targets=[_clone(target)], value=ast.Constant(value=None)), at)]
    if form == "return":
        return [ast.copy_location(ast.Return(value=None), at)]
    return []


def _observed(fn: T.Any, stmt: ast.stmt, var: str) -> bool:
    """Is `var` read by an exception handler or finally clause that encloses `stmt`?  Then the moment at which the caller's
    variable is bound (only when the helper RETURNS) is observable, and the helper's local must stay a different variable."""
    for t in ast.walk(fn):
        if isinstance(t, ast.Try) and any(stmt is x for b in t.body for x in ast.walk(b)):
            for blk in [h.body for h in t.handlers] + [t.finalbody]:
                if any(isinstance(n, ast.Name) and n.id == var for st in blk for n in ast.walk(st)):
                    return True
    return False


def _expand(call: ast.Call, form: str, target: T.Any, helper: T.Any, receiver: ast.expr | None, serial: int, caller_names: T.Container[str] = frozenset(),
            observed: bool = False, single_use: T.Container[str] = frozenset()) -> list[ast.stmt] | None:
    bound = _bind(call, helper, receiver)
    if bound is None:
        return None
    assigned = {n.id for n in ast.walk(helper) if isinstance(n, ast.Name) and isinstance(n.ctx, ast.Store)} | \
        {n.name for n in ast.walk(helper) if isinstance(n, ast.ExceptHandler) and n.name}
    pre: list[ast.stmt] = []
    mapping: dict[str, ast.AST] = {}
    rename: dict[str, str] = {}
    for p, a in bound.items():
        if (_simple(a) or p == "self") and p not in assigned:
            mapping[p] = a
        elif form == "assign" and not observed and isinstance(a, ast.Name) and isinstance(target, ast.Name) and a.id == target.id and p in assigned \
                and not any(isinstance(x, ast.Name) and x.id == a.id for q, b_ in bound.items() if q != p for x in ast.walk(b_)):
            # `x = helper(x)` with the parameter re-bound inside the helper: the helper works on the caller's variable itself
            # (nobody can observe the intermediate values: no handler of the caller reads x)
            rename[p] = a.id
        elif isinstance(a, ast.Name) and p in assigned and a.id in single_use and not observed \
                and not any(isinstance(x, ast.Name) and x.id == a.id for q, b_ in bound.items() if q != p for x in ast.walk(b_)) \
                and a.id not in {v_ for v_ in assigned if v_ not in bound}:
            # the caller never reads this variable again (its only read is this argument): the helper, which re-binds the
            # parameter, may work on the caller's variable directly
            rename[p] = a.id
        else:
            tmp = f"{p}__{helper.name.strip('_')}{serial}"
            rename[p] = tmp
            pre.append(ast.copy_location(ast.Assign(targets=[ast.Name(id=tmp, ctx=ast.Store())], value=_clone(a)), call))
    returned = {r.value.id for r in ast.walk(helper) if isinstance(r, ast.Return) and isinstance(r.value, ast.Name)}
    same_var = target.id if form == "assign" and isinstance(target, ast.Name) and target.id in returned and not observed else None
    for v in assigned:
        if v not in bound and v in caller_names and v != same_var:
            rename[v] = f"{v}__{helper.name.strip('_')}{serial}"
    raw = [_clone(s) for s in _strip_doc(helper.body)]
    simple_shape = _tail_returns_only(_guard_to_else([_clone(s) for s in raw]))
    body = _guard_to_else(raw) if simple_shape else raw
    sub = _Subst(mapping, rename)
    body = [sub.visit(s) for s in body]
    # annotations of the helper's locals are dropped in the inlined copy (a local may now be bound at several call sites)
    class _DeAnn(ast.NodeTransformer):
        def visit_AnnAssign(self, n: ast.AnnAssign) -> ast.AST:
            if isinstance(n.target, ast.Name) and n.value is not None:
                return ast.copy_location(ast.Assign(targets=[n.target], value=n.value), n)
            return n
    body = [_DeAnn().visit(s) for s in body]
    if simple_shape:
        out = pre + _returns_to(body, form, target, call)
    elif form == "return":
        # `return helper(...)`: the helper's returns are the caller's returns, wherever they are
        out = pre + body + ([] if _terminates(body) else [ast.copy_location(ast.Return(value=None), call)])
    elif form == "raise":
        if not _terminates(body):
            return None

        class _ToRaise(ast.NodeTransformer):
            def visit_Return(self, n: ast.Return) -> ast.AST:
                return ast.copy_location(ast.Raise(exc=n.value, cause=None), n)
        out = pre + [_ToRaise().visit(s) for s in body]
    else:
        el = _RetElim(form, target, helper.name.strip("_"), serial, observed)
        if form == "assign" and not _terminates(body):
            body = body + [ast.copy_location(ast.Return(value=None), call)]
        try:
            new_body = el.block(body, True, 0)
        except _NotInlinable:
            return None
        if el.flag_read:
            new_body = [ast.copy_location(ast.Assign(targets=[ast.Name(id=el.flag, ctx=ast.Store())], value=ast.Constant(value=False)), call)] + new_body
        else:
            class _DropFlag(ast.NodeTransformer):
                def visit_Assign(self, n: ast.Assign) -> T.Any:
                    if isinstance(n.targets[0], ast.Name) and n.targets[0].id == el.flag:
                        return None
                    return n
            new_body = [x for x in (_DropFlag().visit(s) for s in new_body) if x is not None]
            for x in [y for s_ in new_body for y in ast.walk(s_)]:
                for field in ("body", "orelse"):
                    if field == "body" and isinstance(getattr(x, "body", None), list) and not x.body:
                        x.body = [ast.copy_location(ast.Pass(), x)]
        if el.temp:
            new_body.append(ast.copy_location(ast.Assign(targets=[_clone(target)], value=ast.Name(id=el.temp, ctx=ast.Load())), call))
        out = pre + new_body
    for s in out:
        ast.fix_missing_locations(s)
    return out or [ast.copy_location(ast.Pass(), call)]


def _blocks(node: ast.AST) -> T.Iterator[list[ast.stmt]]:
    for n in ast.walk(node):
        for field in ("body", "orelse", "finalbody"):
            b = getattr(n, field, None)
            if isinstance(b, list) and b and all(isinstance(x, ast.stmt) for x in b):
                yield b


def _stmt_calls(fn: T.Any) -> set[int]:
    ok = set()
    for blk in _blocks(fn):
        for st in blk:
            c = _call_of(st)
            if c:
                ok.add(id(c[0]))
    return ok


def _module_bindings(tree: ast.Module) -> set[str]:
    out: set[str] = set()
    for st in ast.walk(tree):
        if isinstance(st, ast.Import):
            out |= {(a.asname or a.name.split(".")[0]) for a in st.names}
        elif isinstance(st, ast.ImportFrom):
            out |= {(a.asname or a.name) for a in st.names}
    for st in tree.body:
        if isinstance(st, FUNC_KINDS + (ast.ClassDef,)):
            out.add(st.name)
        elif isinstance(st, ast.Assign):
            out |= {t.id for t in st.targets if isinstance(t, ast.Name)}
        elif isinstance(st, ast.AnnAssign) and isinstance(st.target, ast.Name):
            out.add(st.target.id)
    return out


_SERIAL = [0]


def _inline_closures(tree: ast.Module) -> list[str]:
    """A local closure `def g(..): ...` inside a routine, used only by calling it there, is expanded at its call sites (its free
    variables are the routine's own names) and removed.  Refused when g is passed around, re-binds an enclosing name
    (nonlocal), is decorated, or cannot be expanded at every call."""
    notes: list[str] = []
    funcs = [n for n in ast.walk(tree) if isinstance(n, FUNC_KINDS)]
    for f in funcs:
        nested = [(blk, st) for blk in _blocks(f) for st in blk if isinstance(st, FUNC_KINDS) and st is not f]
        nested = [(blk, g) for blk, g in nested if not any(g is x for h in funcs if h is not f and h is not g and any(h is y for y in ast.walk(f)) for x in ast.walk(h) if x is not h)]
        for blk, g in nested:
            if g.decorator_list or any(isinstance(x, (ast.Nonlocal, ast.Global)) for x in ast.walk(g)):
                continue
            refs = [n for n in ast.walk(f) if isinstance(n, ast.Name) and n.id == g.name]
            calls = [c for c in ast.walk(f) if isinstance(c, ast.Call) and isinstance(c.func, ast.Name) and c.func.id == g.name]
            if not calls or len(refs) != len(calls) or any(any(r is x for x in ast.walk(g)) for r in refs):
                continue
            fc = _clone(f)
            gc = next(x for x in ast.walk(fc) if isinstance(x, FUNC_KINDS) and x.name == g.name and x is not fc)
            for b2 in _blocks(fc):
                if any(x is gc for x in b2):
                    b2[:] = [x for x in b2 if x is not gc] or [ast.copy_location(ast.Pass(), gc)]
                    break
            saved_name = fc.name
            synth = ast.Module(body=[gc, fc], type_ignores=[])
            saved_decos, fc.decorator_list = fc.decorator_list, []
            inline_new_helpers(synth, {saved_name}, _closures=False)
            fc.decorator_list = saved_decos
            if gc in synth.body or any(isinstance(n, ast.Name) and n.id == g.name for n in ast.walk(fc)):
                continue                     # not every call site could be expanded
            f.body = fc.body
            notes.append(f"local closure {g.name} of {f.name} expanded at its call sites")
    return notes


def inline_new_helpers(tree: ast.Module, known_functions: set[str], extern: dict[str, tuple[T.Any, str, ast.Module]] | None = None,
                       keep: T.Container[str] = frozenset(), _closures: bool = True) -> list[str]:
    """Inline helpers that are not in `known_functions` (keys 'Class.method' / 'function').  `extern`: new module-level helpers of
    OTHER units that this unit imports: local name -> (definition, defining module, its tree); the module-level names their bodies
    use are imported from the defining module."""
    notes: list[str] = []
    if _closures and extern is None:
        notes += _inline_closures(tree)
    counter = _SERIAL
    allf: list[T.Any] = []
    new: dict[str, T.Any] = {}
    owner: dict[str, T.Any] = {}
    dup: set[str] = set()
    if extern:
        here = _module_bindings(tree)
        for local, (fn, src_mod, src_tree) in extern.items():
            there = _module_bindings(src_tree)
            params = {a.arg for a in fn.args.args + fn.args.kwonlyargs}
            stored = {n.id for n in ast.walk(fn) if isinstance(n, ast.Name) and isinstance(n.ctx, ast.Store)}
            need = sorted({n.id for n in ast.walk(fn) if isinstance(n, ast.Name) and isinstance(n.ctx, ast.Load)} & there - here - params - stored)
            if need:
                imp = ast.ImportFrom(module=src_mod, names=[ast.alias(name=x, asname=None) for x in need], level=0)
                ast.fix_missing_locations(ast.copy_location(imp, tree.body[0]))
                tree.body.insert(0, imp)
                here |= set(need)
            cp = _clone(fn)
            cp.name = local
            cp._in_class = bool(getattr(fn, "_in_class", False))  # type: ignore[attr-defined]
            cp._extern = True  # type: ignore[attr-defined]
            if local in new:
                dup.add(local)
            new[local] = cp
    for n in tree.body:
        if isinstance(n, FUNC_KINDS):
            allf.append(n)
            n._in_class = False  # type: ignore[attr-defined]
            if extern is not None:
                continue            # second pass: only the imported helpers
            if not n.name.startswith("__") and n.name not in known_functions:
                (dup.add(n.name) if n.name in new else None)
                new[n.name] = n
                owner[n.name] = tree
        elif isinstance(n, ast.ClassDef):
            for m in n.body:
                if isinstance(m, FUNC_KINDS):
                    allf.append(m)
                    m._in_class = True  # type: ignore[attr-defined]
                    if extern is not None:
                        continue
                    if not m.name.startswith("__") and f"{n.name}.{m.name}" not in known_functions:
                        (dup.add(m.name) if m.name in new else None)
                        new[m.name] = m
                        owner[m.name] = n
    # a name defined twice, or also defined by a known function of the module, is ambiguous
    known_names = {k.split(".")[-1] for k in known_functions}
    new = {k: v for k, v in new.items() if k not in dup and k not in known_names}
    if not new:
        return notes
    _DEFS.clear()
    _DEFS.update(new)
    # ---- statement helpers
    stmts = {k: v for k, v in new.items() if inlinable(v) and _kind(v) != "property"}
    for _ in range(3):
        if not stmts:
            break
        done = 0
        for f in allf:
            caller_names = {n.id for n in ast.walk(f) if isinstance(n, ast.Name)} | {a.arg for a in f.args.args + f.args.kwonlyargs}
            for blk in list(_blocks(f)):
                i = 0
                while i < len(blk):
                    c = _call_of(blk[i])
                    ref = _helper_ref(c[0], stmts) if c else None
                    if c and ref and stmts[ref[0]] is not f:
                        helper = stmts[ref[0]]
                        is_async_call = isinstance(getattr(blk[i], "value", getattr(blk[i], "exc", None)), ast.Await)
                        if isinstance(helper, ast.AsyncFunctionDef) == is_async_call:
                            counter[0] += 1
                            obs = isinstance(c[2], ast.Name) and _observed(f, blk[i], c[2].id)
                            loads_: dict[str, int] = {}
                            for n_ in ast.walk(f):
                                if isinstance(n_, ast.Name) and isinstance(n_.ctx, ast.Load):
                                    loads_[n_.id] = loads_.get(n_.id, 0) + 1
                            in_handler = any(isinstance(t_, ast.Try) and any(blk[i] is x for b_ in t_.body for x in ast.walk(b_)) for t_ in ast.walk(f))
                            single = {k_ for k_, v_ in loads_.items() if v_ == 1} if not in_handler else set()
                            out = _expand(c[0], c[1], c[2], helper, ref[1], counter[0], caller_names, obs, single)
                            if out is not None:
                                blk[i:i + 1] = out
                                done += 1
                                i += len(out)
                                continue
                    i += 1
        if not done:
            break
    # ---- expression helpers
    exprs = {k: expression_helper(v) for k, v in new.items()}
    exprs = {k: v for k, v in exprs.items() if v is not None}

    class ExprInline(ast.NodeTransformer):
        def __init__(self) -> None:
            self.done = 0

        def visit_Attribute(self, n: ast.Attribute) -> ast.AST:
            self.generic_visit(n)
            # a NEW read-only property whose body is one expression: `recv.name` is that expression with self = recv
            if isinstance(n.ctx, ast.Load) and n.attr in exprs and _kind(new[n.attr]) == "property" and _chain_ok(n.value) and getattr(new[n.attr], "_in_class", False):
                helper = new[n.attr]
                params = [a.arg for a in helper.args.args]
                if len(params) == 1:
                    res = _Subst({params[0]: n.value}, {}).visit(_clone(exprs[n.attr]))
                    for x in ast.walk(res):
                        ast.copy_location(x, n)
                    self.done += 1
                    return res
            return n

        def visit_Call(self, n: ast.Call) -> ast.AST:
            self.generic_visit(n)
            if isinstance(n.func, ast.Name) and n.func.id in exprs and _kind(new[n.func.id]) == "property":
                return n
            ref = _helper_ref(n, exprs)
            if ref is not None and _kind(new[ref[0]]) == "property":
                return n
            if ref is None:
                return n
            name, recv = ref
            helper = new[name]
            bound = _bind(n, helper, recv)
            if bound is None:
                return n
            res = _Subst(dict(bound), {}).visit(_clone(exprs[name]))
            for x in ast.walk(res):
                ast.copy_location(x, n)
            self.done += 1
            return res

    for _ in range(3):
        t = ExprInline()
        for f in allf:
            t.generic_visit(f)
        # the stored expressions of helpers that call other helpers are refreshed
        for k_, v_ in list(exprs.items()):
            ne = expression_helper(new[k_])
            if ne is not None:
                exprs[k_] = ne
        if not t.done:
            break
    # ---- statement helpers called in FIRST-EVALUATED expression position of a statement: hoist
    #      `if helper(a) or X:`  ->  `t = <helper body>; if t or X:`   (exact: the call is what the statement evaluates first)
    def first_evaluated(e: ast.AST) -> list[ast.AST]:
        """The first sub-expression (in evaluation order) that is not side-effect free, as a one-element list - or [] when a
        conditional construct makes the order depend on values.  Names, constants and attribute chains on them are skipped."""
        def pure_leaf(x: ast.AST) -> bool:
            while isinstance(x, ast.Attribute):
                x = x.value
            return isinstance(x, (ast.Name, ast.Constant))

        def walk(x: ast.AST) -> ast.AST | None | bool:
            """first impure node, None if x is entirely pure, False if undecidable"""
            if pure_leaf(x):
                return None
            if isinstance(x, ast.Await) and isinstance(x.value, ast.Call):
                inner = walk_call_parts(x.value)
                return x if inner is None else inner
            if isinstance(x, ast.Call):
                inner = walk_call_parts(x)
                return x if inner is None else inner
            if isinstance(x, ast.BoolOp):
                return walk(x.values[0]) if walk(x.values[0]) is not None else False
            if isinstance(x, ast.IfExp):
                return walk(x.test) if walk(x.test) is not None else False
            if isinstance(x, ast.UnaryOp):
                return walk(x.operand)
            if isinstance(x, ast.Attribute):
                return walk(x.value)
            if isinstance(x, ast.Compare):
                seq = [x.left] + list(x.comparators)
            elif isinstance(x, ast.BinOp):
                seq = [x.left, x.right]
            elif isinstance(x, (ast.List, ast.Tuple, ast.Set)):
                seq = list(x.elts)
            elif isinstance(x, ast.Subscript):
                seq = [x.value, x.slice]
            elif isinstance(x, ast.Starred):
                seq = [x.value]
            elif isinstance(x, ast.Dict) and all(k is not None for k in x.keys):
                seq = [y for kv in zip(x.keys, x.values) for y in kv]
            else:
                return False
            for y in seq:
                r = walk(y)
                if r is not None:
                    return r
            return None

        def walk_call_parts(c: ast.Call) -> ast.AST | None | bool:
            parts: list[ast.AST] = []
            if not pure_leaf(c.func):
                parts.append(c.func.value if isinstance(c.func, ast.Attribute) else c.func)
            parts += list(c.args) + [k.value for k in c.keywords]
            for y in parts:
                r = walk(y)
                if r is not None:
                    return r
            return None

        r = walk(e)
        return [r] if isinstance(r, ast.AST) else []

    def host_expr(st: ast.stmt) -> tuple[ast.AST, str] | None:
        if isinstance(st, ast.If):
            return st, "test"
        if isinstance(st, (ast.Assign, ast.AnnAssign, ast.Return, ast.Expr)) and getattr(st, "value", None) is not None:
            return st, "value"
        return None

    for _ in range(3):
        if not stmts:
            break
        done = 0
        for f in allf:
            caller_names = {n.id for n in ast.walk(f) if isinstance(n, ast.Name)} | {a.arg for a in f.args.args + f.args.kwonlyargs}
            for blk in list(_blocks(f)):
                i = 0
                while i < len(blk):
                    h = host_expr(blk[i])
                    if h is not None:
                        holder, field = h
                        spine = first_evaluated(getattr(holder, field))
                        hit = None
                        for e in spine:
                            c = e.value if isinstance(e, ast.Await) else e
                            if isinstance(c, ast.Call):
                                ref = _helper_ref(c, stmts)
                                if ref and stmts[ref[0]] is not f and isinstance(stmts[ref[0]], ast.AsyncFunctionDef) == isinstance(e, ast.Await) \
                                        and not (e is getattr(holder, field) and field == "value" and not isinstance(holder, ast.If) and _call_of(blk[i])):
                                    hit = (e, c, ref)
                                    break
                        if hit is not None:
                            e, c, ref = hit
                            counter[0] += 1
                            tmp = f"{ref[0].strip('_')}__v{counter[0]}"
                            out = _expand(c, "assign", ast.Name(id=tmp, ctx=ast.Store()), stmts[ref[0]], ref[1], counter[0], caller_names)
                            if out is not None:
                                new_name = ast.copy_location(ast.Name(id=tmp, ctx=ast.Load()), e)

                                class Rep(ast.NodeTransformer):
                                    def generic_visit(self, n: ast.AST) -> ast.AST:
                                        if n is e:
                                            return new_name
                                        return super().generic_visit(n)
                                setattr(holder, field, Rep().visit(getattr(holder, field)))
                                blk[i:i] = out
                                done += 1
                                i += len(out)
                    i += 1
        if not done:
            break
    # ---- drop helpers that are no longer referenced (iteratively: a helper used only by dropped helpers goes too)
    handled = [n_ for n_ in new if n_ in exprs or n_ in stmts]
    dropped: set[str] = set()
    changed = True
    while changed:
        changed = False
        for name in handled:
            if name in dropped:
                continue
            h = new[name]
            if getattr(h, "_extern", False):
                dropped.add(name)
                changed = True
                continue
            if name in keep:
                continue
            still = any((isinstance(n, ast.Attribute) and n.attr == name) or (isinstance(n, ast.Name) and n.id == name)
                        for f in allf if f is not h and not (f.name in dropped and new.get(f.name) is f) for n in ast.walk(f))
            if not still:
                body = owner[name].body
                if h in body:
                    body.remove(h)
                    if not body:
                        body.append(ast.Pass())
                dropped.add(name)
                changed = True
    for name in handled:
        notes.append(f"new helper {name} inlined into its call sites" + ("" if name in dropped else " (kept: still referenced)"))
    return notes
